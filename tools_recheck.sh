#!/bin/bash
# tools_recheck.sh <seed id> <check ids...> : apply /verif/seeded/<id>/patch.diff to /repo, run the quick checks, undo, update meta.json
id=$1; shift; checks=$@
/verif/tools_scratch.sh
export VERIF_REPO=${SEEDREPO:-/tmp/seedrepo} VERIF_EVIDENCE=${SEEDREPO:-/tmp/seedrepo}_evidence
cd ${SEEDREPO:-/tmp/seedrepo} && git apply /verif/seeded/$id/patch.diff || exit 1
res=""
for c in $checks; do
  o=$(cd /verif && timeout 1500 ./check $c quick 2>/dev/null | grep -E "^VIOLATION|^OK |^INCONCLUSIVE|label=" | head -4 | tr '\n' ' ')
  res="$res [$c] $o"
done
git -C ${SEEDREPO:-/tmp/seedrepo} checkout -- .
echo "CHECKS: $res" | cut -c1-600
python3 - "$id" "$res" <<'PY'
import json,sys
id,res=sys.argv[1:3]
p=f'/verif/seeded/{id}/meta.json'
m=json.load(open(p)); m.setdefault('history',[]).append(m.get('checks_quick_against_change'))
m['checks_quick_against_change']=res.strip(); m['detected']="VIOLATION" in res
json.dump(m,open(p,'w'),indent=1); print('detected:',m['detected'])
PY
