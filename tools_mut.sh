#!/bin/sh
# tools_mut.sh <prop> <file-in-repo> <sed-expr> : apply a one-line change to a scratch worktree of /repo, run the quick check, undo.
prop=$1; f=$2; expr=$3
/verif/tools_scratch.sh
export VERIF_REPO=${SEEDREPO:-/tmp/seedrepo} VERIF_EVIDENCE=${SEEDREPO:-/tmp/seedrepo}_evidence
cd ${SEEDREPO:-/tmp/seedrepo} && sed -i "$expr" "$f" && git diff --stat | tail -1
cd /verif && ./check $prop quick 2>/dev/null | grep -E "VIOLATION|KNOWN|OK |INCONCLUSIVE|label" | head -8; echo "exit=$?"
cd ${SEEDREPO:-/tmp/seedrepo} && git checkout -- "$f"
