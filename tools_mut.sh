#!/bin/sh
# tools_mut.sh <prop> <file-in-repo> <sed-expr> : apply a seeded change, run the quick check, undo.
prop=$1; f=$2; expr=$3
cd /repo && sed -i "$expr" "$f" && git diff --stat | tail -1
cd /verif && ./check $prop quick 2>/dev/null | grep -E "VIOLATION|KNOWN|OK |INCONCLUSIVE|label" | head -8; echo "exit=$?"
cd /repo && git checkout -- "$f"
