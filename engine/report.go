package gosym

import (
	"fmt"
	"sort"
	"strings"
	"time"

	"golang.org/x/tools/go/ssa"
)

type EntryResult struct {
	Entry          string                `json:"entry"`
	Mode           string                `json:"mode"`
	Paths          int                   `json:"paths"`
	DeadPaths      int                   `json:"dead_paths"`
	Obligations    int                   `json:"obligations"`
	Discharged     int                   `json:"discharged"`
	Trivial        int                   `json:"folded_by_simplifier"`
	Forks          int                   `json:"forks"`
	Merges         int                   `json:"diamond_merges"`
	Queries        int                   `json:"solver_queries"`
	SolverSec      float64               `json:"solver_s"`
	WallSec        float64               `json:"wall_s"`
	Violations     []*Violation          `json:"violations"`
	Known          map[string]*Violation `json:"known_findings_hit"`
	Inconclusive   []string              `json:"inconclusive"`
	ReachDeclared  []string              `json:"reach_declared"`
	ReachMissing   []string              `json:"reach_missing"`
	ReachHit       map[string]int        `json:"reach_hit"`
	Functions      []string              `json:"functions_encoded"`
	Bounds         map[string]int64      `json:"bounds"`
	Assumptions    []string              `json:"assumptions"`
	Samples        []string              `json:"samples"`
	Witness        map[string]string     `json:"witness_inputs"`
	Witnesses      []WitnessTrace        `json:"witness_traces,omitempty"`
	Observed       []string              `json:"observed,omitempty"`
	MaxAlloc       int64                 `json:"max_alloc"`
	CrossChecked   int                   `json:"cross_checked"`
	CrossDisagree  []string              `json:"cross_disagree,omitempty"`
	CrossDismissed int                   `json:"cross_dismissed,omitempty"`
	CrossUnknown   int                   `json:"cross_unknown,omitempty"`
	CrossAbandoned int                   `json:"cross_abandoned,omitempty"`
	InitDiag       []string              `json:"init_diag,omitempty"`
	Stubs          []string              `json:"stubs"`
	Completed      int                   `json:"paths_completed"`
	ModelHits      int                   `json:"model_cache_hits"`
}

type RunOpts struct {
	Tier         string
	Verbose      bool
	Known        map[string]bool
	Cross        []string
	TimeLimit    time.Duration
	Model        map[string]string // concrete replay
	NoMerge      bool
	NoModelCache bool
}

func RunEntry(L *Loaded, entry string, opts RunOpts) (*EntryResult, error) {
	fn := L.Pkg.Func(entry)
	if fn == nil {
		return nil, fmt.Errorf("no harness function %s in %s", entry, L.Pkg.Pkg.Path())
	}
	intMode, w := L.ModeOf(entry)
	e, err := NewEngine(L.Prog, intMode, w)
	if err != nil {
		return nil, err
	}
	defer e.Close()
	e.Tier = opts.Tier
	e.Verbose = opts.Verbose
	e.NoMerge = opts.NoMerge
	e.NoModelCache = opts.NoModelCache
	if opts.Known != nil {
		e.KnownOpen = opts.Known
	}
	if opts.Tier == "thorough" {
		e.OblTO = 120000
		e.CrossSolvers = opts.Cross
	}
	if opts.TimeLimit > 0 {
		e.Deadline = time.Now().Add(opts.TimeLimit)
	}
	if err := L.Configure(e, entry); err != nil {
		return nil, err
	}
	if opts.Model != nil {
		e.Concrete = true
		e.ModelIn = parseModel(opts.Model)
	}
	t0 := time.Now()
	e.Run(fn)
	res := &EntryResult{Entry: entry, Paths: e.Paths, DeadPaths: e.DeadPaths, Obligations: e.Obligations,
		Discharged: e.Discharged, Trivial: e.Trivial, Forks: e.Forks, Merges: e.Merges, Queries: e.solver.Queries,
		SolverSec: e.solver.Time.Seconds(), WallSec: time.Since(t0).Seconds(), Violations: e.Violations,
		Known: e.KnownHits, Inconclusive: dedupe(e.Inconclusive), ReachHit: e.ReachHit, Bounds: e.Bounds,
		Assumptions: e.Assumptions, Samples: e.Samples, Witness: e.WitnessInputs, Witnesses: e.Witnesses, Observed: e.Observed,
		MaxAlloc: e.MaxAlloc, Completed: e.Completed, ModelHits: e.ModelHits, CrossChecked: e.CrossChecked, CrossDisagree: e.CrossDisagree, CrossDismissed: e.CrossDismissed, CrossUnknown: e.CrossUnknown, CrossAbandoned: e.CrossAbandoned, InitDiag: e.InitDiag}
	if intMode {
		res.Mode = "int"
	} else {
		res.Mode = fmt.Sprintf("bv W=%d", w)
	}
	res.ReachDeclared = L.ReachTagsOf(entry)
	if !e.Concrete {
		for _, t := range res.ReachDeclared {
			if e.ReachHit[t] == 0 {
				res.ReachMissing = append(res.ReachMissing, t)
			}
		}
	}
	for name := range e.FnEntered {
		if isHarnessFn(L, name) {
			continue
		}
		res.Functions = append(res.Functions, name)
	}
	sort.Strings(res.Functions)
	for name, d := range e.Directives {
		s := d.Kind + " " + name
		if d.Target != nil {
			s += " -> " + d.Target.Name()
		}
		res.Stubs = append(res.Stubs, s)
	}
	sort.Strings(res.Stubs)
	if e.Completed == 0 && !e.Concrete {
		res.Inconclusive = append(res.Inconclusive, "vacuous harness: no path ran to completion")
	}
	if len(e.CrossDisagree) > 0 {
		res.Inconclusive = append(res.Inconclusive, "solver disagreement: "+strings.Join(e.CrossDisagree, "; "))
	}
	return res, nil
}

func isHarnessFn(L *Loaded, name string) bool {
	return strings.Contains(name, ".zzH_") || strings.Contains(name, ".zz") || strings.Contains(name, "/zzverif.")
}

func dedupe(in []string) []string {
	seen := map[string]bool{}
	var out []string
	for _, s := range in {
		if !seen[s] {
			seen[s] = true
			out = append(out, s)
		}
	}
	return out
}

var _ = ssa.NaiveForm
