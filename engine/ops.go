package gosym

// Scalar operations of Go in the two arithmetic modes.
//   bv mode : Go integers are bit-vectors of their width (wrap-around for free)
//   int mode: Go integers are SMT Ints kept inside their type's range by
//             explicit wrapping after every operation that can leave it.

import (
	"fmt"
	"go/token"
	"go/types"
	"math"
	"math/big"
)

type unsupported struct{ msg string }

func (u unsupported) Error() string { return "unsupported: " + u.msg }

// ---------- int-mode range helpers ----------

func (e *Engine) wrapAddSub(r *Term, w int, signed bool) *Term {
	tt := e.tt
	if r.IsConst() {
		v := normU(w, r.c)
		if signed {
			v = toSigned(w, v)
		}
		return tt.Int(v)
	}
	p := tt.Int(pow2(w))
	if !signed {
		return tt.Ite(tt.IntCmp(OLe, p, r), tt.IntBin(OSub, r, p),
			tt.Ite(tt.IntCmp(OLt, r, tt.Inti(0)), tt.IntBin(OAdd, r, p), r))
	}
	h := tt.Int(pow2(w - 1))
	nh := tt.Int(new(big.Int).Neg(pow2(w - 1)))
	return tt.Ite(tt.IntCmp(OLe, h, r), tt.IntBin(OSub, r, p),
		tt.Ite(tt.IntCmp(OLt, r, nh), tt.IntBin(OAdd, r, p), r))
}

func (e *Engine) wrapMod(r *Term, w int, signed bool) *Term {
	tt := e.tt
	if r.IsConst() {
		v := normU(w, r.c)
		if signed {
			v = toSigned(w, v)
		}
		return tt.Int(v)
	}
	p := tt.Int(pow2(w))
	if !signed {
		return tt.IntBin(OMod, r, p)
	}
	h := tt.Int(pow2(w - 1))
	return tt.IntBin(OSub, tt.IntBin(OMod, tt.IntBin(OAdd, r, h), p), h)
}

// rangeCond returns the constraint that Int term v lies in the range of (w,signed).
func (e *Engine) rangeCond(v *Term, w int, signed bool) *Term {
	tt := e.tt
	if signed {
		return tt.And(tt.IntCmp(OLe, tt.Int(new(big.Int).Neg(pow2(w-1))), v), tt.IntCmp(OLt, v, tt.Int(pow2(w-1))))
	}
	return tt.And(tt.IntCmp(OLe, tt.Inti(0), v), tt.IntCmp(OLt, v, tt.Int(pow2(w))))
}

// truncQuo returns Go's truncated quotient and remainder on Int terms (b != 0).
func (e *Engine) truncQuoRem(a, b *Term) (q, r *Term) {
	tt := e.tt
	if a.IsConst() && b.IsConst() && b.c.Sign() != 0 {
		qq, rr := new(big.Int).QuoRem(a.c, b.c, new(big.Int))
		return tt.Int(qq), tt.Int(rr)
	}
	// SMT div/mod are Euclidean: a = b*q + r, 0 <= r < |b|.
	ed := tt.IntBin(ODiv, a, b)
	em := tt.IntBin(OMod, a, b)
	zero := tt.Inti(0)
	aNeg := tt.IntCmp(OLt, a, zero)
	exact := tt.Eq(em, zero)
	bPos := tt.IntCmp(OLt, zero, b)
	// if a >= 0 or remainder zero: trunc == euclid. else: q = ed + (b>0 ? 1 : -1), r = em - |b|
	adj := tt.Ite(bPos, tt.Inti(1), tt.Inti(-1))
	q = tt.Ite(tt.Or(tt.Not(aNeg), exact), ed, tt.IntBin(OAdd, ed, adj))
	r = tt.Ite(tt.Or(tt.Not(aNeg), exact), em, tt.IntBin(OSub, em, tt.IntAbs(b)))
	return
}

// ---------- binop ----------

func (e *Engine) binop(op token.Token, t types.Type, x, y Value, ty types.Type) Value {
	tt := e.tt
	switch op {
	case token.EQL:
		return e.equals(t, x, y)
	case token.NEQ:
		return tt.Not(e.equals(t, x, y))
	}
	if isString(t) {
		xs, ys := x.(strV), y.(strV)
		switch op {
		case token.ADD:
			if xs.opaque != "" || ys.opaque != "" {
				return strV{opaque: "concat(" + xs.opaque + "," + ys.opaque + ")"}
			}
			b := make([]*Term, 0, len(xs.b)+len(ys.b))
			b = append(b, xs.b...)
			b = append(b, ys.b...)
			return strV{b: b}
		case token.LSS, token.LEQ, token.GTR, token.GEQ:
			return e.strCmp(op, xs, ys)
		}
		panic(unsupported{"string op " + op.String()})
	}
	if isFloat(t) {
		return e.floatBinop(op, x, y)
	}
	if isBool(t) {
		xb, yb := x.(*Term), y.(*Term)
		switch op {
		case token.AND, token.LAND:
			return tt.And(xb, yb)
		case token.OR, token.LOR:
			return tt.Or(xb, yb)
		}
		panic(unsupported{"bool op " + op.String()})
	}
	w, signed, ok := e.intInfo(t)
	if !ok {
		panic(unsupported{fmt.Sprintf("binop %s on %v", op, t)})
	}
	a, b := x.(*Term), y.(*Term)
	if op == token.SHL || op == token.SHR {
		return e.shift(op, w, signed, a, b, ty)
	}
	if e.IntMode {
		return e.intBinop(op, w, signed, a, b)
	}
	switch op {
	case token.ADD:
		return tt.BvBin(OBvAdd, a, b)
	case token.SUB:
		return tt.BvBin(OBvSub, a, b)
	case token.MUL:
		return tt.BvBin(OBvMul, a, b)
	case token.QUO:
		if signed {
			return tt.BvBin(OBvSDiv, a, b)
		}
		return tt.BvBin(OBvUDiv, a, b)
	case token.REM:
		if signed {
			return tt.BvBin(OBvSRem, a, b)
		}
		return tt.BvBin(OBvURem, a, b)
	case token.AND:
		return tt.BvBin(OBvAnd, a, b)
	case token.OR:
		return tt.BvBin(OBvOr, a, b)
	case token.XOR:
		return tt.BvBin(OBvXor, a, b)
	case token.AND_NOT:
		return tt.BvBin(OBvAnd, a, tt.BvNot(b))
	case token.LSS:
		if signed {
			return tt.BvCmp(OBvSlt, a, b)
		}
		return tt.BvCmp(OBvUlt, a, b)
	case token.LEQ:
		if signed {
			return tt.BvCmp(OBvSle, a, b)
		}
		return tt.BvCmp(OBvUle, a, b)
	case token.GTR:
		if signed {
			return tt.BvCmp(OBvSlt, b, a)
		}
		return tt.BvCmp(OBvUlt, b, a)
	case token.GEQ:
		if signed {
			return tt.BvCmp(OBvSle, b, a)
		}
		return tt.BvCmp(OBvUle, b, a)
	}
	panic(unsupported{"int binop " + op.String()})
}

func (e *Engine) intBinop(op token.Token, w int, signed bool, a, b *Term) Value {
	tt := e.tt
	switch op {
	case token.ADD:
		return e.wrapAddSub(tt.IntBin(OAdd, a, b), w, signed)
	case token.SUB:
		return e.wrapAddSub(tt.IntBin(OSub, a, b), w, signed)
	case token.MUL:
		return e.wrapMod(tt.IntBin(OMul, a, b), w, signed)
	case token.QUO:
		q, _ := e.truncQuoRem(a, b)
		if signed {
			return e.wrapAddSub(q, w, signed) // MinInt / -1
		}
		return q
	case token.REM:
		_, r := e.truncQuoRem(a, b)
		return r
	case token.LSS:
		return tt.IntCmp(OLt, a, b)
	case token.LEQ:
		return tt.IntCmp(OLe, a, b)
	case token.GTR:
		return tt.IntCmp(OLt, b, a)
	case token.GEQ:
		return tt.IntCmp(OLe, b, a)
	case token.AND, token.OR, token.XOR, token.AND_NOT:
		if a.IsConst() && b.IsConst() {
			x, y := normU(w, a.c), normU(w, b.c)
			r := new(big.Int)
			switch op {
			case token.AND:
				r.And(x, y)
			case token.OR:
				r.Or(x, y)
			case token.XOR:
				r.Xor(x, y)
			case token.AND_NOT:
				r.AndNot(x, y)
			}
			if signed {
				r = toSigned(w, normU(w, r))
			}
			return tt.Int(r)
		}
		if op == token.AND {
			// x & (2^k-1)
			for _, pr := range [][2]*Term{{a, b}, {b, a}} {
				if pr[1].IsConst() && pr[1].c.Sign() >= 0 {
					m := new(big.Int).Add(pr[1].c, big.NewInt(1))
					if m.BitLen() > 0 && new(big.Int).And(m, pr[1].c).Sign() == 0 {
						return tt.IntBin(OMod, pr[0], tt.Int(m))
					}
				}
			}
		}
		panic(unsupported{"bitwise " + op.String() + " on symbolic operands in int mode"})
	}
	panic(unsupported{"int-mode binop " + op.String()})
}

func (e *Engine) shift(op token.Token, w int, signed bool, a, b *Term, ty types.Type) Value {
	tt := e.tt
	if e.IntMode {
		if !b.IsConst() {
			panic(unsupported{"shift by symbolic amount in int mode"})
		}
		if b.c.Sign() < 0 {
			panic(targetPanic{v: e.mkStr("negative shift amount")})
		}
		k := b.c.Uint64()
		if op == token.SHL {
			if k >= uint64(w) {
				return tt.Inti(0)
			}
			return e.wrapMod(tt.IntBin(OMul, a, tt.Int(pow2(int(k)))), w, signed)
		}
		if k >= uint64(w) {
			if signed {
				return tt.Ite(tt.IntCmp(OLt, a, tt.Inti(0)), tt.Inti(-1), tt.Inti(0))
			}
			return tt.Inti(0)
		}
		return tt.IntBin(ODiv, a, tt.Int(pow2(int(k)))) // floor division: arithmetic shift
	}
	bw := b.sort.W
	var big_ *Term = tt.Bool(false)
	var amt *Term
	switch {
	case bw == w:
		amt = b
	case bw < w:
		amt = tt.ZExt(w-bw, b)
	default:
		big_ = tt.BvCmp(OBvUle, tt.BVu(bw, uint64(w)), b)
		amt = tt.Extract(w-1, 0, b)
	}
	switch {
	case op == token.SHL:
		return tt.Ite(big_, tt.BVu(w, 0), tt.BvBin(OBvShl, a, amt))
	case signed:
		return tt.Ite(big_, tt.BvBin(OBvAshr, a, tt.BVu(w, uint64(w-1))), tt.BvBin(OBvAshr, a, amt))
	}
	return tt.Ite(big_, tt.BVu(w, 0), tt.BvBin(OBvLshr, a, amt))
}

func (e *Engine) strCmp(op token.Token, x, y strV) *Term {
	tt := e.tt
	if x.opaque != "" || y.opaque != "" {
		panic(unsupported{"ordering of opaque strings"})
	}
	// lexicographic less-than
	n := len(x.b)
	if len(y.b) < n {
		n = len(y.b)
	}
	lt := tt.Bool(len(x.b) < len(y.b)) // if common prefix equal
	eq := tt.Bool(len(x.b) == len(y.b))
	for i := n - 1; i >= 0; i-- {
		var l *Term
		if e.IntMode {
			l = tt.IntCmp(OLt, x.b[i], y.b[i])
		} else {
			l = tt.BvCmp(OBvUlt, x.b[i], y.b[i])
		}
		same := tt.Eq(x.b[i], y.b[i])
		lt = tt.Or(l, tt.And(same, lt))
		eq = tt.And(same, eq)
	}
	switch op {
	case token.LSS:
		return lt
	case token.LEQ:
		return tt.Or(lt, eq)
	case token.GTR:
		return tt.Not(tt.Or(lt, eq))
	case token.GEQ:
		return tt.Not(lt)
	}
	panic("strCmp")
}

// ---------- floats ----------

func (e *Engine) fpTerm(f float64) *Term { return e.tt.FPConst(math.Float64bits(f)) }

func (e *Engine) toFP(v Value) *Term {
	switch v := v.(type) {
	case float64:
		return e.fpTerm(v)
	case *Term:
		return v
	}
	panic(fmt.Sprintf("toFP %T", v))
}

func (e *Engine) fpCmp(op Op, a, b *Term) *Term {
	return e.tt.Raw(op, BoolSort, 0, a, b)
}

// fpVal turns a constant FP term (e.g. an uninterpreted function's value read
// from a replayed model) into a concrete float64.
func fpVal(v Value) Value {
	if t, ok := v.(*Term); ok && t.op == OFpConst {
		return math.Float64frombits(t.c.Uint64())
	}
	return v
}

func (e *Engine) floatBinop(op token.Token, x, y Value) Value {
	x, y = fpVal(x), fpVal(y)
	xf, xc := x.(float64)
	yf, yc := y.(float64)
	if xc && yc {
		switch op {
		case token.ADD:
			return xf + yf
		case token.SUB:
			return xf - yf
		case token.MUL:
			return xf * yf
		case token.QUO:
			return xf / yf
		case token.LSS:
			return e.tt.Bool(xf < yf)
		case token.LEQ:
			return e.tt.Bool(xf <= yf)
		case token.GTR:
			return e.tt.Bool(xf > yf)
		case token.GEQ:
			return e.tt.Bool(xf >= yf)
		}
		panic(unsupported{"float op " + op.String()})
	}
	a, b := e.toFP(x), e.toFP(y)
	tt := e.tt
	switch op {
	case token.ADD:
		return tt.Raw(OFpAdd, FPSort, 0, a, b)
	case token.SUB:
		return tt.Raw(OFpSub, FPSort, 0, a, b)
	case token.MUL:
		return tt.Raw(OFpMul, FPSort, 0, a, b)
	case token.QUO:
		return tt.Raw(OFpDiv, FPSort, 0, a, b)
	case token.LSS:
		return e.fpCmp(OFpLt, a, b)
	case token.LEQ:
		return e.fpCmp(OFpLe, a, b)
	case token.GTR:
		return e.fpCmp(OFpLt, b, a)
	case token.GEQ:
		return e.fpCmp(OFpLe, b, a)
	}
	panic(unsupported{"float op " + op.String()})
}

// ---------- unop ----------

func (e *Engine) unop(op token.Token, t types.Type, x Value) Value {
	tt := e.tt
	switch op {
	case token.NOT:
		return tt.Not(x.(*Term))
	case token.SUB:
		if isFloat(t) {
			x = fpVal(x)
			if f, ok := x.(float64); ok {
				return -f
			}
			return tt.Raw(OFpNeg, FPSort, 0, x.(*Term))
		}
		w, signed, _ := e.intInfo(t)
		if e.IntMode {
			return e.wrapAddSub(tt.IntNeg(x.(*Term)), w, signed)
		}
		return tt.BvNeg(x.(*Term))
	case token.XOR:
		w, signed, _ := e.intInfo(t)
		a := x.(*Term)
		if e.IntMode {
			if signed {
				return tt.IntBin(OSub, tt.IntNeg(a), tt.Inti(1))
			}
			return tt.IntBin(OSub, tt.Int(mask(w)), a)
		}
		return tt.BvNot(a)
	}
	panic(unsupported{"unop " + op.String()})
}

// ---------- conversions ----------

func (e *Engine) convInt(x *Term, sw int, ss bool, dw int, ds bool) *Term {
	tt := e.tt
	if e.IntMode {
		// value-range reasoning: does the source range fit the destination?
		fits := false
		switch {
		case ss == ds && dw >= sw:
			fits = true
		case !ss && ds && dw > sw:
			fits = true
		}
		if fits {
			return x
		}
		if x.IsConst() {
			return e.wrapMod(x, dw, ds)
		}
		if dw >= sw {
			// same width sign change, or signed -> wider unsigned
			return e.wrapAddSub(x, dw, ds)
		}
		return e.wrapMod(x, dw, ds)
	}
	return tt.Resize(x, dw, ss)
}

func (e *Engine) conv(dst, src types.Type, x Value) Value {
	ud, us := dst.Underlying(), src.Underlying()
	tt := e.tt
	// pointer / unsafe conversions
	switch ud.(type) {
	case *types.Pointer:
		if _, ok := us.(*types.Pointer); ok {
			return x
		}
		panic(unsupported{"conversion to pointer from " + src.String()})
	case *types.Slice:
		// string -> []byte / []rune
		if isString(us) {
			s := x.(strV)
			if s.opaque != "" {
				panic(unsupported{"bytes of opaque string"})
			}
			eb, _ := ud.(*types.Slice).Elem().Underlying().(*types.Basic)
			if eb == nil || eb.Kind() != types.Uint8 {
				panic(unsupported{"string to []rune"})
			}
			out := make([]Value, len(s.b))
			for i, b := range s.b {
				out[i] = b
			}
			return out
		}
		return x
	}
	if db, ok := ud.(*types.Basic); ok {
		if db.Kind() == types.UnsafePointer {
			panic(unsupported{"unsafe.Pointer conversion"})
		}
		if db.Info()&types.IsString != 0 {
			switch xs := x.(type) {
			case strV:
				return xs
			case []Value:
				b := make([]*Term, len(xs))
				for i, v := range xs {
					b[i] = v.(*Term)
				}
				return strV{b: b}
			case *Term:
				if xs.IsConst() {
					return e.mkStr(string(rune(xs.c.Int64())))
				}
				panic(unsupported{"string(symbolic rune)"})
			}
			panic(unsupported{fmt.Sprintf("conversion to string from %T", x)})
		}
		if db.Info()&types.IsInteger != 0 {
			dw, ds, _ := e.intInfo(db)
			if sw, ss, ok := e.intInfo(us); ok {
				return e.convInt(x.(*Term), sw, ss, dw, ds)
			}
			if isFloat(us) {
				switch f := fpVal(x).(type) {
				case float64:
					if ds {
						return e.mkInt(db, int64(f))
					}
					if f >= 9223372036854775808.0 {
						return e.intConst(db, new(big.Int).SetUint64(uint64(f)))
					}
					return e.intConst(db, new(big.Int).SetUint64(uint64(f)))
				case *Term:
					if e.IntMode {
						panic(unsupported{"float to int in int mode"})
					}
					if ds {
						return tt.Raw(OFpToSBV, BVSort(dw), dw, f)
					}
					return tt.Raw(OFpToUBV, BVSort(dw), dw, f)
				}
			}
			if ub, ok := us.(*types.Basic); ok && ub.Kind() == types.UnsafePointer {
				panic(unsupported{"uintptr(unsafe.Pointer)"})
			}
		}
		if db.Info()&types.IsFloat != 0 {
			if isFloat(us) {
				if db.Kind() == types.Float32 {
					if f, ok := x.(float64); ok {
						return float64(float32(f))
					}
					panic(unsupported{"float32 symbolic"})
				}
				return x
			}
			if _, ss, ok := e.intInfo(us); ok {
				t := x.(*Term)
				if t.IsConst() {
					var f float64
					if e.IntMode {
						f, _ = new(big.Float).SetInt(t.c).Float64()
					} else if ss {
						f, _ = new(big.Float).SetInt(toSigned(t.sort.W, t.c)).Float64()
					} else {
						f, _ = new(big.Float).SetInt(t.c).Float64()
					}
					return f
				}
				if constLeaves(t, 6) > 0 {
					// an ite-tree of constants converts leaf by leaf (exact, cheap)
					return tt.MapConstIte(t, func(k *Term) *Term {
						var f float64
						if e.IntMode || !ss {
							f, _ = new(big.Float).SetInt(k.c).Float64()
						} else {
							f, _ = new(big.Float).SetInt(toSigned(k.sort.W, k.c)).Float64()
						}
						return e.fpTerm(f)
					})
				}
				if e.IntMode {
					return tt.Raw(OFpOfInt, FPSort, 0, t)
				}
				if ss {
					return tt.Raw(OFpOfSBV, FPSort, 0, t)
				}
				return tt.Raw(OFpOfUBV, FPSort, 0, t)
			}
		}
		if db.Info()&types.IsBoolean != 0 {
			return x
		}
	}
	panic(unsupported{fmt.Sprintf("conversion %v -> %v", src, dst)})
}
