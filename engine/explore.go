package gosym

// Path exploration: depth-first over symbolic decisions by re-execution with a
// decision log.  The solver's assertion stack mirrors the log (one push per
// real decision), so backtracking is pop + replay of the log prefix without
// any solver traffic.

import (
	"fmt"
	"go/types"
	"math/big"
	"os"
	"sort"
	"strings"
	"time"

	"golang.org/x/tools/go/ssa"
)

type Directive struct {
	Kind   string // replace | noop | opaque | real
	Target *ssa.Function
}

type logEntry struct {
	choice  int        // index chosen
	rest    []int      // alternatives still to explore
	vals    []*big.Int // concretisation: the feasible values
	level   int        // solver level before this decision's push
	pushed  bool
	free    bool // unconditional fork (no condition to assert)
	pending bool // flipped entry whose condition must be (re)asserted on replay
}

type Violation struct {
	Harness  string            `json:"harness"`
	Label    string            `json:"label"`
	Kind     string            `json:"kind"` // assert | panic
	KF       string            `json:"known_finding,omitempty"`
	Message  string            `json:"message"`
	Where    string            `json:"where"`
	Stack    []string          `json:"stack,omitempty"`
	Model    map[string]string `json:"model"`
	Order    []string          `json:"order"`
	Replayed string            `json:"replayed,omitempty"`
}

type pcEntry struct {
	level int
	t     *Term
}

type Engine struct {
	prog    *ssa.Program
	tt      *TermTable
	solver  *Solver
	IntMode bool
	BigW    int
	sizes   types.Sizes

	globals map[*ssa.Global]*Value
	pkgInit map[*ssa.Package]int
	metas   map[*ssa.Function]*fnMeta
	consts  map[*ssa.Const]Value
	side    map[*Value]Value

	Directives  map[string]Directive
	runtimeErrT types.Type

	trail     []trailEntry
	trailOn   bool
	lenient   int
	depth     int
	steps     int64
	StepLimit int64
	chanSeq   int

	spec         int
	NoMerge      bool
	curFrame     *frame
	models       []*cachedModel
	NoModelCache bool
	ModelHits    int
	Fallbacks    int
	dumpSeq      int
	chooseTrace  []string
	Completed    int

	// exploration
	log        []logEntry
	pos        int
	pc         []pcEntry
	counters   map[string]int
	inputs     []*Term
	inputNames []string
	ufApps     []*Term
	injApps    map[string][]injApp

	// concrete replay
	Concrete bool
	ModelIn  map[string]*big.Int

	// configuration
	Tier                  string
	FeasTO                int
	OblTO                 int
	PermuteMaps           bool
	PermuteMax            int
	ConcCap               int
	MaxPaths              int
	MaxViolationsPerLabel int
	Verbose               bool
	Harness               string
	KnownOpen             map[string]bool
	Deadline              time.Time

	// results
	FnEntered      map[string]int
	Paths          int
	DeadPaths      int
	Obligations    int
	Discharged     int
	Trivial        int
	Inconclusive   []string
	Violations     []*Violation
	KnownHits      map[string]*Violation
	ReachHit       map[string]int
	Bounds         map[string]int64
	Assumptions    []string
	Observed       []string
	Samples        []string
	WitnessInputs  map[string]string
	Witnesses      []WitnessTrace
	WitnessMax     int
	pathReach      []string
	InitDiag       []string
	MaxAlloc       int64
	allocLog       []int64
	Forks          int
	Merges         int
	ImplicitChecks int
	labelCount     map[string]int
	CrossChecked   int
	CrossDisagree  []string
	CrossDismissed int // cross-solver "sat" answers whose model failed validation and which cvc5 refuted
	CrossUnknown   int // cross-solver gave no verdict within its limit
	CrossAbandoned int // obligations not re-asked because the cross solver had given up on their label
	crossGiveUp    map[string]int
	crossCount     map[string]int
	CrossSolvers   []string
	curMaxInput    int
	freeSeq        int // concrete replay: index of the next unconditional fork
}

// WitnessTrace is one completed path made concrete.
type WitnessTrace struct {
	Model map[string]string `json:"model"`
	Order []string          `json:"order"`
	Reach []string          `json:"reach"`
}

type injApp struct {
	args []*Term
	res  *Term
}

func NewEngine(prog *ssa.Program, intMode bool, bigW int) (*Engine, error) {
	tt := NewTermTable()
	e := &Engine{prog: prog, tt: tt, IntMode: intMode, BigW: bigW,
		sizes:   types.SizesFor("gc", "amd64"),
		globals: map[*ssa.Global]*Value{}, pkgInit: map[*ssa.Package]int{},
		metas: map[*ssa.Function]*fnMeta{}, consts: map[*ssa.Const]Value{},
		side: map[*Value]Value{}, Directives: map[string]Directive{},
		StepLimit: 20_000_000, FeasTO: 10000, OblTO: 20000, PermuteMax: 3, ConcCap: 64,
		MaxPaths: 2_000_000, MaxViolationsPerLabel: 1,
		FnEntered: map[string]int{}, ReachHit: map[string]int{}, Bounds: map[string]int64{},
		KnownHits: map[string]*Violation{}, KnownOpen: map[string]bool{}, labelCount: map[string]int{},
		WitnessInputs: map[string]string{}, WitnessMax: 6,
	}
	var logw *os.File
	if p := os.Getenv("GOSYM_SMTLOG"); p != "" {
		logw, _ = os.Create(p)
	}
	var err error
	if logw != nil {
		e.solver, err = NewSolver(tt, os.Getenv("GOSYM_SOLVER"), logw)
	} else {
		e.solver, err = NewSolver(tt, os.Getenv("GOSYM_SOLVER"), nil)
	}
	if err != nil {
		return nil, err
	}
	if rt := prog.ImportedPackage("runtime"); rt != nil {
		if ty := rt.Type("errorString"); ty != nil {
			e.runtimeErrT = ty.Object().Type()
		}
	}
	if e.runtimeErrT == nil {
		e.runtimeErrT = types.Typ[types.String]
	}
	return e, nil
}

func (e *Engine) Close() { e.solver.Close() }

func (e *Engine) live() bool { return e.pos >= len(e.log) }

func (e *Engine) pcAssert(t *Term) {
	if t.IsTrue() {
		return
	}
	e.solver.Assert(t)
	e.pc = append(e.pc, pcEntry{level: e.solver.Level(), t: t})
}

func (e *Engine) popTo(level int) {
	if e.solver.Level() > level {
		e.solver.Pop(e.solver.Level() - level)
	}
	n := len(e.pc)
	for n > 0 && e.pc[n-1].level > level {
		n--
	}
	e.pc = e.pc[:n]
	e.truncateModels()
}

func (e *Engine) pcTerms() []*Term {
	out := make([]*Term, len(e.pc))
	for i, p := range e.pc {
		out[i] = p.t
	}
	return out
}

// feasible asks whether pc ∧ c is satisfiable (unknown counts as feasible).
func (e *Engine) feasible(c *Term) bool {
	if c.IsTrue() {
		return true
	}
	if c.IsFalse() {
		return false
	}
	if !e.NoModelCache && e.modelSays(c) {
		return true
	}
	e.solver.Push()
	e.solver.Assert(c)
	r := e.solver.Check(e.FeasTO)
	if r == "sat" {
		e.captureModel()
	}
	e.solver.Pop(1)
	if r == "error" {
		panic(engineError{"solver error on feasibility query: " + strings.Join(e.solver.Errors, "; ")})
	}
	return r != "unsat"
}

// branch forks on a Bool term; returns the side taken on this path.
func (e *Engine) branch(c *Term) bool {
	if c.IsTrue() {
		return true
	}
	if c.IsFalse() {
		return false
	}
	if e.Concrete {
		panic(engineError{"symbolic branch during concrete replay: " + c.Pretty(4)})
	}
	return e.chooseAmong([]*Term{c, e.tt.Not(c)}, "branch") == 0
}

// chooseAmong picks one of the mutually exclusive, jointly exhaustive conditions.
func (e *Engine) chooseAmong(conds []*Term, what string) int {
	if e.spec > 0 {
		panic(specAbort{})
	}
	if e.Concrete {
		for i, c := range conds {
			if c.IsTrue() {
				return i
			}
		}
		panic(engineError{"symbolic choice during concrete replay (" + what + ")"})
	}
	if !e.live() {
		ent := &e.log[e.pos]
		e.pos++
		if ent.pending {
			ent.pending = false
			ent.level = e.solver.Level()
			e.solver.Push()
			ent.pushed = true
			e.pcAssert(conds[ent.choice])
		}
		return ent.choice
	}
	var feas []int
	for i, c := range conds {
		if c.IsFalse() {
			continue
		}
		if i == len(conds)-1 && len(feas) == 0 {
			feas = append(feas, i) // exhaustive: the last one must be feasible
			break
		}
		if e.feasible(c) {
			feas = append(feas, i)
		}
	}
	if len(feas) == 0 {
		panic(pathAbort{"no feasible alternative (" + what + ")"})
	}
	ent := logEntry{choice: feas[0], rest: feas[1:], level: e.solver.Level()}
	if len(feas) > 1 {
		e.Forks++
		e.solver.Push()
		ent.pushed = true
	}
	e.log = append(e.log, ent)
	e.pos++
	e.pcAssert(conds[feas[0]])
	return feas[0]
}

// chooseFresh forks over conditions on a fresh variable (all feasible, no queries).
func (e *Engine) chooseFresh(conds []*Term) int {
	if e.spec > 0 {
		panic(specAbort{})
	}
	if !e.live() {
		ent := &e.log[e.pos]
		e.pos++
		if ent.pending {
			ent.pending = false
			ent.level = e.solver.Level()
			e.solver.Push()
			ent.pushed = true
			e.pcAssert(conds[ent.choice])
		}
		return ent.choice
	}
	ent := logEntry{choice: 0, level: e.solver.Level()}
	for i := 1; i < len(conds); i++ {
		ent.rest = append(ent.rest, i)
	}
	if len(conds) > 1 {
		e.Forks++
		e.solver.Push()
		ent.pushed = true
	}
	e.log = append(e.log, ent)
	e.pos++
	e.pcAssert(conds[0])
	return 0
}

// logged runs f once per path position and records its (deterministic-on-replay) answer.
func (e *Engine) logged(f func() int) int {
	if e.spec > 0 {
		panic(specAbort{})
	}
	if e.Concrete {
		return 0
	}
	if !e.live() {
		ent := &e.log[e.pos]
		e.pos++
		return ent.choice
	}
	v := f()
	e.log = append(e.log, logEntry{choice: v, level: e.solver.Level()})
	e.pos++
	return v
}

// chooseFree forks n ways unconditionally.
func (e *Engine) chooseFree(n int, what string) int {
	if e.spec > 0 {
		panic(specAbort{})
	}
	if n <= 1 {
		return 0
	}
	if e.Concrete {
		// replay the unconditional forks (e.g. map iteration orders) recorded with the counterexample
		k := 0
		if v, ok := e.ModelIn[fmt.Sprintf("@free#%d", e.freeSeq)]; ok {
			k = int(v.Int64())
		}
		e.freeSeq++
		if k >= n {
			k = 0
		}
		return k
	}
	if !e.live() {
		ent := &e.log[e.pos]
		e.pos++
		if ent.pending {
			ent.pending = false
			ent.level = e.solver.Level()
			e.solver.Push()
			ent.pushed = true
		}
		return ent.choice
	}
	ent := logEntry{choice: 0, level: e.solver.Level(), free: true}
	for i := 1; i < n; i++ {
		ent.rest = append(ent.rest, i)
	}
	e.Forks++
	e.solver.Push()
	ent.pushed = true
	e.log = append(e.log, ent)
	e.pos++
	return 0
}

// addFreeChoices records the unconditional forks taken on the current path in a
// counterexample, so that the concrete replay takes the same ones.
func (e *Engine) addFreeChoices(m map[string]string) {
	if m == nil {
		return
	}
	k := 0
	for i := 0; i < e.pos && i < len(e.log); i++ {
		if e.log[i].free {
			m[fmt.Sprintf("@free#%d", k)] = fmt.Sprintf("0x%x", e.log[i].choice)
			k++
		}
	}
}

// concretize forks over every feasible value of t (up to ConcCap).
func (e *Engine) concretize(t *Term, what string) *big.Int {
	if t.IsConst() {
		return t.c
	}
	if e.spec > 0 {
		panic(specAbort{})
	}
	if e.Concrete {
		panic(engineError{"symbolic value needs concretisation during concrete replay (" + what + ")"})
	}
	mk := func(v *big.Int) *Term {
		if t.sort.K == SInt {
			return e.tt.Int(v)
		}
		return e.tt.BV(t.sort.W, v)
	}
	if !e.live() {
		ent := &e.log[e.pos]
		e.pos++
		v := ent.vals[ent.choice]
		if ent.pending {
			ent.pending = false
			ent.level = e.solver.Level()
			e.solver.Push()
			ent.pushed = true
			e.pcAssert(e.tt.Eq(t, mk(v)))
		}
		return v
	}
	var vals []*big.Int
	e.solver.Push()
	for len(vals) <= e.ConcCap {
		r := e.solver.Check(e.FeasTO)
		if r == "unsat" {
			break
		}
		if r != "sat" {
			e.solver.Pop(1)
			panic(engineError{fmt.Sprintf("solver answered %s while enumerating values of %s", r, what)})
		}
		m, err := e.solver.Values([]*Term{t})
		if err != nil {
			e.solver.Pop(1)
			panic(engineError{"model extraction: " + err.Error()})
		}
		v := m[t.id]
		vals = append(vals, v)
		e.solver.Assert(e.tt.Not(e.tt.Eq(t, mk(v))))
	}
	e.solver.Pop(1)
	if len(vals) > e.ConcCap {
		panic(engineError{fmt.Sprintf("unwinding failure: more than %d feasible values for %s", e.ConcCap, what)})
	}
	if len(vals) == 0 {
		panic(pathAbort{"no feasible value (" + what + ")"})
	}
	sort.Slice(vals, func(i, j int) bool { return vals[i].Cmp(vals[j]) < 0 })
	ent := logEntry{choice: 0, vals: vals, level: e.solver.Level()}
	for i := 1; i < len(vals); i++ {
		ent.rest = append(ent.rest, i)
	}
	if len(vals) > 1 {
		e.Forks++
		e.solver.Push()
		ent.pushed = true
	}
	e.log = append(e.log, ent)
	e.pos++
	e.pcAssert(e.tt.Eq(t, mk(vals[0])))
	return vals[0]
}

// assume adds c to the path condition; the path ends if that is infeasible.
func (e *Engine) assume(c *Term) {
	if c.IsTrue() {
		return
	}
	if c.IsFalse() {
		panic(pathAbort{"assumption false"})
	}
	if e.Concrete {
		panic(engineError{"symbolic assumption during concrete replay"})
	}
	if !e.live() {
		return
	}
	if !e.feasible(c) {
		panic(pathAbort{"assumption infeasible"})
	}
	e.pcAssert(c)
}

// fresh input variables -------------------------------------------------

func (e *Engine) freshName(name string) string {
	e.counters[name]++
	if n := e.counters[name]; n > 1 {
		return fmt.Sprintf("%s#%d", name, n)
	}
	return name
}

// input creates (or, in concrete replay, looks up) a named input of Go int type.
func (e *Engine) inputInt(name string, t types.Type) *Term {
	full := e.freshName(name)
	w, signed, _ := e.intInfo(t)
	if e.Concrete {
		v, ok := e.ModelIn[full]
		if !ok {
			v = big.NewInt(0)
		}
		return e.intConst(t, v)
	}
	var v *Term
	if e.IntMode {
		v = e.tt.Var(full, IntSort)
		e.pcAssertSilent(e.rangeCond(v, w, signed))
	} else {
		v = e.tt.Var(full, BVSort(w))
	}
	e.inputs = append(e.inputs, v)
	e.inputNames = append(e.inputNames, full)
	return v
}

func (e *Engine) inputBool(name string) *Term {
	full := e.freshName(name)
	if e.Concrete {
		v, ok := e.ModelIn[full]
		return e.tt.Bool(ok && v.Sign() != 0)
	}
	v := e.tt.Var(full, BoolSort)
	e.inputs = append(e.inputs, v)
	e.inputNames = append(e.inputNames, full)
	return v
}

// pcAssertSilent adds a side constraint (range of a fresh variable) that cannot
// make the path infeasible.
func (e *Engine) pcAssertSilent(c *Term) {
	if !e.live() {
		return
	}
	e.pcAssert(c)
}

// obligations -----------------------------------------------------------

func (e *Engine) modelNow() (map[string]string, []string) {
	vals, err := e.solver.Values(append(append([]*Term{}, e.inputs...), e.ufApps...))
	m := map[string]string{}
	var order []string
	if err != nil {
		m["_error"] = err.Error()
		return m, order
	}
	for i, in := range e.inputs {
		if v, ok := vals[in.id]; ok {
			m[e.inputNames[i]] = "0x" + v.Text(16)
			order = append(order, e.inputNames[i])
		}
	}
	for _, a := range e.ufApps {
		v, ok := vals[a.id]
		if !ok {
			continue
		}
		// key: name(arg values)
		var as []string
		avs, err := e.solver.Values(a.args)
		if err != nil {
			continue
		}
		for _, x := range a.args {
			as = append(as, "0x"+avs[x.id].Text(16))
		}
		k := "uf:" + a.name + "(" + strings.Join(as, ",") + ")"
		m[k] = "0x" + v.Text(16)
		order = append(order, k)
	}
	return m, order
}

func (e *Engine) whereStack(fr *frame) (string, []string) {
	var st []string
	for f := fr; f != nil && len(st) < 10; f = f.caller {
		if f.fn != nil {
			st = append(st, e.where(f))
		}
	}
	w := ""
	if len(st) > 0 {
		w = st[0]
	}
	return w, st
}

// assertObl issues the obligation pc ⇒ c.  kf/kfCond describe an optional
// known-finding carve-out: violations inside kfCond are attributed to kf.
func (e *Engine) assertObl(fr *frame, c *Term, label string, kf string, kfCond *Term) {
	if e.Concrete {
		if c.IsFalse() {
			w, st := e.whereStack(fr.caller)
			e.Violations = append(e.Violations, &Violation{Harness: e.Harness, Label: label, Kind: "assert", Message: "assertion failed in concrete replay", Where: w, Stack: st, KF: kf})
			panic(pathAbort{"assertion failed (concrete)"})
		}
		if !c.IsTrue() {
			panic(engineError{"symbolic assertion during concrete replay"})
		}
		return
	}
	if !e.live() {
		return
	}
	e.Obligations++
	if c.IsTrue() {
		e.Discharged++
		e.Trivial++
		return
	}
	neg := e.tt.Not(c)
	record := func(extra *Term, kfid string) string {
		e.solver.Push()
		e.solver.Assert(neg)
		if extra != nil {
			e.solver.Assert(extra)
		}
		to := e.OblTO
		if e.IntMode && to > 4000 {
			to = 4000 // non-linear integer queries: give up quickly here, the standalone fallback has the full budget
		}
		r := e.solver.Check(to)
		var m map[string]string
		var order []string
		if r == "sat" {
			m, order = e.modelNow()
		} else if r == "unknown" {
			// the incremental process gave up: ask a fresh solver the same question standalone
			roots := append(e.pcTerms(), neg)
			if extra != nil {
				roots = append(roots, extra)
			}
			r2, vals := SolveStandalone("z3-new", e.tt, roots, e.inputs, time.Duration(e.OblTO)*time.Millisecond)
			e.Fallbacks++
			if r2 == "unsat" {
				r = "unsat"
			} else if r2 == "sat" {
				r = "sat"
				m = map[string]string{}
				for i, in := range e.inputs {
					v, ok := vals[in.id]
					if !ok {
						v = big.NewInt(0)
					}
					m[e.inputNames[i]] = "0x" + v.Text(16)
					order = append(order, e.inputNames[i])
				}
			}
		}
		if r == "sat" {
			e.addFreeChoices(m)
			w, st := e.whereStack(fr.caller)
			v := &Violation{Harness: e.Harness, Label: label, Kind: "assert", Message: "assertion can fail", Where: w, Stack: st, Model: m, Order: order, KF: kfid}
			if kfid != "" && e.KnownOpen[kfid] {
				if _, seen := e.KnownHits[kfid]; !seen {
					e.KnownHits[kfid] = v
				}
			} else if e.labelCount[label] < e.MaxViolationsPerLabel {
				e.labelCount[label]++
				e.Violations = append(e.Violations, v)
			}
		}
		e.solver.Pop(1)
		return r
	}
	if len(e.Samples) < 3 {
		roots := append(e.pcTerms(), neg)
		s := e.tt.Standalone(roots)
		if len(s) > 6000 {
			s = s[:6000] + "\n; … truncated"
		}
		e.Samples = append(e.Samples, fmt.Sprintf("; obligation %q in %s: path condition and negated assertion\n%s", label, e.Harness, s))
	}
	var res string
	tq := time.Now()
	defer func() {
		if d := time.Since(tq); d > 3*time.Second {
			fmt.Fprintf(os.Stderr, "[%s] slow obligation %q: %.1fs (%s) choices=%v\n", e.Harness, label, d.Seconds(), res, e.chooseTrace)
		}
	}()
	if kf != "" && kfCond != nil {
		r1 := record(e.tt.Not(kfCond), "")
		r2 := "unsat"
		if r1 == "unsat" {
			r2 = record(kfCond, kf)
		}
		switch {
		case r1 == "unsat" && r2 == "unsat":
			res = "unsat"
		case r1 == "sat" || r2 == "sat":
			res = "sat"
		default:
			res = "unknown"
		}
		if r1 == "unsat" && r2 == "sat" && e.KnownOpen[kf] {
			res = "known"
		}
	} else {
		res = record(nil, "")
	}
	switch res {
	case "unsat":
		e.Discharged++
		e.crossCheck(label, neg)
	case "sat", "known":
	default:
		e.Inconclusive = append(e.Inconclusive, fmt.Sprintf("obligation %q: solver answered %s", label, res))
		if d := os.Getenv("GOSYM_DUMP_UNKNOWN"); d != "" {
			e.dumpSeq++
			os.WriteFile(fmt.Sprintf("%s/unknown_%s_%d.smt2", d, e.Harness, e.dumpSeq), []byte(e.tt.Standalone(append(e.pcTerms(), neg))), 0644)
		}
	}
	// continue the path under the asserted condition (a discharged obligation is
	// already implied by the path condition and is not added again)
	if res != "unsat" {
		if !e.feasible(c) {
			panic(pathAbort{"assertion cannot hold on this path"})
		}
		e.pcAssert(c)
	}
}

// crossCheck re-asks a discharged obligation of the other solvers (thorough tier).
func (e *Engine) crossCheck(label string, neg *Term) {
	if len(e.CrossSolvers) == 0 {
		return
	}
	if e.crossGiveUp == nil {
		e.crossGiveUp = map[string]int{}
	}
	// the cross solver (z3 4.8.12) does not decide some obligation families at all (non-linear
	// Int): after three consecutive "unknown" for one label the label is no longer re-asked
	// (counted in CrossAbandoned, reported in the evidence)
	if e.crossGiveUp[label] >= 3 {
		e.CrossAbandoned++
		return
	}
	// a fresh process per re-ask costs ~30 ms: each label is re-asked at most CrossPerLabel times
	// per harness (the first ones met), the rest is counted as not re-asked
	if e.crossCount == nil {
		e.crossCount = map[string]int{}
	}
	e.crossCount[label]++
	if e.crossCount[label] > 400 {
		e.CrossAbandoned++
		return
	}
	script := e.tt.Standalone(append(e.pcTerms(), neg))
	to := time.Duration(e.OblTO) * time.Millisecond
	if to > 8*time.Second {
		to = 8 * time.Second
	}
	for _, s := range e.CrossSolvers {
		r := RunStandalone(s, script, to)
		e.CrossChecked++
		if r == "unsat" {
			e.crossGiveUp[label] = 0
		} else if r != "sat" {
			e.crossGiveUp[label]++
			e.CrossUnknown++
		}
		if r == "sat" {
			// A dissenting "sat" is dismissed only when the dissenter's own model fails its
			// validation AND a third solver (cvc5) independently answers unsat; anything
			// else leaves the obligation inconclusive.
			if s == "z3" && RunStandalone("z3-validate", script, time.Duration(e.OblTO)*time.Millisecond) == "invalid-model" &&
				RunStandalone("cvc5", script, time.Duration(e.OblTO)*time.Millisecond) == "unsat" {
				e.CrossDismissed++
				continue
			}
			e.CrossDisagree = append(e.CrossDisagree, fmt.Sprintf("%s says sat for %q (z3-new: unsat)", s, label))
			if d := os.Getenv("GOSYM_DUMP_UNKNOWN"); d != "" {
				e.dumpSeq++
				os.WriteFile(fmt.Sprintf("%s/disagree_%s_%d.smt2", d, e.Harness, e.dumpSeq), []byte(script), 0644)
			}
		}
	}
}

// uncaught panic at harness top level
func (e *Engine) panicViolation(tp targetPanic, stack []string) {
	msg := e.panicMessage(tp.v)
	label := "no uncaught panic"
	r := e.solver.Check(e.OblTO)
	m := map[string]string{}
	var order []string
	if r == "unknown" {
		// the incremental process gave up (non-linear arithmetic): ask a fresh solver the same question
		r2, vals := SolveStandalone("z3-new", e.tt, e.pcTerms(), e.inputs, time.Duration(e.OblTO)*time.Millisecond)
		e.Fallbacks++
		if r2 == "unsat" {
			return // infeasible after all
		}
		if r2 == "sat" {
			for i, in := range e.inputs {
				v, ok := vals[in.id]
				if !ok {
					v = big.NewInt(0)
				}
				m[e.inputNames[i]] = "0x" + v.Text(16)
				order = append(order, e.inputNames[i])
			}
			e.addFreeChoices(m)
			r = "sat-standalone"
		}
	}
	if r == "sat" {
		m, order = e.modelNow()
		e.addFreeChoices(m)
	} else if r == "sat-standalone" {
	} else if r != "unsat" {
		e.Inconclusive = append(e.Inconclusive, "panic path: solver answered "+r)
		return
	} else {
		return // infeasible after all
	}
	e.Obligations++
	w := ""
	if len(stack) > 0 {
		w = stack[0]
	}
	if e.labelCount[label+msg] < e.MaxViolationsPerLabel {
		e.labelCount[label+msg]++
		e.Violations = append(e.Violations, &Violation{Harness: e.Harness, Label: label, Kind: "panic", Message: "uncaught panic: " + msg, Where: w, Stack: stack, Model: m, Order: order})
	}
}

// ---------- driver ----------

func (e *Engine) beginPath() {
	e.pos = 0
	e.counters = map[string]int{}
	e.inputs = e.inputs[:0]
	e.inputNames = e.inputNames[:0]
	e.ufApps = e.ufApps[:0]
	e.injApps = map[string][]injApp{}
	e.steps = 0
	e.depth = 0
	e.trailOn = true
	e.allocLog = e.allocLog[:0]
	e.spec = 0
	e.chooseTrace = e.chooseTrace[:0]
}

// backtrack prepares the log for the next path; false when exploration is done.
func (e *Engine) backtrack() bool {
	for i := len(e.log) - 1; i >= 0; i-- {
		ent := &e.log[i]
		if len(ent.rest) > 0 {
			e.popTo(ent.level)
			ent.choice = ent.rest[0]
			ent.rest = ent.rest[1:]
			ent.pending = true
			ent.pushed = false
			e.log = e.log[:i+1]
			return true
		}
	}
	e.popTo(0)
	e.log = e.log[:0]
	return false
}

// Run explores every path of the harness function.
func (e *Engine) Run(fn *ssa.Function) {
	e.Harness = fn.Name()
	for {
		e.beginPath()
		e.runPath(fn)
		e.undoAll()
		e.Paths++
		if e.Verbose && e.Paths%500 == 0 {
			fmt.Fprintf(os.Stderr, "[%s] %d paths, %d obligations, %d queries, %.1fs solver\n", e.Harness, e.Paths, e.Obligations, e.solver.Queries, e.solver.Time.Seconds())
		}
		if len(e.solver.Errors) > 0 {
			e.Inconclusive = append(e.Inconclusive, "solver error: "+e.solver.Errors[0])
			return
		}
		if e.Paths >= e.MaxPaths {
			e.Inconclusive = append(e.Inconclusive, fmt.Sprintf("path budget of %d exhausted", e.MaxPaths))
			return
		}
		if !e.Deadline.IsZero() && time.Now().After(e.Deadline) {
			e.Inconclusive = append(e.Inconclusive, "time budget exhausted")
			return
		}
		if !e.backtrack() {
			return
		}
	}
}

func (e *Engine) runPath(fn *ssa.Function) {
	defer func() {
		r := recover()
		if r == nil {
			return
		}
		var stack []string
		if a, ok := r.(annotated); ok {
			r = a.inner
			stack = a.stack
		}
		switch r := r.(type) {
		case pathAbort:
			e.DeadPaths++
			if e.Verbose {
				fmt.Fprintf(os.Stderr, "[%s] path ended: %s\n", e.Harness, r.why)
			}
		case targetPanic:
			if len(r.at) > 0 {
				stack = r.at
			}
			if e.Concrete {
				e.Violations = append(e.Violations, &Violation{Harness: e.Harness, Label: "no uncaught panic", Kind: "panic", Message: "uncaught panic: " + e.panicMessage(r.v), Stack: stack})
				return
			}
			e.panicViolation(r, stack)
		case unsupported:
			e.Inconclusive = append(e.Inconclusive, r.Error()+" at "+strings.Join(stack, " <- "))
		case engineError:
			e.Inconclusive = append(e.Inconclusive, r.msg+" at "+strings.Join(stack, " <- "))
		default:
			panic(r)
		}
	}()
	e.pathReach = e.pathReach[:0]
	e.callSSA(nil, 0, fn, nil, nil)
	e.Completed++
	// witness traces for translator validation: concrete inputs of some completed paths (the
	// 1st, 2nd, 4th, 8th, ... completed one) with the Reach tags hit on them; the driver runs
	// them against the gc-compiled real code and compares
	if !e.Concrete && len(e.inputs) > 0 && len(e.Witnesses) < e.WitnessMax && e.Completed&(e.Completed-1) == 0 {
		if e.solver.Check(e.FeasTO) == "sat" {
			m, order := e.modelNow()
			e.addFreeChoices(m)
			e.Witnesses = append(e.Witnesses, WitnessTrace{Model: m, Order: order, Reach: append([]string(nil), e.pathReach...)})
		}
	}
	if len(e.WitnessInputs) == 0 && len(e.inputs) > 0 && !e.Concrete && len(e.inputs) >= e.curMaxInput {
		// one concrete witness of a completed path, for the evidence samples
		if e.solver.Check(e.FeasTO) == "sat" {
			m, _ := e.modelNow()
			e.WitnessInputs = m
		}
	}
}
