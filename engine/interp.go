package gosym

// The SSA interpreter: executes go/ssa instructions over symbolic values,
// path by path.  Structure follows x/tools/go/ssa/interp (recursive calls,
// Go panics for target panics), with solver-backed forking at symbolic
// branches (explore.go).

import (
	"fmt"
	"go/constant"
	"go/token"
	"go/types"
	"math/big"
	"runtime"
	"strings"
	"time"

	"golang.org/x/tools/go/ssa"
)

type targetPanic struct {
	v  Value
	at []string
}

// pathAbort ends the current path silently (infeasible / assumption failed).
type pathAbort struct{ why string }

// engineError makes the whole run inconclusive.
type engineError struct{ msg string }

type deferred struct {
	fn    Value
	args  []Value
	instr *ssa.Defer
	tail  *deferred
}

type frame struct {
	e                *Engine
	caller           *frame
	fn               *ssa.Function
	block, prevBlock *ssa.BasicBlock
	env              map[ssa.Value]Value
	locals           []Value
	defers           *deferred
	result           Value
	panicking        bool
	panicV           interface{}
	curInstr         ssa.Instruction
	phitemps         []Value
	phiDone          *ssa.BasicBlock
}

type intrinsic func(e *Engine, fr *frame, args []Value) Value

type fnMeta struct {
	name      string
	intr      intrinsic
	repl      *ssa.Function
	noop      bool
	opaque    bool
	isPkgInit bool
	pure      bool
}

func (e *Engine) meta(fn *ssa.Function) *fnMeta {
	if m, ok := e.metas[fn]; ok {
		return m
	}
	name := fn.String()
	if o := fn.Origin(); o != nil {
		// generic instance: register under the origin's name too
		if _, ok := intrinsics[name]; !ok {
			if _, ok2 := intrinsics[o.String()]; ok2 {
				name = o.String()
			}
		}
	}
	m := &fnMeta{name: name}
	if in, ok := intrinsics[name]; ok {
		m.intr = in
	}
	if pureIntrinsics[name] {
		m.pure = true
	}
	if d, ok := e.Directives[name]; ok {
		switch d.Kind {
		case "replace":
			m.repl = d.Target
			m.intr = nil
		case "noop":
			m.noop = true
			m.intr = nil
		case "opaque":
			m.opaque = true
			m.intr = nil
		case "real":
			m.intr = nil
		}
	}
	if fn.Synthetic == "package initializer" {
		m.isPkgInit = true
	}
	e.metas[fn] = m
	return m
}

func (fr *frame) get(key ssa.Value) Value {
	switch key := key.(type) {
	case nil:
		return nil
	case *ssa.Function, *ssa.Builtin:
		return key
	case *ssa.Const:
		return fr.e.constValue(key)
	case *ssa.Global:
		return fr.e.globalAddr(key)
	}
	if r, ok := fr.env[key]; ok {
		return r
	}
	panic(fmt.Sprintf("get: no value for %T: %v", key, key.Name()))
}

func (e *Engine) constValue(c *ssa.Const) Value {
	if v, ok := e.consts[c]; ok {
		return v
	}
	v := e.constValue1(c)
	e.consts[c] = v
	return v
}

func (e *Engine) constValue1(c *ssa.Const) Value {
	if c.Value == nil {
		return e.zero(c.Type())
	}
	if t, ok := c.Type().Underlying().(*types.Basic); ok {
		switch {
		case t.Info()&types.IsBoolean != 0:
			return e.tt.Bool(constant.BoolVal(c.Value))
		case t.Info()&types.IsInteger != 0:
			v, _ := new(big.Int).SetString(constant.ToInt(c.Value).ExactString(), 10)
			if v == nil {
				panic("bad integer constant " + c.String())
			}
			return e.intConst(t, v)
		case t.Info()&types.IsFloat != 0:
			return c.Float64()
		case t.Info()&types.IsString != 0:
			if c.Value.Kind() == constant.String {
				return e.mkStr(constant.StringVal(c.Value))
			}
			return e.mkStr(string(rune(c.Int64())))
		}
	}
	panic(unsupported{"constant " + c.String()})
}

func (e *Engine) globalAddr(g *ssa.Global) *Value {
	if p, ok := e.globals[g]; ok {
		return p
	}
	if g.Pkg != nil {
		e.initPackage(g.Pkg)
	}
	if p, ok := e.globals[g]; ok {
		return p
	}
	// global of a package without init run (should not happen)
	var cell Value = e.zero(deref(g.Type()))
	e.globals[g] = &cell
	return &cell
}

func deref(t types.Type) types.Type {
	if p, ok := t.Underlying().(*types.Pointer); ok {
		return p.Elem()
	}
	panic(fmt.Sprintf("deref of non-pointer %v", t))
}

// initPackage allocates the package's globals and runs its synthetic init in
// lenient concrete mode (outside the undo trail).  Imported packages are not
// initialised eagerly: they are initialised on first touch.
func (e *Engine) initPackage(pkg *ssa.Package) {
	if e.pkgInit[pkg] != 0 {
		return
	}
	e.pkgInit[pkg] = 1
	initFn := pkg.Func("init")
	withInit := map[*ssa.Global]bool{}
	if initFn != nil {
		for _, b := range initFn.Blocks {
			for _, in := range b.Instrs {
				if st, ok := in.(*ssa.Store); ok {
					if g, ok := st.Addr.(*ssa.Global); ok {
						withInit[g] = true
					}
				}
			}
		}
	}
	for _, m := range pkg.Members {
		if g, ok := m.(*ssa.Global); ok {
			var cell Value
			if withInit[g] && !strings.HasPrefix(g.Name(), "init$") {
				cell = bad{"initialiser of " + g.String() + " was not executed"}
			} else {
				cell = e.zero(deref(g.Type()))
			}
			e.globals[g] = &cell
		}
	}
	if initFn == nil {
		e.pkgInit[pkg] = 2
		return
	}
	savedTrail := e.trailOn
	e.trailOn = false
	e.lenient++
	savedSteps := e.steps
	func() {
		defer func() {
			if r := recover(); r != nil {
				if _, ok := r.(engineError); ok && !strings.Contains(fmt.Sprint(r), "step budget") {
					panic(r)
				}
				e.InitDiag = append(e.InitDiag, fmt.Sprintf("init of %s aborted: %v", pkg.Pkg.Path(), panicText(e, r)))
			}
		}()
		e.callSSA(nil, token.NoPos, initFn, nil, nil)
	}()
	e.steps = savedSteps
	e.lenient--
	e.trailOn = savedTrail
	e.pkgInit[pkg] = 2
}

func panicText(e *Engine, r interface{}) string {
	switch r := r.(type) {
	case targetPanic:
		return "panic: " + e.panicMessage(r.v)
	case unsupported:
		return r.Error()
	case pathAbort:
		return "path abort: " + r.why
	case engineError:
		return r.msg
	case error:
		return r.Error()
	}
	return fmt.Sprint(r)
}

func (e *Engine) panicMessage(v Value) string {
	switch v := v.(type) {
	case strV:
		if s, ok := e.concStr(v); ok {
			return s
		}
		return "<string>"
	case iface:
		if v.t == nil {
			return "nil"
		}
		if s, ok := v.v.(strV); ok {
			return e.panicMessage(s)
		}
		// error values: try errorString layout {s string}
		if p, ok := v.v.(*Value); ok && p != nil {
			if st, ok := (*p).(structure); ok && len(st) >= 1 {
				if s, ok := st[0].(strV); ok {
					return e.panicMessage(s)
				}
			}
		}
		return fmt.Sprintf("value of type %v", v.t)
	}
	return fmt.Sprintf("%T", v)
}

func (e *Engine) rtPanic(msg string) {
	_, st := e.whereStack(e.curFrame)
	panic(targetPanic{v: iface{t: e.runtimeErrT, v: e.mkStr("runtime error: " + msg)}, at: st})
}

// ---------- calls ----------

func (e *Engine) call(caller *frame, pos token.Pos, fn Value, args []Value) Value {
	switch fn := fn.(type) {
	case *ssa.Function:
		if fn == nil {
			e.rtPanic("call of nil function")
		}
		return e.callSSA(caller, pos, fn, args, nil)
	case *closure:
		return e.callSSA(caller, pos, fn.fn, args, fn.env)
	case *ssa.Builtin:
		return e.callBuiltin(caller, pos, fn, args)
	case nilFunc:
		e.rtPanic("invalid memory address or nil pointer dereference (call of nil func)")
	}
	panic(fmt.Sprintf("cannot call %T", fn))
}

func (e *Engine) callSSA(caller *frame, pos token.Pos, fn *ssa.Function, args []Value, env []Value) Value {
	m := e.meta(fn)
	if m.isPkgInit {
		if caller != nil && caller.fn.Pkg != fn.Pkg {
			return nil // imported packages are initialised lazily
		}
	} else if fn.Pkg != nil && e.pkgInit[fn.Pkg] == 0 {
		e.initPackage(fn.Pkg)
	}
	if m.noop {
		return e.zeroResult(fn)
	}
	if m.opaque {
		return e.freshResult(fn)
	}
	if m.repl != nil {
		fn = m.repl
		m = e.meta(fn)
	}
	if m.intr != nil {
		fr := &frame{e: e, caller: caller, fn: fn}
		return m.intr(e, fr, args)
	}
	if fn.Blocks == nil {
		panic(unsupported{"no body for " + m.name + " (external/assembly); needs an intrinsic or a //verif:replace"})
	}
	if e.depth > 400 {
		panic(engineError{"call depth limit exceeded in " + m.name})
	}
	if e.lenient == 0 {
		e.FnEntered[m.name]++
	}
	e.depth++
	defer func() { e.depth-- }()
	fr := &frame{e: e, caller: caller, fn: fn}
	fr.env = make(map[ssa.Value]Value, 16)
	fr.block = fn.Blocks[0]
	fr.locals = make([]Value, len(fn.Locals))
	for i, l := range fn.Locals {
		fr.locals[i] = e.zero(deref(l.Type()))
		fr.env[l] = &fr.locals[i]
	}
	for i, p := range fn.Params {
		fr.env[p] = args[i]
	}
	for i, fv := range fn.FreeVars {
		fr.env[fv] = env[i]
	}
	for fr.block != nil {
		e.runFrame(fr)
	}
	return fr.result
}

func (e *Engine) zeroResult(fn *ssa.Function) Value {
	res := fn.Signature.Results()
	switch res.Len() {
	case 0:
		return nil
	case 1:
		return e.zero(res.At(0).Type())
	}
	return e.zero(res)
}

// runFrame executes until return / panic / recovered panic.
func (e *Engine) runFrame(fr *frame) {
	defer func() {
		if fr.block == nil {
			return // normal return
		}
		r := recover()
		if r == nil {
			return
		}
		if _, ok := r.(targetPanic); !ok {
			// engine-level unwinding: annotate with a stack line once
			panic(e.annotate(r, fr))
		}
		fr.panicking = true
		fr.panicV = r
		fr.runDefers()
		fr.block = fr.fn.Recover
		if fr.block == nil {
			// recovered in a function without named results: zero results
			fr.result = e.zeroResult(fr.fn)
		}
	}()
	for {
		nonPhis := e.executePhis(fr)
		for _, instr := range nonPhis {
			fr.curInstr = instr
			e.curFrame = fr
			e.steps++
			if e.steps > e.StepLimit {
				panic(engineError{fmt.Sprintf("step budget of %d instructions exceeded (unbounded loop?)", e.StepLimit)})
			}
			if e.steps&0xfffff == 0 && !e.Deadline.IsZero() && e.lenient == 0 && time.Now().After(e.Deadline) {
				panic(engineError{"time budget exhausted inside a path (unbounded loop?)"})
			}
			var k int
			if e.lenient > 0 {
				k = e.visitLenient(fr, instr)
			} else {
				k = e.visitInstr(fr, instr)
			}
			if k == kReturn {
				return
			}
			if k == kJump {
				break
			}
		}
	}
}

type annotated struct {
	inner interface{}
	stack []string
}

func (e *Engine) annotate(r interface{}, fr *frame) interface{} {
	a, ok := r.(annotated)
	if !ok {
		// convert Go runtime errors inside the engine into diagnostics
		if re, isRT := r.(runtime.Error); isRT {
			buf := make([]byte, 4096)
			n := runtime.Stack(buf, false)
			r = engineError{"internal: " + re.Error() + "\n" + string(buf[:n])}
		}
		a = annotated{inner: r}
	}
	if len(a.stack) < 12 {
		a.stack = append(a.stack, e.where(fr))
	}
	return a
}

func (e *Engine) where(fr *frame) string {
	pos := token.NoPos
	if fr.curInstr != nil {
		pos = fr.curInstr.Pos()
	}
	s := fr.fn.String()
	if pos != token.NoPos {
		p := e.prog.Fset.Position(pos)
		s += fmt.Sprintf(" (%s:%d)", p.Filename, p.Line)
	} else if fr.curInstr != nil {
		s += " [" + fr.curInstr.String() + "]"
	}
	return s
}

func (fr *frame) runDefer(d *deferred) {
	var ok bool
	defer func() {
		if !ok {
			r := recover()
			if _, isT := r.(targetPanic); !isT {
				panic(r)
			}
			fr.panicking = true
			fr.panicV = r
		}
	}()
	fr.e.call(fr, d.instr.Pos(), d.fn, d.args)
	ok = true
}

func (fr *frame) runDefers() {
	for d := fr.defers; d != nil; d = d.tail {
		fr.runDefer(d)
	}
	fr.defers = nil
	if fr.panicking {
		panic(fr.panicV)
	}
}

func (e *Engine) doRecover(caller *frame) Value {
	if caller != nil && !caller.panicking && caller.caller != nil && caller.caller.panicking {
		caller.caller.panicking = false
		p := caller.caller.panicV
		caller.caller.panicV = nil
		if tp, ok := p.(targetPanic); ok {
			if i, ok := tp.v.(iface); ok {
				return i
			}
			return iface{t: types.Typ[types.String], v: tp.v}
		}
	}
	return iface{}
}

func (e *Engine) executePhis(fr *frame) []ssa.Instruction {
	firstNonPhi := -1
	for i, instr := range fr.block.Instrs {
		if _, ok := instr.(*ssa.Phi); !ok {
			firstNonPhi = i
			break
		}
	}
	nonPhis := fr.block.Instrs[firstNonPhi:]
	if firstNonPhi > 0 {
		phis := fr.block.Instrs[:firstNonPhi]
		predIndex := -1
		for i, p := range fr.block.Preds {
			if p == fr.prevBlock {
				predIndex = i
				break
			}
		}
		if fr.phiDone == fr.block {
			fr.phiDone = nil
			return nonPhis
		}
		fr.phitemps = fr.phitemps[:0]
		for _, phi := range phis {
			fr.phitemps = append(fr.phitemps, fr.get(phi.(*ssa.Phi).Edges[predIndex]))
		}
		for i, phi := range phis {
			fr.env[phi.(*ssa.Phi)] = fr.phitemps[i]
		}
	}
	fr.phiDone = nil
	return nonPhis
}

const (
	kNext = iota
	kReturn
	kJump
)

// visitLenient runs one instruction during package initialisation: failures
// poison the result instead of aborting.
func (e *Engine) visitLenient(fr *frame, instr ssa.Instruction) (k int) {
	defer func() {
		if r := recover(); r != nil {
			if a, ok := r.(annotated); ok {
				r = a.inner
			}
			if ee, ok := r.(engineError); ok && strings.Contains(ee.msg, "step budget") {
				panic(r)
			}
			switch instr.(type) {
			case *ssa.If, *ssa.Jump, *ssa.Return, *ssa.Panic, *ssa.RunDefers:
				panic(r) // cannot continue this function
			}
			if v, ok := instr.(ssa.Value); ok {
				fr.env[v] = bad{panicText(e, r)}
			}
			k = kNext
		}
	}()
	return e.visitInstr(fr, instr)
}

func (e *Engine) visitInstr(fr *frame, instr ssa.Instruction) int {
	switch instr := instr.(type) {
	case *ssa.DebugRef:

	case *ssa.UnOp:
		fr.env[instr] = e.doUnOp(fr, instr)

	case *ssa.BinOp:
		x, y := fr.get(instr.X), fr.get(instr.Y)
		if instr.Op == token.QUO || instr.Op == token.REM {
			if _, _, isInt := e.intInfo(instr.X.Type()); isInt {
				yt := y.(*Term)
				z := e.equals(instr.Y.Type(), yt, e.mkInt(instr.Y.Type(), 0))
				if !z.IsFalse() {
					if e.branch(z) {
						e.rtPanic("integer divide by zero")
					}
				}
			}
		}
		if instr.Op == token.SHL || instr.Op == token.SHR {
			if _, signed, ok := e.intInfo(instr.Y.Type()); ok && signed {
				yt := y.(*Term)
				neg := e.binop(token.LSS, instr.Y.Type(), yt, e.mkInt(instr.Y.Type(), 0), nil).(*Term)
				if !neg.IsFalse() {
					if e.branch(neg) {
						e.rtPanic("negative shift amount")
					}
				}
			}
		}
		fr.env[instr] = e.binop(instr.Op, instr.X.Type(), x, y, instr.Y.Type())

	case *ssa.Call:
		fn, args := e.prepareCall(fr, &instr.Call)
		fr.env[instr] = e.call(fr, instr.Pos(), fn, args)

	case *ssa.ChangeInterface:
		fr.env[instr] = fr.get(instr.X)

	case *ssa.ChangeType:
		fr.env[instr] = fr.get(instr.X)

	case *ssa.Convert:
		fr.env[instr] = e.conv(instr.Type(), instr.X.Type(), fr.get(instr.X))

	case *ssa.SliceToArrayPointer:
		s := fr.get(instr.X).([]Value)
		n := int(deref(instr.Type()).Underlying().(*types.Array).Len())
		if len(s) < n {
			e.rtPanic("cannot convert slice to array pointer: length too short")
		}
		if n == 0 && s == nil {
			fr.env[instr] = (*Value)(nil)
		} else {
			var cell Value = array(s[:n:n])
			fr.env[instr] = &cell
		}

	case *ssa.MakeInterface:
		fr.env[instr] = iface{t: instr.X.Type(), v: fr.get(instr.X)}

	case *ssa.Extract:
		fr.env[instr] = fr.get(instr.Tuple).(tuple)[instr.Index]

	case *ssa.Slice:
		fr.env[instr] = e.doSlice(fr, instr)

	case *ssa.Return:
		switch len(instr.Results) {
		case 0:
		case 1:
			fr.result = fr.get(instr.Results[0])
		default:
			res := make(tuple, len(instr.Results))
			for i, r := range instr.Results {
				res[i] = fr.get(r)
			}
			fr.result = res
		}
		fr.block = nil
		return kReturn

	case *ssa.RunDefers:
		fr.runDefers()

	case *ssa.Panic:
		_, st := e.whereStack(fr)
		panic(targetPanic{v: fr.get(instr.X), at: st})

	case *ssa.Send:
		panic(unsupported{"channel send"})

	case *ssa.Store:
		e.storeTo(fr.get(instr.Addr), fr.get(instr.Val))

	case *ssa.If:
		c := fr.get(instr.Cond).(*Term)
		succ := 1
		if c.IsTrue() {
			succ = 0
		} else if !c.IsFalse() {
			if e.tryMerge(fr, instr, c) {
				return kJump
			}
			if e.branch(c) {
				succ = 0
			}
		}
		fr.prevBlock, fr.block = fr.block, fr.block.Succs[succ]
		return kJump

	case *ssa.Jump:
		fr.prevBlock, fr.block = fr.block, fr.block.Succs[0]
		return kJump

	case *ssa.Defer:
		fn, args := e.prepareCall(fr, &instr.Call)
		defers := &fr.defers
		if instr.DeferStack != nil {
			panic(unsupported{"defer with explicit stack (range-over-func)"})
		}
		*defers = &deferred{fn: fn, args: args, instr: instr, tail: *defers}

	case *ssa.Go:
		panic(unsupported{"go statement (" + instr.Call.String() + ")"})

	case *ssa.MakeChan:
		e.chanSeq++
		fr.env[instr] = &chanV{id: e.chanSeq}

	case *ssa.Alloc:
		var addr *Value
		if instr.Heap {
			addr = new(Value)
			fr.env[instr] = addr
		} else {
			addr = fr.env[instr].(*Value)
		}
		*addr = e.zero(deref(instr.Type()))

	case *ssa.MakeSlice:
		n := e.concInt(fr.get(instr.Len).(*Term), instr.Len.Type(), "make len")
		c := e.concInt(fr.get(instr.Cap).(*Term), instr.Cap.Type(), "make cap")
		if n < 0 || c < n {
			e.rtPanic("makeslice: len out of range")
		}
		if c > 1<<24 {
			panic(engineError{fmt.Sprintf("make of %d elements at %s", c, e.where(fr))})
		}
		e.noteAlloc(fr, c)
		s := make([]Value, c)
		tElt := instr.Type().Underlying().(*types.Slice).Elem()
		if c > 0 {
			z := e.zero(tElt)
			switch z.(type) {
			case structure, array:
				s[0] = z
				for i := 1; i < int(c); i++ {
					s[i] = e.zero(tElt)
				}
			default:
				for i := range s {
					s[i] = z
				}
			}
		}
		fr.env[instr] = s[:n]

	case *ssa.MakeMap:
		mt := instr.Type().Underlying().(*types.Map)
		fr.env[instr] = &MapObj{kt: mt.Key(), vt: mt.Elem()}

	case *ssa.Range:
		fr.env[instr] = e.rangeIter(fr.get(instr.X), instr.X.Type())

	case *ssa.Next:
		fr.env[instr] = fr.get(instr.Iter).(rangeIter).next()

	case *ssa.FieldAddr:
		p := fr.get(instr.X)
		pp, ok := p.(*Value)
		if !ok {
			panic(unsupported{fmt.Sprintf("field address through %T", p)})
		}
		if pp == nil {
			e.rtPanic("invalid memory address or nil pointer dereference")
		}
		st, ok := (*pp).(structure)
		if !ok {
			if b, isBad := (*pp).(bad); isBad {
				panic(unsupported{"use of poison value: " + b.why})
			}
			panic(fmt.Sprintf("FieldAddr on %T (%s)", *pp, instr.X.Type()))
		}
		fr.env[instr] = &st[instr.Field]

	case *ssa.Field:
		fr.env[instr] = fr.get(instr.X).(structure)[instr.Field]

	case *ssa.IndexAddr:
		fr.env[instr] = e.doIndexAddr(fr, instr)

	case *ssa.Index:
		fr.env[instr] = e.doIndex(fr, instr)

	case *ssa.Lookup:
		fr.env[instr] = e.doLookup(fr, instr)

	case *ssa.MapUpdate:
		m := fr.get(instr.Map).(*MapObj)
		if m == nil {
			panic(targetPanic{v: e.mkStr("assignment to entry in nil map")})
		}
		e.mapInsert(m, fr.get(instr.Key), fr.get(instr.Value))

	case *ssa.TypeAssert:
		fr.env[instr] = e.typeAssert(instr, fr.get(instr.X).(iface))

	case *ssa.MakeClosure:
		var bindings []Value
		for _, b := range instr.Bindings {
			bindings = append(bindings, fr.get(b))
		}
		fr.env[instr] = &closure{instr.Fn.(*ssa.Function), bindings}

	case *ssa.Select:
		panic(unsupported{"select"})

	case *ssa.MultiConvert:
		panic(unsupported{"multiconvert (type parameters)"})

	default:
		panic(fmt.Sprintf("unexpected instruction: %T", instr))
	}
	return kNext
}

func (e *Engine) noteAlloc(fr *frame, n int64) {
	if n > e.MaxAlloc {
		e.MaxAlloc = n
	}
	e.allocLog = append(e.allocLog, n)
}

// storeTo writes through a (possibly symbolic-index) pointer.
func (e *Engine) storeTo(addr Value, v Value) {
	switch p := addr.(type) {
	case *Value:
		if p == nil {
			e.rtPanic("invalid memory address or nil pointer dereference")
		}
		e.store(p, v)
	case symPtr:
		vt, ok := v.(*Term)
		if !ok {
			panic(unsupported{"store of non-scalar through symbolic index"})
		}
		for k := range p.elems {
			old := p.elems[k].(*Term)
			e.set(&p.elems[k], e.tt.Ite(e.tt.Eq(p.idx, e.sameSortConst(p.idx, int64(k))), vt, old))
		}
	default:
		panic(fmt.Sprintf("store through %T", addr))
	}
}

func (e *Engine) sameSortConst(like *Term, k int64) *Term {
	if like.sort.K == SInt {
		return e.tt.Inti(k)
	}
	return e.tt.BVi(like.sort.W, k)
}

func (e *Engine) loadFrom(addr Value) Value {
	switch p := addr.(type) {
	case *Value:
		if p == nil {
			e.rtPanic("invalid memory address or nil pointer dereference")
		}
		v := *p
		if b, ok := v.(bad); ok && e.lenient == 0 {
			panic(unsupported{"read of poison value: " + b.why})
		}
		return copyVal(v)
	case symPtr:
		n := len(p.elems)
		res := p.elems[n-1].(*Term)
		for k := n - 2; k >= 0; k-- {
			res = e.tt.Ite(e.tt.Eq(p.idx, e.sameSortConst(p.idx, int64(k))), p.elems[k].(*Term), res)
		}
		return res
	}
	panic(fmt.Sprintf("load through %T", addr))
}

func (e *Engine) doUnOp(fr *frame, instr *ssa.UnOp) Value {
	x := fr.get(instr.X)
	switch instr.Op {
	case token.MUL:
		return e.loadFrom(x)
	case token.ARROW:
		panic(unsupported{"channel receive"})
	}
	return e.unop(instr.Op, instr.X.Type(), x)
}

func (e *Engine) prepareCall(fr *frame, call *ssa.CallCommon) (fn Value, args []Value) {
	v := fr.get(call.Value)
	if call.Method == nil {
		fn = v
	} else {
		recv, ok := v.(iface)
		if !ok {
			if b, isBad := v.(bad); isBad {
				panic(unsupported{"method call on poison value: " + b.why})
			}
			panic(fmt.Sprintf("invoke on %T", v))
		}
		if recv.t == nil {
			e.rtPanic("invalid memory address or nil pointer dereference (method " + call.Method.Name() + " on nil interface)")
		}
		f := e.prog.LookupMethod(recv.t, call.Method.Pkg(), call.Method.Name())
		if f == nil {
			panic(fmt.Sprintf("method set for dynamic type %v does not contain %s", recv.t, call.Method))
		}
		fn = f
		args = append(args, recv.v)
	}
	for _, a := range call.Args {
		args = append(args, fr.get(a))
	}
	return
}

// ---------- slices, indexes ----------

// concInt concretises an integer term of Go type t (forking over feasible values).
func (e *Engine) concInt(x *Term, t types.Type, what string) int64 {
	v := e.concretize(x, what)
	w, signed, _ := e.intInfo(t)
	if e.IntMode {
		return v.Int64()
	}
	if signed {
		return toSigned(w, v).Int64()
	}
	if !v.IsInt64() {
		return 1 << 62
	}
	return v.Int64()
}

func (e *Engine) doSlice(fr *frame, instr *ssa.Slice) Value {
	x := fr.get(instr.X)
	geti := func(v ssa.Value, def int64) int64 {
		if v == nil {
			return def
		}
		return e.concInt(fr.get(v).(*Term), v.Type(), "slice bound")
	}
	switch x := x.(type) {
	case strV:
		if x.opaque != "" {
			panic(unsupported{"slicing an opaque string"})
		}
		lo := geti(instr.Low, 0)
		hi := geti(instr.High, int64(len(x.b)))
		if lo < 0 || hi < lo || hi > int64(len(x.b)) {
			e.rtPanic(fmt.Sprintf("slice bounds out of range [%d:%d] with length %d", lo, hi, len(x.b)))
		}
		return strV{b: x.b[lo:hi]}
	case []Value:
		lo := geti(instr.Low, 0)
		hi := geti(instr.High, int64(len(x)))
		max := geti(instr.Max, int64(cap(x)))
		if lo < 0 || hi < lo || max < hi || max > int64(cap(x)) {
			e.rtPanic(fmt.Sprintf("slice bounds out of range [%d:%d:%d] with capacity %d", lo, hi, max, cap(x)))
		}
		if x == nil {
			return []Value(nil)
		}
		return x[lo:hi:max]
	case *Value:
		if x == nil {
			e.rtPanic("invalid memory address or nil pointer dereference (slice of nil array pointer)")
		}
		a := (*x).(array)
		lo := geti(instr.Low, 0)
		hi := geti(instr.High, int64(len(a)))
		max := geti(instr.Max, int64(len(a)))
		if lo < 0 || hi < lo || max < hi || max > int64(len(a)) {
			e.rtPanic(fmt.Sprintf("slice bounds out of range [%d:%d:%d] with array length %d", lo, hi, max, len(a)))
		}
		return []Value(a)[lo:hi:max]
	}
	panic(fmt.Sprintf("slice of %T", x))
}

// indexCheck forks on the bounds check of a symbolic index and returns either a
// concrete index (conc=true) or the in-range symbolic term.
func (e *Engine) indexCheck(idx *Term, it types.Type, n int) (k int, conc bool) {
	if idx.IsConst() {
		w, signed, _ := e.intInfo(it)
		var i int64
		if e.IntMode {
			if !idx.c.IsInt64() {
				i = -1
			} else {
				i = idx.c.Int64()
			}
		} else if signed {
			i = toSigned(w, idx.c).Int64()
		} else if idx.c.IsInt64() {
			i = idx.c.Int64()
		} else {
			i = -1
		}
		if i < 0 || i >= int64(n) {
			e.rtPanic(fmt.Sprintf("index out of range [%d] with length %d", i, n))
		}
		return int(i), true
	}
	lo := e.binop(token.GEQ, it, idx, e.mkInt(it, 0), nil).(*Term)
	hi := e.tt.Bool(true)
	if w, signed, _ := e.intInfo(it); (signed && (w >= 63 || int64(n) < int64(1)<<uint(w-1))) || (!signed && (w >= 63 || int64(n) < int64(1)<<uint(w))) {
		hi = e.binop(token.LSS, it, idx, e.mkInt(it, int64(n)), nil).(*Term)
	}
	in := e.tt.And(lo, hi)
	if !e.branch(in) {
		e.rtPanic(fmt.Sprintf("index out of range [symbolic] with length %d", n))
	}
	if n == 1 {
		return 0, true
	}
	return 0, false
}

func allTerms(vs []Value) bool {
	for _, v := range vs {
		if _, ok := v.(*Term); !ok {
			return false
		}
	}
	return true
}

func (e *Engine) doIndexAddr(fr *frame, instr *ssa.IndexAddr) Value {
	x := fr.get(instr.X)
	idx := fr.get(instr.Index).(*Term)
	var elems []Value
	switch x := x.(type) {
	case []Value:
		elems = x
	case *Value:
		if x == nil {
			e.rtPanic("invalid memory address or nil pointer dereference")
		}
		a, ok := (*x).(array)
		if !ok {
			if b, isBad := (*x).(bad); isBad {
				panic(unsupported{"use of poison value: " + b.why})
			}
			panic(fmt.Sprintf("IndexAddr on pointer to %T", *x))
		}
		elems = a
	default:
		panic(fmt.Sprintf("IndexAddr on %T", x))
	}
	k, conc := e.indexCheck(idx, instr.Index.Type(), len(elems))
	if conc {
		return &elems[k]
	}
	if allTerms(elems) && e.onlyLoadStore(instr) {
		return symPtr{elems: elems, idx: idx}
	}
	kk := e.concInt(idx, instr.Index.Type(), "index")
	return &elems[kk]
}

// onlyLoadStore reports whether every use of the address is a direct load or store.
func (e *Engine) onlyLoadStore(instr *ssa.IndexAddr) bool {
	refs := instr.Referrers()
	if refs == nil {
		return false
	}
	for _, r := range *refs {
		switch r := r.(type) {
		case *ssa.UnOp:
			if r.Op != token.MUL {
				return false
			}
		case *ssa.Store:
			if r.Addr != instr {
				return false
			}
		case *ssa.DebugRef:
		default:
			return false
		}
	}
	return true
}

func (e *Engine) doIndex(fr *frame, instr *ssa.Index) Value {
	x := fr.get(instr.X)
	idx := fr.get(instr.Index).(*Term)
	var elems []Value
	switch x := x.(type) {
	case array:
		elems = x
	case strV:
		if x.opaque != "" {
			panic(unsupported{"index of opaque string"})
		}
		k, conc := e.indexCheck(idx, instr.Index.Type(), len(x.b))
		if conc {
			return x.b[k]
		}
		res := x.b[len(x.b)-1]
		for i := len(x.b) - 2; i >= 0; i-- {
			res = e.tt.Ite(e.tt.Eq(idx, e.sameSortConst(idx, int64(i))), x.b[i], res)
		}
		return res
	default:
		panic(fmt.Sprintf("Index on %T", x))
	}
	k, conc := e.indexCheck(idx, instr.Index.Type(), len(elems))
	if conc {
		return elems[k]
	}
	if allTerms(elems) {
		return e.loadFrom(symPtr{elems: elems, idx: idx})
	}
	kk := e.concInt(idx, instr.Index.Type(), "index")
	return elems[kk]
}

// ---------- type assertions ----------

func (e *Engine) typeAssert(instr *ssa.TypeAssert, itf iface) Value {
	var v Value
	err := ""
	if idst, ok := instr.AssertedType.Underlying().(*types.Interface); ok {
		if itf.t == nil {
			err = fmt.Sprintf("interface conversion: interface is nil, not %s", instr.AssertedType)
		} else if !types.Implements(itf.t, idst) {
			err = fmt.Sprintf("interface conversion: %v is not %v: missing method", itf.t, instr.AssertedType)
		} else {
			v = itf
		}
	} else if itf.t != nil && types.Identical(itf.t, instr.AssertedType) {
		v = itf.v
	} else {
		err = fmt.Sprintf("interface conversion: interface is %v, not %v", itf.t, instr.AssertedType)
	}
	if err != "" {
		if !instr.CommaOk {
			panic(targetPanic{v: iface{t: e.runtimeErrT, v: e.mkStr(err)}})
		}
		return tuple{e.zero(instr.AssertedType), e.tt.Bool(false)}
	}
	if instr.CommaOk {
		return tuple{v, e.tt.Bool(true)}
	}
	return v
}

// ---------- builtins ----------

func (e *Engine) sliceLen(x Value) int {
	switch x := x.(type) {
	case strV:
		if x.opaque != "" {
			panic(unsupported{"len of opaque string"})
		}
		return len(x.b)
	case array:
		return len(x)
	case *Value:
		if x == nil {
			e.rtPanic("len of nil array pointer")
		}
		return len((*x).(array))
	case []Value:
		return len(x)
	case *MapObj:
		if x == nil {
			return 0
		}
		return len(x.ents())
	case *chanV:
		return 0
	}
	panic(fmt.Sprintf("len: illegal operand: %T", x))
}

func (e *Engine) callBuiltin(caller *frame, pos token.Pos, fn *ssa.Builtin, args []Value) Value {
	switch fn.Name() {
	case "append":
		if len(args) == 1 {
			return args[0]
		}
		dst := args[0].([]Value)
		var src []Value
		switch s := args[1].(type) {
		case strV:
			if s.opaque != "" {
				panic(unsupported{"append of opaque string"})
			}
			src = make([]Value, len(s.b))
			for i, b := range s.b {
				src[i] = b
			}
		case []Value:
			src = s
		}
		var elemT types.Type
		if sl, ok := fn.Type().(*types.Signature).Params().At(0).Type().Underlying().(*types.Slice); ok {
			elemT = sl.Elem()
		}
		return e.appendSlice(dst, src, elemT)

	case "copy":
		dst := args[0].([]Value)
		var src []Value
		switch s := args[1].(type) {
		case strV:
			src = make([]Value, len(s.b))
			for i, b := range s.b {
				src[i] = b
			}
		case []Value:
			src = s
		}
		n := len(dst)
		if len(src) < n {
			n = len(src)
		}
		// memmove semantics
		tmp := make([]Value, n)
		for i := 0; i < n; i++ {
			tmp[i] = copyVal(src[i])
		}
		for i := 0; i < n; i++ {
			e.store(&dst[i], tmp[i])
		}
		return e.goInt(n)

	case "close":
		// closing a channel nobody receives from in a sequential harness has no observable
		// effect; sends and receives themselves stay unsupported
		if c, ok := args[0].(*chanV); ok && c != nil {
			return nil
		}
		panic(unsupported{"close of a nil or foreign channel"})

	case "delete":
		m := args[0].(*MapObj)
		if m != nil {
			e.mapDelete(m, args[1])
		}
		return nil

	case "print", "println":
		return nil

	case "len":
		return e.goInt(e.sliceLen(args[0]))

	case "cap":
		switch x := args[0].(type) {
		case array:
			return e.goInt(len(x))
		case *Value:
			return e.goInt(len((*x).(array)))
		case []Value:
			return e.goInt(cap(x))
		case *chanV:
			return e.goInt(0)
		}
		panic(fmt.Sprintf("cap: illegal operand %T", args[0]))

	case "min", "max":
		t := fn.Type().(*types.Signature).Params().At(0).Type()
		acc := args[0]
		for _, a := range args[1:] {
			var c *Term
			if fn.Name() == "min" {
				c = e.binop(token.LSS, t, a, acc, nil).(*Term)
			} else {
				c = e.binop(token.GTR, t, a, acc, nil).(*Term)
			}
			at, ok1 := a.(*Term)
			ct, ok2 := acc.(*Term)
			if !ok1 || !ok2 {
				panic(unsupported{"min/max on non-integer"})
			}
			acc = e.tt.Ite(c, at, ct)
		}
		return acc

	case "panic":
		panic(targetPanic{v: args[0]})

	case "recover":
		return e.doRecover(caller)

	case "ssa:wrapnilchk":
		recv := args[0]
		if p, ok := recv.(*Value); ok && p == nil {
			e.rtPanic("value method called using nil pointer")
		}
		return recv
	case "clear":
		switch x := args[0].(type) {
		case *MapObj:
			if x != nil {
				old := x.list
				e.onUndo(func() { x.list = old })
				x.list = nil
			}
			return nil
		}
	}
	panic(unsupported{"builtin " + fn.Name()})
}

// appendSlice follows the runtime's growth policy (including malloc size
// classes) so that capacity-dependent aliasing is faithful.
func (e *Engine) appendSlice(dst, src []Value, elemT types.Type) []Value {
	need := len(dst) + len(src)
	if need <= cap(dst) {
		out := dst[:need]
		for i, v := range src {
			e.store(&out[len(dst)+i], copyVal(v))
		}
		return out
	}
	newcap := e.growCap(cap(dst), need, elemT)
	e.noteAlloc(nil, int64(newcap))
	out := make([]Value, need, newcap)
	for i, v := range dst {
		out[i] = copyVal(v)
	}
	for i, v := range src {
		out[len(dst)+i] = copyVal(v)
	}
	if newcap > need && elemT != nil {
		z := e.zero(elemT)
		full := out[:newcap]
		for i := need; i < newcap; i++ {
			switch z.(type) {
			case structure, array:
				full[i] = e.zero(elemT)
			default:
				full[i] = z
			}
		}
	}
	return out
}

var sizeClasses = []int{0, 8, 16, 24, 32, 48, 64, 80, 96, 112, 128, 144, 160, 176, 192, 208, 224, 240, 256, 288, 320, 352, 384, 416, 448, 480, 512, 576, 640, 704, 768, 896, 1024, 1152, 1280, 1408, 1536, 1792, 2048, 2304, 2688, 3072, 3200, 3456, 4096, 4864, 5376, 6144, 6528, 6784, 6912, 8192, 9472, 9728, 10240, 10880, 12288, 13568, 14336, 16384, 18432, 19072, 20480, 21760, 24576, 27264, 28672, 32768}

func roundupsize(n int) int {
	if n <= 32768 {
		for _, c := range sizeClasses {
			if c >= n {
				return c
			}
		}
	}
	return (n + 8191) &^ 8191
}

func (e *Engine) growCap(oldCap, newLen int, elemT types.Type) int {
	newcap := oldCap
	doublecap := newcap + newcap
	if newLen > doublecap {
		newcap = newLen
	} else {
		const threshold = 256
		if oldCap < threshold {
			newcap = doublecap
		} else {
			for newcap > 0 && newcap < newLen {
				newcap += (newcap + 3*threshold) >> 2
			}
			if newcap <= 0 {
				newcap = newLen
			}
		}
	}
	es := 8
	if elemT != nil {
		es = int(e.sizes.Sizeof(elemT))
	}
	if es == 0 {
		return newcap
	}
	mem := roundupsize(newcap * es)
	return mem / es
}
