package gosym

import (
	"math/big"
	"strings"
)

func parseModel(m map[string]string) map[string]*big.Int {
	out := map[string]*big.Int{}
	for k, v := range m {
		v = strings.TrimPrefix(v, "0x")
		x, ok := new(big.Int).SetString(v, 16)
		if ok {
			out[k] = x
		}
	}
	return out
}
