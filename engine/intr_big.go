package gosym

// math/big.Int as a leaf value.  bv mode: two's-complement (_ BitVec BigW) plus
// a static magnitude bound (|x| < 2^bits) that must stay below BigW-1 — the
// analogue of an unwinding assertion for unbounded integers.  int mode: SMT Int.

import (
	"fmt"
	"go/types"
	"math/big"
)

func (e *Engine) bigConst(x *big.Int) *Term {
	if e.IntMode {
		return e.tt.Int(x)
	}
	return e.tt.BV(e.BigW, x)
}

func bitsOf(x *big.Int) int { return x.BitLen() }

func (e *Engine) bigFromConst(x *big.Int) bigV {
	return bigV{t: e.bigConst(x), bits: bitsOf(x), nn: x.Sign() >= 0}
}

func (e *Engine) chkBits(b int, what string) int {
	if !e.IntMode && b > e.BigW-1 {
		panic(engineError{fmt.Sprintf("big.Int magnitude bound %d bits exceeds the %d-bit encoding in %s (raise W)", b, e.BigW, what)})
	}
	return b
}

func (e *Engine) bigPtr(v Value, what string) *Value {
	p, ok := v.(*Value)
	if !ok {
		panic(fmt.Sprintf("big.Int receiver is %T in %s", v, what))
	}
	if p == nil {
		e.rtPanic("invalid memory address or nil pointer dereference (*big.Int in " + what + ")")
	}
	return p
}

func (e *Engine) bigGet(v Value, what string) bigV {
	p := e.bigPtr(v, what)
	b, ok := (*p).(bigV)
	if !ok {
		if bd, isBad := (*p).(bad); isBad {
			panic(unsupported{"use of poison big.Int: " + bd.why})
		}
		panic(fmt.Sprintf("big.Int cell holds %T in %s", *p, what))
	}
	return b
}

func (e *Engine) bigSet(v Value, b bigV) Value {
	p := e.bigPtr(v, "set")
	if b.t.IsConst() {
		c := b.t.c
		if !e.IntMode {
			c = toSigned(e.BigW, c)
		}
		b.bits = bitsOf(c)
		b.nn = c.Sign() >= 0
	}
	e.set(p, b)
	return v
}

func (e *Engine) newBig(b bigV) Value {
	var cell Value = b
	if b.t.IsConst() {
		c := b.t.c
		if !e.IntMode {
			c = toSigned(e.BigW, c)
		}
		cell = bigV{t: b.t, bits: bitsOf(c), nn: c.Sign() >= 0}
	}
	return &cell
}

func maxi(a, b int) int {
	if a > b {
		return a
	}
	return b
}
func mini(a, b int) int {
	if a < b {
		return a
	}
	return b
}

// mode-dispatching primitive operations on big terms
func (e *Engine) bAdd(a, b *Term) *Term {
	if e.IntMode {
		return e.tt.IntBin(OAdd, a, b)
	}
	return e.tt.BvBin(OBvAdd, a, b)
}
func (e *Engine) bSub(a, b *Term) *Term {
	if e.IntMode {
		return e.tt.IntBin(OSub, a, b)
	}
	return e.tt.BvBin(OBvSub, a, b)
}
func (e *Engine) bMul(a, b *Term) *Term {
	if e.IntMode {
		return e.tt.IntBin(OMul, a, b)
	}
	return e.tt.BvBin(OBvMul, a, b)
}
func (e *Engine) bNeg(a *Term) *Term {
	if e.IntMode {
		return e.tt.IntNeg(a)
	}
	return e.tt.BvNeg(a)
}
func (e *Engine) bLt(a, b *Term) *Term {
	if e.IntMode {
		return e.tt.IntCmp(OLt, a, b)
	}
	return e.tt.BvCmp(OBvSlt, a, b)
}
func (e *Engine) bLe(a, b *Term) *Term {
	if e.IntMode {
		return e.tt.IntCmp(OLe, a, b)
	}
	return e.tt.BvCmp(OBvSle, a, b)
}
func (e *Engine) bZero() *Term { return e.bigConst(big.NewInt(0)) }

func (e *Engine) bAbs(a bigV) *Term {
	if a.nn {
		return a.t
	}
	if e.IntMode {
		return e.tt.IntAbs(a.t)
	}
	return e.tt.Ite(e.bLt(a.t, e.bZero()), e.bNeg(a.t), a.t)
}

// goToBig converts a Go integer term of type t to a big term.
func (e *Engine) goToBig(x *Term, t types.Type) bigV {
	w, signed, _ := e.intInfo(t)
	if e.IntMode {
		return bigV{t: x, bits: w, nn: !signed}
	}
	return bigV{t: e.tt.Resize(x, e.BigW, signed), bits: w, nn: !signed}
}

// bigToGo converts (the low bits of) a big term to a Go integer type.
func (e *Engine) bigLow(a *Term, t types.Type) *Term {
	w, signed, _ := e.intInfo(t)
	if e.IntMode {
		return e.wrapMod(a, w, signed)
	}
	return e.tt.Extract(w-1, 0, a)
}

func (e *Engine) bigDivZeroCheck(y bigV) {
	z := e.tt.Eq(y.t, e.bZero())
	if z.IsFalse() {
		return
	}
	if e.branch(z) {
		panic(targetPanic{v: e.mkStr("division by zero")})
	}
}

// truncated quotient and remainder
func (e *Engine) bQuoRem(x, y bigV) (q, r bigV) {
	if e.IntMode {
		qt, rt := e.truncQuoRem(x.t, y.t)
		return bigV{t: qt, nn: x.nn && y.nn}, bigV{t: rt, nn: x.nn}
	}
	q = bigV{t: e.tt.BvBin(OBvSDiv, x.t, y.t), bits: e.chkBits(x.bits+1, "Quo"), nn: x.nn && y.nn}
	r = bigV{t: e.tt.BvBin(OBvSRem, x.t, y.t), bits: mini(x.bits, y.bits), nn: x.nn}
	if x.nn && y.nn {
		q.t = e.tt.BvBin(OBvUDiv, x.t, y.t)
		r.t = e.tt.BvBin(OBvURem, x.t, y.t)
		q.bits = x.bits
	}
	return
}

// Euclidean division and modulus (Go's Div/Mod)
func (e *Engine) bDivMod(x, y bigV) (q, m bigV) {
	if e.IntMode {
		return bigV{t: e.tt.IntBin(ODiv, x.t, y.t), nn: x.nn && y.nn}, bigV{t: e.tt.IntBin(OMod, x.t, y.t), nn: true}
	}
	tq, tr := e.bQuoRem(x, y)
	if x.nn {
		return tq, bigV{t: tr.t, bits: tr.bits, nn: true}
	}
	neg := e.bLt(tr.t, e.bZero())
	yPos := e.bLt(e.bZero(), y.t)
	one := e.bigConst(big.NewInt(1))
	m = bigV{t: e.tt.Ite(neg, e.tt.Ite(yPos, e.bAdd(tr.t, y.t), e.bSub(tr.t, y.t)), tr.t), bits: y.bits, nn: true}
	q = bigV{t: e.tt.Ite(neg, e.tt.Ite(yPos, e.bSub(tq.t, one), e.bAdd(tq.t, one)), tq.t), bits: e.chkBits(x.bits+1, "Div")}
	return
}

func (e *Engine) cmpInt(a, b *Term) *Term {
	return e.tt.Ite(e.bLt(a, b), e.mkInt(tInt, -1), e.tt.Ite(e.tt.Eq(a, b), e.mkInt(tInt, 0), e.mkInt(tInt, 1)))
}

// lowMaskBits returns k if c == 2^k-1.
func lowMaskBits(c *big.Int) (int, bool) {
	if c.Sign() < 0 {
		return 0, false
	}
	m := new(big.Int).Add(c, big.NewInt(1))
	if new(big.Int).And(m, c).Sign() == 0 {
		return m.BitLen() - 1, true
	}
	return 0, false
}

func (e *Engine) bigBitop(op string, x, y bigV) bigV {
	if e.IntMode {
		if x.t.IsConst() && y.t.IsConst() {
			r := new(big.Int)
			switch op {
			case "And":
				r.And(x.t.c, y.t.c)
			case "Or":
				r.Or(x.t.c, y.t.c)
			case "Xor":
				r.Xor(x.t.c, y.t.c)
			case "AndNot":
				r.AndNot(x.t.c, y.t.c)
			}
			return e.bigFromConst(r)
		}
		if op == "And" {
			for _, pr := range [][2]bigV{{x, y}, {y, x}} {
				if pr[1].t.IsConst() {
					if k, ok := lowMaskBits(pr[1].t.c); ok {
						return bigV{t: e.tt.IntBin(OMod, pr[0].t, e.tt.Int(pow2(k))), nn: true, bits: k}
					}
				}
			}
		}
		panic(unsupported{"big.Int." + op + " on symbolic operands in int mode"})
	}
	var t *Term
	r := bigV{bits: maxi(x.bits, y.bits)}
	switch op {
	case "And":
		t = e.tt.BvBin(OBvAnd, x.t, y.t)
		r.nn = x.nn || y.nn
		if x.nn && y.nn {
			r.bits = mini(x.bits, y.bits)
		} else if y.nn {
			r.bits = y.bits
		} else if x.nn {
			r.bits = x.bits
		}
	case "Or":
		t = e.tt.BvBin(OBvOr, x.t, y.t)
		r.nn = x.nn && y.nn
	case "Xor":
		t = e.tt.BvBin(OBvXor, x.t, y.t)
		r.nn = x.nn && y.nn
	case "AndNot":
		t = e.tt.BvBin(OBvAnd, x.t, e.tt.BvNot(y.t))
		r.nn = x.nn
		if x.nn {
			r.bits = x.bits
		}
	}
	r.t = t
	return r
}

func init() {
	reg := func(name string, f intrinsic) { intrinsics["(*math/big.Int)."+name] = f }
	pure := func(names ...string) {
		for _, n := range names {
			pureIntrinsics["(*math/big.Int)."+n] = true
		}
	}
	pure("Cmp", "Sign", "Uint64", "Int64", "IsUint64", "IsInt64", "CmpAbs")

	intrinsics["math/big.NewInt"] = func(e *Engine, fr *frame, a []Value) Value {
		return e.newBig(e.goToBig(a[0].(*Term), types.Typ[types.Int64]))
	}
	bin := func(name string, f func(e *Engine, x, y bigV) bigV) {
		reg(name, func(e *Engine, fr *frame, a []Value) Value {
			x, y := e.bigGet(a[1], name), e.bigGet(a[2], name)
			e.bigPtr(a[0], name)
			return e.bigSet(a[0], f(e, x, y))
		})
	}
	bin("Add", func(e *Engine, x, y bigV) bigV {
		return bigV{t: e.bAdd(x.t, y.t), bits: e.chkBits(maxi(x.bits, y.bits)+1, "Add"), nn: x.nn && y.nn}
	})
	bin("Sub", func(e *Engine, x, y bigV) bigV {
		return bigV{t: e.bSub(x.t, y.t), bits: e.chkBits(maxi(x.bits, y.bits)+1, "Sub")}
	})
	bin("Mul", func(e *Engine, x, y bigV) bigV {
		return bigV{t: e.bMul(x.t, y.t), bits: e.chkBits(x.bits+y.bits, "Mul"), nn: x.nn && y.nn}
	})
	bin("Quo", func(e *Engine, x, y bigV) bigV {
		e.bigDivZeroCheck(y)
		q, _ := e.bQuoRem(x, y)
		return q
	})
	bin("Rem", func(e *Engine, x, y bigV) bigV {
		e.bigDivZeroCheck(y)
		_, r := e.bQuoRem(x, y)
		return r
	})
	bin("Div", func(e *Engine, x, y bigV) bigV {
		e.bigDivZeroCheck(y)
		q, _ := e.bDivMod(x, y)
		return q
	})
	bin("Mod", func(e *Engine, x, y bigV) bigV {
		e.bigDivZeroCheck(y)
		_, m := e.bDivMod(x, y)
		return m
	})
	for _, op := range []string{"And", "Or", "Xor", "AndNot"} {
		op := op
		bin(op, func(e *Engine, x, y bigV) bigV { return e.bigBitop(op, x, y) })
	}
	reg("QuoRem", func(e *Engine, fr *frame, a []Value) Value {
		x, y := e.bigGet(a[1], "QuoRem"), e.bigGet(a[2], "QuoRem")
		e.bigDivZeroCheck(y)
		q, r := e.bQuoRem(x, y)
		e.bigSet(a[0], q)
		e.bigSet(a[3], r)
		return tuple{a[0], a[3]}
	})
	reg("DivMod", func(e *Engine, fr *frame, a []Value) Value {
		x, y := e.bigGet(a[1], "DivMod"), e.bigGet(a[2], "DivMod")
		e.bigDivZeroCheck(y)
		q, m := e.bDivMod(x, y)
		e.bigSet(a[0], q)
		e.bigSet(a[3], m)
		return tuple{a[0], a[3]}
	})
	reg("Neg", func(e *Engine, fr *frame, a []Value) Value {
		x := e.bigGet(a[1], "Neg")
		return e.bigSet(a[0], bigV{t: e.bNeg(x.t), bits: x.bits})
	})
	reg("Abs", func(e *Engine, fr *frame, a []Value) Value {
		x := e.bigGet(a[1], "Abs")
		return e.bigSet(a[0], bigV{t: e.bAbs(x), bits: x.bits, nn: true})
	})
	reg("Not", func(e *Engine, fr *frame, a []Value) Value {
		x := e.bigGet(a[1], "Not")
		if e.IntMode {
			return e.bigSet(a[0], bigV{t: e.tt.IntBin(OSub, e.tt.IntNeg(x.t), e.tt.Inti(1))})
		}
		return e.bigSet(a[0], bigV{t: e.tt.BvNot(x.t), bits: e.chkBits(x.bits+1, "Not")})
	})
	reg("Set", func(e *Engine, fr *frame, a []Value) Value {
		return e.bigSet(a[0], e.bigGet(a[1], "Set"))
	})
	reg("SetInt64", func(e *Engine, fr *frame, a []Value) Value {
		return e.bigSet(a[0], e.goToBig(a[1].(*Term), types.Typ[types.Int64]))
	})
	reg("SetUint64", func(e *Engine, fr *frame, a []Value) Value {
		return e.bigSet(a[0], e.goToBig(a[1].(*Term), types.Typ[types.Uint64]))
	})
	reg("Cmp", func(e *Engine, fr *frame, a []Value) Value {
		x, y := e.bigGet(a[0], "Cmp"), e.bigGet(a[1], "Cmp")
		return e.cmpInt(x.t, y.t)
	})
	reg("CmpAbs", func(e *Engine, fr *frame, a []Value) Value {
		x, y := e.bigGet(a[0], "CmpAbs"), e.bigGet(a[1], "CmpAbs")
		return e.cmpInt(e.bAbs(x), e.bAbs(y))
	})
	reg("Sign", func(e *Engine, fr *frame, a []Value) Value {
		x := e.bigGet(a[0], "Sign")
		return e.cmpInt(x.t, e.bZero())
	})
	reg("Uint64", func(e *Engine, fr *frame, a []Value) Value {
		x := e.bigGet(a[0], "Uint64")
		return e.bigLow(e.bAbs(x), tUint64)
	})
	reg("Int64", func(e *Engine, fr *frame, a []Value) Value {
		x := e.bigGet(a[0], "Int64")
		return e.bigLow(x.t, types.Typ[types.Int64])
	})
	reg("IsUint64", func(e *Engine, fr *frame, a []Value) Value {
		x := e.bigGet(a[0], "IsUint64")
		return e.tt.And(e.bLe(e.bZero(), x.t), e.bLt(x.t, e.bigConst(pow2(64))))
	})
	reg("IsInt64", func(e *Engine, fr *frame, a []Value) Value {
		x := e.bigGet(a[0], "IsInt64")
		return e.tt.And(e.bLe(e.bigConst(new(big.Int).Neg(pow2(63))), x.t), e.bLt(x.t, e.bigConst(pow2(63))))
	})
	reg("Lsh", func(e *Engine, fr *frame, a []Value) Value {
		x := e.bigGet(a[1], "Lsh")
		n := a[2].(*Term)
		if n.IsConst() {
			k := int(n.c.Int64())
			if e.IntMode {
				return e.bigSet(a[0], bigV{t: e.tt.IntBin(OMul, x.t, e.tt.Int(pow2(k))), nn: x.nn})
			}
			return e.bigSet(a[0], bigV{t: e.tt.BvBin(OBvShl, x.t, e.tt.BVu(e.BigW, uint64(k))), bits: e.chkBits(x.bits+k, "Lsh"), nn: x.nn})
		}
		if e.IntMode {
			panic(unsupported{"big.Int.Lsh by symbolic amount in int mode"})
		}
		// symbolic shift: find a bound on the amount that provably keeps the value inside W
		limit := e.BigW - 1 - x.bits
		if limit < 0 {
			limit = 0
		}
		cands := []int{63, 255, limit}
		bi := e.logged(func() int {
			for i, c := range cands {
				if c > limit {
					continue
				}
				if !e.feasible(e.tt.BvCmp(OBvUlt, e.tt.BVu(64, uint64(c)), n)) {
					return i
				}
			}
			return len(cands)
		})
		bound := -1
		if bi < len(cands) {
			bound = cands[bi]
		}
		if bound < 0 {
			panic(engineError{fmt.Sprintf("big.Int.Lsh: shift amount may exceed %d, leaving the %d-bit encoding", limit, e.BigW)})
		}
		return e.bigSet(a[0], bigV{t: e.tt.BvBin(OBvShl, x.t, e.tt.ZExt(e.BigW-64, n)), bits: x.bits + bound, nn: x.nn})
	})
	reg("Rsh", func(e *Engine, fr *frame, a []Value) Value {
		x := e.bigGet(a[1], "Rsh")
		n := a[2].(*Term)
		if e.IntMode {
			if !n.IsConst() {
				panic(unsupported{"big.Int.Rsh by symbolic amount in int mode"})
			}
			return e.bigSet(a[0], bigV{t: e.tt.IntBin(ODiv, x.t, e.tt.Int(pow2(int(n.c.Int64())))), nn: x.nn})
		}
		return e.bigSet(a[0], bigV{t: e.tt.BvBin(OBvAshr, x.t, e.tt.ZExt(e.BigW-64, n)), bits: x.bits, nn: x.nn})
	})
	reg("Bit", func(e *Engine, fr *frame, a []Value) Value {
		x := e.bigGet(a[0], "Bit")
		i := a[1].(*Term)
		if e.IntMode {
			if !i.IsConst() {
				panic(unsupported{"big.Int.Bit symbolic index in int mode"})
			}
			return e.tt.IntBin(OMod, e.tt.IntBin(ODiv, x.t, e.tt.Int(pow2(int(i.c.Int64())))), e.tt.Inti(2))
		}
		// Go: Bit of negative uses two's complement: same as our encoding (for i < W)
		var it *Term
		if i.sort.W < e.BigW {
			it = e.tt.ZExt(e.BigW-i.sort.W, i)
		} else {
			it = i
		}
		sh := e.tt.BvBin(OBvAshr, x.t, it)
		return e.tt.ZExt(63, e.tt.Extract(0, 0, sh))
	})
	reg("SetBytes", func(e *Engine, fr *frame, a []Value) Value {
		bs := a[1].([]Value)
		if len(bs) == 0 {
			return e.bigSet(a[0], e.bigFromConst(big.NewInt(0)))
		}
		if e.IntMode {
			acc := e.tt.Inti(0)
			for _, b := range bs {
				acc = e.tt.IntBin(OAdd, e.tt.IntBin(OMul, acc, e.tt.Inti(256)), b.(*Term))
			}
			return e.bigSet(a[0], bigV{t: acc, nn: true, bits: 8 * len(bs)})
		}
		e.chkBits(8*len(bs), "SetBytes")
		acc := bs[0].(*Term)
		for _, b := range bs[1:] {
			acc = e.tt.Concat(acc, b.(*Term))
		}
		return e.bigSet(a[0], bigV{t: e.tt.ZExt(e.BigW-8*len(bs), acc), nn: true, bits: 8 * len(bs)})
	})
	reg("Bytes", func(e *Engine, fr *frame, a []Value) Value {
		x := e.bigGet(a[0], "Bytes")
		return e.bigBytes(x)
	})
	reg("Bits", func(e *Engine, fr *frame, a []Value) Value {
		x := e.bigGet(a[0], "Bits")
		abs := e.bAbs(x)
		wordT := types.Typ[types.Uint]
		if abs.IsConst() {
			ws := abs.c.Bits()
			out := make([]Value, len(ws))
			for i, w := range ws {
				out[i] = e.intConst(wordT, new(big.Int).SetUint64(uint64(w)))
			}
			return out
		}
		maxW := (x.bits + 63) / 64
		if e.IntMode && x.bits == 0 {
			maxW = 8
		}
		var conds []*Term
		for k := 0; k <= maxW; k++ {
			var c *Term
			hi := e.bigConst(pow2(64 * k))
			if !e.IntMode && 64*k >= e.BigW-1 {
				c = e.tt.Bool(true)
			} else {
				c = e.bLt(abs, hi)
			}
			if k > 0 {
				c = e.tt.And(c, e.bLe(e.bigConst(pow2(64*(k-1))), abs))
			}
			conds = append(conds, c)
		}
		if e.IntMode {
			// values above the enumerated range are outside the harness bound
			e.assume(e.bLt(abs, e.bigConst(pow2(64*maxW))))
		}
		k := e.chooseAmong(conds, "big.Int.Bits length")
		out := make([]Value, k)
		for i := 0; i < k; i++ {
			if e.IntMode {
				out[i] = e.tt.IntBin(OMod, e.tt.IntBin(ODiv, abs, e.tt.Int(pow2(64*i))), e.tt.Int(pow2(64)))
			} else {
				out[i] = e.tt.Extract(64*i+63, 64*i, abs)
			}
		}
		return out
	})
	reg("BitLen", func(e *Engine, fr *frame, a []Value) Value {
		x := e.bigGet(a[0], "BitLen")
		abs := e.bAbs(x)
		if abs.IsConst() {
			return e.goInt(abs.c.BitLen())
		}
		nb := x.bits
		if e.IntMode && nb == 0 {
			nb = 256
			e.assume(e.bLt(abs, e.bigConst(pow2(nb))))
		}
		res := e.goInt(0)
		for i := 1; i <= nb; i++ {
			// abs >= 2^(i-1)
			c := e.bLe(e.bigConst(pow2(i-1)), abs)
			res = e.tt.Ite(c, e.goInt(i), res)
		}
		return res
	})
	reg("String", func(e *Engine, fr *frame, a []Value) Value {
		if p, ok := a[0].(*Value); ok && p != nil {
			if b, ok := (*p).(bigV); ok && b.t.IsConst() {
				c := b.t.c
				if !e.IntMode {
					c = toSigned(e.BigW, c)
				}
				return e.mkStr(c.String())
			}
		}
		return strV{opaque: "big.String"}
	})
	reg("Text", func(e *Engine, fr *frame, a []Value) Value { return strV{opaque: "big.Text"} })
	reg("SetString", func(e *Engine, fr *frame, a []Value) Value {
		s, ok := e.concStr(a[1])
		bt := a[2].(*Term)
		if !ok || !bt.IsConst() {
			panic(unsupported{"big.Int.SetString of symbolic text"})
		}
		v, good := new(big.Int).SetString(s, int(bt.c.Int64()))
		if !good {
			return tuple{(*Value)(nil), e.tt.Bool(false)}
		}
		e.bigSet(a[0], e.bigFromConst(v))
		return tuple{a[0], e.tt.Bool(true)}
	})
	reg("Exp", func(e *Engine, fr *frame, a []Value) Value {
		x, y := e.bigGet(a[1], "Exp"), e.bigGet(a[2], "Exp")
		var m *big.Int
		if p, ok := a[3].(*Value); ok && p != nil {
			mv := (*p).(bigV)
			if !mv.t.IsConst() {
				panic(unsupported{"big.Int.Exp with symbolic modulus"})
			}
			m = mv.t.c
		}
		if x.t.IsConst() && y.t.IsConst() {
			xc, yc := x.t.c, y.t.c
			if !e.IntMode {
				xc, yc = toSigned(e.BigW, xc), toSigned(e.BigW, yc)
			}
			return e.bigSet(a[0], e.bigFromConst(new(big.Int).Exp(xc, yc, m)))
		}
		panic(unsupported{"big.Int.Exp on symbolic operands"})
	})
	reg("Sqrt", func(e *Engine, fr *frame, a []Value) Value { panic(unsupported{"big.Int.Sqrt"}) })
}

// bigBytes implements (*big.Int).Bytes: big-endian, minimal length; forks on the length.
func (e *Engine) bigBytes(x bigV) Value {
	abs := e.bAbs(x)
	if abs.IsConst() {
		bs := abs.c.Bytes()
		out := make([]Value, len(bs))
		for i, b := range bs {
			out[i] = e.byteTerm(b)
		}
		return out
	}
	if e.IntMode {
		nb := x.bits
		if nb == 0 {
			nb = 256
			e.assume(e.bLt(abs, e.bigConst(pow2(nb))))
		}
		maxB := (nb + 7) / 8
		var conds []*Term
		for k := 0; k <= maxB; k++ {
			c := e.bLt(abs, e.bigConst(pow2(8*k)))
			if k > 0 {
				c = e.tt.And(c, e.bLe(e.bigConst(pow2(8*(k-1))), abs))
			}
			conds = append(conds, c)
		}
		k := e.chooseAmong(conds, "big.Int.Bytes length")
		out := make([]Value, k)
		for i := 0; i < k; i++ {
			out[i] = e.tt.IntBin(OMod, e.tt.IntBin(ODiv, abs, e.tt.Int(pow2(8*(k-1-i)))), e.tt.Inti(256))
		}
		return out
	}
	maxB := (x.bits + 7) / 8
	var conds []*Term
	for k := 0; k <= maxB; k++ {
		// length k: abs < 2^(8k) and (k == 0 or abs >= 2^(8(k-1)))
		var c *Term
		if 8*k >= e.BigW-1 {
			c = e.tt.Bool(true)
		} else {
			c = e.tt.BvCmp(OBvUlt, abs, e.tt.BV(e.BigW, pow2(8*k)))
		}
		if k > 0 {
			c = e.tt.And(c, e.tt.BvCmp(OBvUle, e.tt.BV(e.BigW, pow2(8*(k-1))), abs))
		}
		conds = append(conds, c)
	}
	k := e.chooseAmong(conds, "big.Int.Bytes length")
	out := make([]Value, k)
	for i := 0; i < k; i++ {
		hi := 8*(k-i) - 1
		out[i] = e.tt.Extract(hi, hi-7, abs)
	}
	return out
}
