package gosym

// One long-lived SMT solver process (z3 -in by default) driven incrementally
// with push/pop.  Declarations are global (survive pop); every non-leaf term is
// sent once as a define-fun and referenced by name afterwards.

import (
	"bufio"
	"fmt"
	"io"
	"math/big"
	"os"
	"os/exec"
	"strings"
	"syscall"
	"time"
)

type Solver struct {
	Name     string
	cmd      *exec.Cmd
	in       *bufio.Writer
	out      *bufio.Reader
	sid      int
	level    int
	declared map[string]bool
	tt       *TermTable
	Queries  int
	Time     time.Duration
	Errors   []string
	curTO    int
	log      io.Writer
	dead     bool
}

var solverSeq int

// z3Opts: the rewriter's flattening of nested products (x*x)*(x*x)... expands a chain of k
// squarings into 2^k factors and then ignores every timeout; it is switched off for the
// primary solver (GOSYM_Z3FLAT=1 restores the default).
func z3Opts() []string {
	if os.Getenv("GOSYM_Z3FLAT") == "1" {
		return nil
	}
	return []string{"rewriter.flat=false"}
}

func NewSolver(tt *TermTable, kind string, logw io.Writer) (*Solver, error) {
	var cmd *exec.Cmd
	switch kind {
	case "z3":
		cmd = exec.Command("z3", "-in")
	case "", "z3-new":
		cmd = exec.Command("z3-new", append([]string{"-in"}, z3Opts()...)...)
		kind = "z3-new"
	case "cvc5":
		cmd = exec.Command("cvc5", "--incremental", "--lang", "smt2", "--produce-models")
	default:
		return nil, fmt.Errorf("unknown solver %q", kind)
	}
	// the solver must not outlive the engine (a check-sat that ignores its
	// timeout would otherwise keep a core and gigabytes after a kill)
	cmd.SysProcAttr = &syscall.SysProcAttr{Pdeathsig: syscall.SIGKILL}
	stdin, err := cmd.StdinPipe()
	if err != nil {
		return nil, err
	}
	stdout, err := cmd.StdoutPipe()
	if err != nil {
		return nil, err
	}
	cmd.Stderr = cmd.Stdout
	if err := cmd.Start(); err != nil {
		return nil, err
	}
	solverSeq++
	s := &Solver{Name: kind, cmd: cmd, in: bufio.NewWriterSize(stdin, 1<<16), out: bufio.NewReaderSize(stdout, 1<<16),
		sid: solverSeq, declared: map[string]bool{}, tt: tt, log: logw}
	s.send("(set-option :global-declarations true)")
	if kind != "cvc5" {
		s.send("(set-option :produce-models true)")
	} else {
		s.send("(set-logic ALL)")
	}
	return s, nil
}

func (s *Solver) Close() {
	if s.dead {
		return
	}
	s.dead = true
	s.send("(exit)")
	s.in.Flush()
	done := make(chan struct{})
	go func() { s.cmd.Wait(); close(done) }()
	select {
	case <-done:
	case <-time.After(2 * time.Second):
		s.cmd.Process.Kill()
	}
}

func (s *Solver) send(line string) {
	if s.log != nil {
		fmt.Fprintln(s.log, line)
	}
	s.in.WriteString(line)
	s.in.WriteByte('\n')
}

// sync flushes and reads all output up to a marker; returns the lines.
func (s *Solver) sync() []string {
	s.send(`(echo "@@")`)
	if err := s.in.Flush(); err != nil {
		s.Errors = append(s.Errors, "solver write: "+err.Error())
		return []string{"(error \"solver pipe closed\")"}
	}
	var lines []string
	for {
		l, err := s.out.ReadString('\n')
		l = strings.TrimRight(l, "\r\n")
		if strings.Trim(l, `"`) == "@@" {
			break
		}
		if l != "" {
			lines = append(lines, l)
		}
		if err != nil {
			lines = append(lines, "(error \"solver died: "+err.Error()+"\")")
			s.Errors = append(s.Errors, "solver died")
			break
		}
	}
	for _, l := range lines {
		if strings.Contains(l, "(error") || strings.HasPrefix(l, "Error") {
			s.Errors = append(s.Errors, l)
		}
	}
	return lines
}

func (s *Solver) declSort(so Sort) {
	if so.K == SUn && !s.declared["sort:"+so.Name] {
		s.declared["sort:"+so.Name] = true
		s.send(fmt.Sprintf("(declare-sort %s 0)", so.Name))
	}
}

// define makes sure t and everything below it is known to the solver.
func (s *Solver) define(t *Term) {
	for _, n := range Topo([]*Term{t}, func(x *Term) bool { return x.emitted != nil && x.emitted[s.sid] }) {
		// leaves used by n
		for _, a := range n.args {
			s.declLeaf(a)
		}
		if n.op == OApp {
			s.declUF(n.name)
		}
		s.send(fmt.Sprintf("(define-fun t%d () %s %s)", n.id, n.sort, n.body()))
		if n.emitted == nil {
			n.emitted = map[int]bool{}
		}
		n.emitted[s.sid] = true
	}
	s.declLeaf(t)
}

func (s *Solver) declLeaf(a *Term) {
	if a.op == OVar && !s.declared["v:"+a.name] {
		s.declared["v:"+a.name] = true
		s.declSort(a.sort)
		s.send(fmt.Sprintf("(declare-const %s %s)", smtName(a.name), a.sort))
	}
}

func (s *Solver) declUF(name string) {
	if s.declared["f:"+name] {
		return
	}
	s.declared["f:"+name] = true
	sig := s.tt.UFs[name]
	var as []string
	for _, a := range sig.args {
		s.declSort(a)
		as = append(as, a.String())
	}
	s.declSort(sig.ret)
	s.send(fmt.Sprintf("(declare-fun %s (%s) %s)", smtName(name), strings.Join(as, " "), sig.ret))
}

func (s *Solver) Push() {
	s.level++
	s.send("(push 1)")
}

func (s *Solver) Pop(n int) {
	if n <= 0 {
		return
	}
	s.level -= n
	s.send(fmt.Sprintf("(pop %d)", n))
}

func (s *Solver) Level() int { return s.level }

func (s *Solver) Assert(t *Term) {
	if t.IsTrue() {
		return
	}
	s.define(t)
	s.send("(assert " + t.ref() + ")")
}

func (s *Solver) setTimeout(ms int) {
	if ms == s.curTO {
		return
	}
	s.curTO = ms
	if s.Name == "cvc5" {
		s.send(fmt.Sprintf("(set-option :tlimit-per %d)", ms))
	} else {
		s.send(fmt.Sprintf("(set-option :timeout %d)", ms))
	}
}

// Check runs check-sat under the current assertions. Result: sat | unsat | unknown | error.
func (s *Solver) Check(timeoutMs int) string {
	s.setTimeout(timeoutMs)
	s.send("(check-sat)")
	t0 := time.Now()
	// watchdog: a solver that overruns its own timeout by a minute is killed;
	// the query then reads as an error (inconclusive), never as a verdict
	wdDelay := time.Duration(timeoutMs)*time.Millisecond + 60*time.Second
	if timeoutMs <= 0 {
		wdDelay = 6 * time.Hour
	}
	wd := time.AfterFunc(wdDelay, func() {
		if s.cmd.Process != nil {
			s.cmd.Process.Kill()
		}
	})
	lines := s.sync()
	wd.Stop()
	s.Time += time.Since(t0)
	s.Queries++
	res := "error"
	for _, l := range lines {
		switch strings.TrimSpace(l) {
		case "sat", "unsat", "unknown":
			res = strings.TrimSpace(l)
		}
	}
	for _, l := range lines {
		if strings.Contains(l, "(error") {
			return "error"
		}
	}
	return res
}

// CheckWith checks the current assertions plus extra (scoped).
func (s *Solver) CheckWith(extra *Term, timeoutMs int) string {
	if extra.IsFalse() {
		return "unsat"
	}
	s.Push()
	s.Assert(extra)
	r := s.Check(timeoutMs)
	s.Pop(1)
	return r
}

// Values evaluates terms in the current model (call right after a sat Check,
// before any pop).  BV/Int/Bool values are returned as big.Int; FP as bits.
func (s *Solver) Values(ts []*Term) (map[int]*big.Int, error) {
	out := map[int]*big.Int{}
	if len(ts) == 0 {
		return out, nil
	}
	var need []*Term
	for _, t := range ts {
		if t.op == OConst || t.op == OFpConst {
			out[t.id] = t.c
			continue
		}
		s.define(t)
		need = append(need, t)
	}
	for _, t := range need {
		s.send(`(echo "@v")`)
		s.send("(get-value (" + t.ref() + "))")
	}
	lines := s.sync()
	txt := strings.Join(lines, "\n")
	parts := strings.Split(txt, "@v")
	// parts[0] is garbage before first marker
	idx := 0
	for _, p := range parts[1:] {
		p = strings.TrimSpace(strings.Trim(strings.TrimSpace(p), `"`))
		if idx >= len(need) {
			break
		}
		t := need[idx]
		idx++
		v, err := parseGetValue(p, t.sort)
		if err != nil {
			return out, fmt.Errorf("get-value %s: %v in %q", t.ref(), err, p)
		}
		out[t.id] = v
	}
	if idx != len(need) {
		return out, fmt.Errorf("get-value: expected %d answers, got %d", len(need), idx)
	}
	return out, nil
}

// parseGetValue parses "((ref value))".
func parseGetValue(s string, so Sort) (*big.Int, error) {
	toks := tokenize(s)
	// expect ( ( ref... value... ) )
	if len(toks) < 5 || toks[0] != "(" || toks[1] != "(" {
		return nil, fmt.Errorf("unexpected shape")
	}
	i := 2
	// skip the ref s-expr
	i = skipSexpr(toks, i)
	val := toks[i : len(toks)-2]
	return parseValue(val, so)
}

func tokenize(s string) []string {
	var toks []string
	i := 0
	for i < len(s) {
		c := s[i]
		switch {
		case c == ' ' || c == '\n' || c == '\t' || c == '\r':
			i++
		case c == '(' || c == ')':
			toks = append(toks, string(c))
			i++
		case c == '|':
			j := i + 1
			for j < len(s) && s[j] != '|' {
				j++
			}
			toks = append(toks, s[i:min(j+1, len(s))])
			i = j + 1
		default:
			j := i
			for j < len(s) && !strings.ContainsRune(" \n\t\r()", rune(s[j])) {
				j++
			}
			toks = append(toks, s[i:j])
			i = j
		}
	}
	return toks
}

func skipSexpr(toks []string, i int) int {
	if toks[i] != "(" {
		return i + 1
	}
	d := 0
	for ; i < len(toks); i++ {
		if toks[i] == "(" {
			d++
		} else if toks[i] == ")" {
			d--
			if d == 0 {
				return i + 1
			}
		}
	}
	return i
}

func parseValue(toks []string, so Sort) (*big.Int, error) {
	if len(toks) == 0 {
		return nil, fmt.Errorf("empty value")
	}
	t := toks[0]
	switch {
	case t == "true":
		return big.NewInt(1), nil
	case t == "false":
		return big.NewInt(0), nil
	case strings.HasPrefix(t, "#x"):
		v, ok := new(big.Int).SetString(t[2:], 16)
		if !ok {
			return nil, fmt.Errorf("bad hex")
		}
		return v, nil
	case strings.HasPrefix(t, "#b"):
		v, ok := new(big.Int).SetString(t[2:], 2)
		if !ok {
			return nil, fmt.Errorf("bad bin")
		}
		return v, nil
	case t == "(":
		if len(toks) >= 4 && toks[1] == "-" {
			v, err := parseValue(toks[2:len(toks)-1], so)
			if err != nil {
				return nil, err
			}
			return v.Neg(v), nil
		}
		if len(toks) >= 4 && toks[1] == "_" && strings.HasPrefix(toks[2], "bv") {
			v, ok := new(big.Int).SetString(toks[2][2:], 10)
			if !ok {
				return nil, fmt.Errorf("bad bv literal")
			}
			return v, nil
		}
		if len(toks) >= 5 && toks[1] == "fp" {
			sgn, _ := parseValue(toks[2:3], so)
			exp, _ := parseValue(toks[3:4], so)
			man, _ := parseValue(toks[4:5], so)
			if sgn == nil || exp == nil || man == nil {
				return nil, fmt.Errorf("bad fp")
			}
			r := new(big.Int).Lsh(sgn, 63)
			r.Or(r, new(big.Int).Lsh(exp, 52))
			r.Or(r, man)
			return r, nil
		}
		if len(toks) >= 4 && toks[1] == "_" && (toks[2] == "+zero" || toks[2] == "-zero" || toks[2] == "+oo" || toks[2] == "-oo" || toks[2] == "NaN") {
			switch toks[2] {
			case "+zero":
				return big.NewInt(0), nil
			case "-zero":
				return new(big.Int).Lsh(big.NewInt(1), 63), nil
			case "+oo":
				return new(big.Int).SetUint64(0x7ff0000000000000), nil
			case "-oo":
				return new(big.Int).SetUint64(0xfff0000000000000), nil
			default:
				return new(big.Int).SetUint64(0x7ff8000000000001), nil
			}
		}
		return nil, fmt.Errorf("unsupported value %v", toks)
	default:
		if so.K == SUn {
			// uninterpreted element: hash the name to a number
			h := int64(0)
			for _, c := range t {
				h = h*131 + int64(c)
			}
			return big.NewInt(h & 0x7fffffff), nil
		}
		v, ok := new(big.Int).SetString(t, 10)
		if !ok {
			return nil, fmt.Errorf("bad numeral %q", t)
		}
		return v, nil
	}
}

// RunStandalone feeds a complete script to a fresh solver process and returns
// the check-sat answer (used for cross-checking with a second solver).
func RunStandalone(kind, script string, timeout time.Duration) string {
	var cmd *exec.Cmd
	ms := int(timeout / time.Millisecond)
	switch kind {
	case "z3":
		cmd = exec.Command("z3", "-in", fmt.Sprintf("-t:%d", ms))
	case "z3-validate":
		// the solver checks its own model against the assertions
		cmd = exec.Command("z3", "-in", "model_validate=true", fmt.Sprintf("-t:%d", ms))
	case "z3-new":
		cmd = exec.Command("z3-new", append([]string{"-in", fmt.Sprintf("-t:%d", ms)}, z3Opts()...)...)
	case "cvc5":
		cmd = exec.Command("cvc5", "--lang", "smt2", fmt.Sprintf("--tlimit=%d", ms))
		script = "(set-logic ALL)\n" + script
	default:
		return "error"
	}
	cmd.Stdin = strings.NewReader(script)
	done := make(chan string, 1)
	go func() {
		out, _ := cmd.CombinedOutput()
		res := "error"
		txt := string(out)
		if kind == "z3-validate" && strings.Contains(txt, "invalid model") {
			done <- "invalid-model"
			return
		}
		if strings.Contains(txt, "(error") {
			done <- "error"
			return
		}
		for _, l := range strings.Split(txt, "\n") {
			switch strings.TrimSpace(l) {
			case "sat", "unsat", "unknown":
				res = strings.TrimSpace(l)
			}
		}
		if strings.Contains(txt, "timeout") || strings.Contains(txt, "interrupted") {
			if res == "error" {
				res = "unknown"
			}
		}
		done <- res
	}()
	select {
	case r := <-done:
		return r
	case <-time.After(timeout + 5*time.Second):
		if cmd.Process != nil {
			cmd.Process.Kill()
		}
		return "unknown"
	}
}

// SolveStandalone runs a fresh solver on a complete script and, when sat,
// returns the values of the wanted terms (a fallback for queries on which the
// incremental process answers unknown).
func SolveStandalone(kind string, tt *TermTable, roots []*Term, want []*Term, timeout time.Duration) (string, map[int]*big.Int) {
	script := tt.Standalone(roots)
	// make sure every wanted term is defined in the script
	extra := ""
	defined := map[int]bool{}
	for _, t := range Topo(roots, nil) {
		defined[t.id] = true
	}
	declared := map[string]bool{}
	vars, _ := VarsOf(roots)
	for _, v := range vars {
		declared[v.name] = true
	}
	var ask []*Term
	for _, w := range want {
		if w.op == OVar {
			if !declared[w.name] {
				continue // unconstrained: any value
			}
			ask = append(ask, w)
		}
	}
	_ = defined
	var sb strings.Builder
	sb.WriteString("(set-option :produce-models true)\n")
	sb.WriteString(script)
	sb.WriteString(extra)
	for _, w := range ask {
		sb.WriteString("(echo \"@v\")\n(get-value (" + w.ref() + "))\n")
	}
	var cmd *exec.Cmd
	ms := int(timeout / time.Millisecond)
	switch kind {
	case "z3":
		cmd = exec.Command("z3", "-in", fmt.Sprintf("-t:%d", ms))
	default:
		cmd = exec.Command("z3-new", append([]string{"-in", fmt.Sprintf("-t:%d", ms)}, z3Opts()...)...)
	}
	cmd.Stdin = strings.NewReader(sb.String())
	done := make(chan []byte, 1)
	go func() {
		out, _ := cmd.CombinedOutput()
		done <- out
	}()
	var out []byte
	select {
	case out = <-done:
	case <-time.After(timeout + 5*time.Second):
		if cmd.Process != nil {
			cmd.Process.Kill()
		}
		return "unknown", nil
	}
	txt := string(out)
	res := "unknown"
	first := strings.SplitN(txt, "@v", 2)[0]
	for _, l := range strings.Split(first, "\n") {
		switch strings.TrimSpace(l) {
		case "sat", "unsat":
			res = strings.TrimSpace(l)
		}
	}
	if res != "sat" {
		return res, nil
	}
	vals := map[int]*big.Int{}
	parts := strings.Split(txt, "@v")
	for i, p := range parts[1:] {
		if i >= len(ask) {
			break
		}
		p = strings.TrimSpace(strings.Trim(strings.TrimSpace(p), "\""))
		if v, err := parseGetValue(p, ask[i].sort); err == nil {
			vals[ask[i].id] = v
		}
	}
	return res, vals
}
