package gosym

// Value representation, following x/tools/go/ssa/interp's boxed scheme but
// with SMT terms as scalar leaves:
//
//   ints, bools        *Term
//   float64            float64 (concrete) or *Term of sort FP
//   string             strV
//   struct             structure  ([]Value, mutated in place through pointers)
//   array              array
//   slice              []Value    (Go slice semantics give exact aliasing/cap)
//   pointer            *Value     (or symPtr for an element at a symbolic index)
//   map                *MapObj
//   interface          iface
//   func               *ssa.Function | *ssa.Builtin | *closure | nilFunc
//   tuple              tuple
//   math/big.Int       bigV   (leaf; methods are intrinsics)
//   math/big.Float     bigFloatV

import (
	"fmt"
	"go/types"
	"math/big"
	"strings"

	"golang.org/x/tools/go/ssa"
)

type Value interface{}

type structure []Value
type array []Value
type tuple []Value

type iface struct {
	t types.Type
	v Value
}

type closure struct {
	fn  *ssa.Function
	env []Value
}

type nilFunc struct{}

type strV struct {
	b      []*Term // BV8 terms (bv mode) / Int terms (int mode)
	opaque string  // non-empty: opaque token (formatted text); content unknown
}

type bigV struct {
	t    *Term
	bits int  // |value| < 2^bits (bv mode bookkeeping); 0 for zero
	nn   bool // statically known non-negative
}

type bigFloatV struct {
	t *Term // uninterpreted sort BigFloat, or nil for zero
	f *big.Float
}

// symPtr addresses elems[idx] for a symbolic idx already known in range.
type symPtr struct {
	elems []Value
	idx   *Term
}

type bad struct{ why string } // poison

type chanV struct{ id int }

type rangeIter interface{ next() tuple }

// MapObj is an association list; keys are pairwise distinct under the path
// condition (lookups fork on aliasing).
type MapObj struct {
	list []*mapEntry
	kt   types.Type
	vt   types.Type
}

type mapEntry struct {
	k Value
	v Value
}

func (m *MapObj) ents() []*mapEntry { return m.list }

// ---------- engine-level type helpers ----------

func (e *Engine) intInfo(t types.Type) (w int, signed bool, ok bool) {
	b, isB := t.Underlying().(*types.Basic)
	if !isB {
		return 0, false, false
	}
	switch b.Kind() {
	case types.Int8:
		return 8, true, true
	case types.Int16:
		return 16, true, true
	case types.Int32:
		return 32, true, true
	case types.Int64, types.Int, types.UntypedInt, types.UntypedRune:
		return 64, true, true
	case types.Uint8:
		return 8, false, true
	case types.Uint16:
		return 16, false, true
	case types.Uint32:
		return 32, false, true
	case types.Uint64, types.Uint, types.Uintptr:
		return 64, false, true
	}
	return 0, false, false
}

func isFloat(t types.Type) bool {
	b, ok := t.Underlying().(*types.Basic)
	return ok && b.Info()&types.IsFloat != 0
}

func isString(t types.Type) bool {
	b, ok := t.Underlying().(*types.Basic)
	return ok && b.Info()&types.IsString != 0
}

func isBool(t types.Type) bool {
	b, ok := t.Underlying().(*types.Basic)
	return ok && b.Info()&types.IsBoolean != 0
}

func namedIs(t types.Type, pkg, name string) bool {
	n, ok := t.(*types.Named)
	if !ok {
		if a, ok2 := t.(*types.Alias); ok2 {
			return namedIs(types.Unalias(a), pkg, name)
		}
		return false
	}
	o := n.Obj()
	return o.Name() == name && o.Pkg() != nil && o.Pkg().Path() == pkg
}

// intConst makes a constant of Go integer type t.
func (e *Engine) intConst(t types.Type, x *big.Int) *Term {
	w, signed, ok := e.intInfo(t)
	if !ok {
		panic(fmt.Sprintf("intConst of %v", t))
	}
	if e.IntMode {
		v := normU(w, x)
		if signed {
			v = toSigned(w, v)
		}
		return e.tt.Int(v)
	}
	return e.tt.BV(w, x)
}

func (e *Engine) mkInt(t types.Type, x int64) *Term { return e.intConst(t, big.NewInt(x)) }

var tInt = types.Typ[types.Int]
var tUint64 = types.Typ[types.Uint64]
var tUint8 = types.Typ[types.Uint8]
var tBool = types.Typ[types.Bool]

func (e *Engine) goInt(x int) *Term { return e.mkInt(tInt, int64(x)) }

func (e *Engine) byteTerm(b byte) *Term { return e.mkInt(tUint8, int64(b)) }

func (e *Engine) mkStr(s string) strV {
	b := make([]*Term, len(s))
	for i := 0; i < len(s); i++ {
		b[i] = e.byteTerm(s[i])
	}
	return strV{b: b}
}

// concStr returns the concrete content of a string value.
func (e *Engine) concStr(v Value) (string, bool) {
	s, ok := v.(strV)
	if !ok {
		return "", false
	}
	if s.opaque != "" {
		return s.opaque, false
	}
	var sb strings.Builder
	for _, t := range s.b {
		if !t.IsConst() {
			return "", false
		}
		sb.WriteByte(byte(t.Uint64()))
	}
	return sb.String(), true
}

// zero returns the zero value of type t.
func (e *Engine) zero(t types.Type) Value {
	switch tt := t.(type) {
	case *types.Alias:
		return e.zero(types.Unalias(tt))
	case *types.Named:
		if namedIs(tt, "math/big", "Int") {
			return bigV{t: e.bigConst(big.NewInt(0)), nn: true}
		}
		if namedIs(tt, "math/big", "Float") {
			return bigFloatV{}
		}
		return e.zero(tt.Underlying())
	case *types.Basic:
		switch {
		case tt.Info()&types.IsBoolean != 0:
			return e.tt.Bool(false)
		case tt.Info()&types.IsInteger != 0:
			return e.mkInt(tt, 0)
		case tt.Info()&types.IsFloat != 0:
			return float64(0)
		case tt.Info()&types.IsString != 0:
			return strV{}
		case tt.Kind() == types.UnsafePointer:
			return (*Value)(nil)
		case tt.Kind() == types.UntypedNil:
			return nil
		case tt.Info()&types.IsComplex != 0:
			return bad{"complex"}
		}
		panic(fmt.Sprintf("zero: basic %v", tt))
	case *types.Pointer:
		return (*Value)(nil)
	case *types.Struct:
		s := make(structure, tt.NumFields())
		for i := range s {
			s[i] = e.zero(tt.Field(i).Type())
		}
		return s
	case *types.Array:
		n := int(tt.Len())
		a := make(array, n)
		if n > 0 {
			z := e.zero(tt.Elem())
			switch z.(type) {
			case structure, array:
				a[0] = z
				for i := 1; i < n; i++ {
					a[i] = e.zero(tt.Elem())
				}
			default:
				for i := range a {
					a[i] = z
				}
			}
		}
		return a
	case *types.Slice:
		return []Value(nil)
	case *types.Map:
		return (*MapObj)(nil)
	case *types.Chan:
		return (*chanV)(nil)
	case *types.Signature:
		return nilFunc{}
	case *types.Interface:
		return iface{}
	case *types.Tuple:
		if tt.Len() == 1 {
			return e.zero(tt.At(0).Type())
		}
		r := make(tuple, tt.Len())
		for i := range r {
			r[i] = e.zero(tt.At(i).Type())
		}
		return r
	case *types.TypeParam:
		panic(unsupported{"zero value of type parameter"})
	}
	panic(fmt.Sprintf("zero: unexpected %T %v", t, t))
}

// copyVal makes a deep copy of aggregate values (struct/array); others are
// immutable or reference-like.
func copyVal(v Value) Value {
	switch v := v.(type) {
	case structure:
		c := make(structure, len(v))
		for i, x := range v {
			c[i] = copyVal(x)
		}
		return c
	case array:
		c := make(array, len(v))
		for i, x := range v {
			c[i] = copyVal(x)
		}
		return c
	case tuple:
		return v
	}
	return v
}

// ---------- memory with undo trail ----------

type trailEntry struct {
	p   *Value
	old Value
	fn  func()
}

func (e *Engine) set(p *Value, v Value) {
	if e.trailOn {
		e.trail = append(e.trail, trailEntry{p: p, old: *p})
	}
	*p = v
}

func (e *Engine) onUndo(fn func()) {
	if e.trailOn {
		e.trail = append(e.trail, trailEntry{fn: fn})
	}
}

func (e *Engine) undoAll() {
	for i := len(e.trail) - 1; i >= 0; i-- {
		t := e.trail[i]
		if t.fn != nil {
			t.fn()
		} else {
			*t.p = t.old
		}
	}
	e.trail = e.trail[:0]
}

// store writes v (of static type T) into *addr elementwise so pointers into
// aggregates stay valid.
func (e *Engine) store(addr *Value, v Value) {
	switch v := v.(type) {
	case structure:
		lhs, ok := (*addr).(structure)
		if !ok || len(lhs) != len(v) {
			e.set(addr, copyVal(v))
			return
		}
		for i := range lhs {
			e.store(&lhs[i], v[i])
		}
	case array:
		lhs, ok := (*addr).(array)
		if !ok || len(lhs) != len(v) {
			e.set(addr, copyVal(v))
			return
		}
		for i := range lhs {
			e.store(&lhs[i], v[i])
		}
	default:
		e.set(addr, v)
	}
}

func (e *Engine) load(addr *Value) Value { return copyVal(*addr) }

// ---------- equality ----------

// equals returns a Bool term for x == y at static type t.
func (e *Engine) equals(t types.Type, x, y Value) *Term {
	switch x := x.(type) {
	case *Term:
		yt, ok := y.(*Term)
		if !ok {
			if f, isf := y.(float64); isf {
				return e.fpCmp(OFpEq, x, e.fpTerm(f))
			}
			panic(fmt.Sprintf("equals: term vs %T", y))
		}
		if x.sort.K == SFP {
			return e.fpCmp(OFpEq, x, yt)
		}
		return e.tt.Eq(x, yt)
	case float64:
		switch y := y.(type) {
		case float64:
			return e.tt.Bool(x == y)
		case *Term:
			return e.fpCmp(OFpEq, e.fpTerm(x), y)
		}
	case strV:
		ys := y.(strV)
		if x.opaque != "" || ys.opaque != "" {
			if x.opaque != "" && ys.opaque != "" && x.opaque == ys.opaque {
				return e.tt.Bool(true)
			}
			panic(unsupported{"comparison of an opaque (formatted) string"})
		}
		if len(x.b) != len(ys.b) {
			return e.tt.Bool(false)
		}
		cs := make([]*Term, len(x.b))
		for i := range x.b {
			cs[i] = e.tt.Eq(x.b[i], ys.b[i])
		}
		return e.tt.And(cs...)
	case structure:
		ys := y.(structure)
		st, _ := t.Underlying().(*types.Struct)
		var cs []*Term
		for i := range x {
			var ft types.Type
			if st != nil {
				if st.Field(i).Name() == "_" {
					continue
				}
				ft = st.Field(i).Type()
			}
			cs = append(cs, e.equals(ft, x[i], ys[i]))
		}
		return e.tt.And(cs...)
	case array:
		ya := y.(array)
		var et types.Type
		if at, ok := t.Underlying().(*types.Array); ok {
			et = at.Elem()
		}
		cs := make([]*Term, len(x))
		for i := range x {
			cs[i] = e.equals(et, x[i], ya[i])
		}
		return e.tt.And(cs...)
	case *Value:
		switch y := y.(type) {
		case *Value:
			return e.tt.Bool(x == y)
		case symPtr:
			panic(unsupported{"comparison of symbolic element pointer"})
		case nil:
			return e.tt.Bool(x == nil)
		}
	case iface:
		yi, ok := y.(iface)
		if !ok {
			panic(fmt.Sprintf("equals iface vs %T", y))
		}
		if x.t == nil || yi.t == nil {
			return e.tt.Bool(x.t == nil && yi.t == nil)
		}
		if !types.Identical(x.t, yi.t) {
			return e.tt.Bool(false)
		}
		return e.equals(x.t, x.v, yi.v)
	case *MapObj:
		if ym, ok := y.(*MapObj); ok {
			return e.tt.Bool(x == ym)
		}
	case []Value:
		// only comparison with nil is legal
		if ys, ok := y.([]Value); ok {
			return e.tt.Bool(x == nil && ys == nil)
		}
	case nilFunc:
		_, ok := y.(nilFunc)
		return e.tt.Bool(ok)
	case *ssa.Function, *closure, *ssa.Builtin:
		if _, ok := y.(nilFunc); ok {
			return e.tt.Bool(false)
		}
	case bigV:
		yb := y.(bigV)
		return e.tt.Eq(x.t, yb.t)
	case *chanV:
		if yc, ok := y.(*chanV); ok {
			return e.tt.Bool(x == yc)
		}
	case nil:
		return e.tt.Bool(y == nil)
	case bad:
		panic(unsupported{"comparison of poison value: " + x.why})
	}
	panic(fmt.Sprintf("equals: unhandled %T vs %T", x, y))
}

// describe renders a value for diagnostics / samples.
func (e *Engine) describe(v Value, depth int) string {
	if depth < 0 {
		return "…"
	}
	switch v := v.(type) {
	case *Term:
		return v.Pretty(3)
	case float64:
		return fmt.Sprint(v)
	case strV:
		if s, ok := e.concStr(v); ok {
			return fmt.Sprintf("%q", s)
		}
		return "<symbolic string>"
	case structure:
		var parts []string
		for _, x := range v {
			parts = append(parts, e.describe(x, depth-1))
		}
		return "{" + strings.Join(parts, ", ") + "}"
	case array:
		var parts []string
		for i, x := range v {
			if i >= 8 {
				parts = append(parts, "…")
				break
			}
			parts = append(parts, e.describe(x, depth-1))
		}
		return "[" + strings.Join(parts, " ") + "]"
	case []Value:
		if v == nil {
			return "nil"
		}
		var parts []string
		for i, x := range v {
			if i >= 8 {
				parts = append(parts, "…")
				break
			}
			parts = append(parts, e.describe(x, depth-1))
		}
		return "[]{" + strings.Join(parts, " ") + "}"
	case *Value:
		if v == nil {
			return "nil"
		}
		return "&" + e.describe(*v, depth-1)
	case iface:
		if v.t == nil {
			return "nil"
		}
		return fmt.Sprintf("%v(%s)", v.t, e.describe(v.v, depth-1))
	case bigV:
		return "big:" + v.t.Pretty(3)
	case nil:
		return "nil"
	}
	return fmt.Sprintf("%T", v)
}
