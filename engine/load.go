package gosym

// Loading /repo's current source (plus harness files injected by overlay),
// building SSA, and reading harness directives.

import (
	"fmt"
	"go/ast"
	"go/parser"
	"go/token"
	"os"
	"path/filepath"
	"sort"
	"strings"

	"golang.org/x/tools/go/packages"
	"golang.org/x/tools/go/ssa"
	"golang.org/x/tools/go/ssa/ssautil"
)

const ModPath = "github.com/youchainhq/go-youchain"

type Loaded struct {
	Prog      *ssa.Program
	Pkg       *ssa.Package
	Fset      *token.FileSet
	FileDirs  []dirLine            // file-level directives (legacy: unused)
	FileOf    map[string]string    // harness function -> file
	DirsOf    map[string][]dirLine // file -> file-level directives
	FuncDirs  map[string][]dirLine // per harness function
	Modes     map[string]string    // per harness function: "bv W=520" / "int"
	Overlay   map[string][]byte
	LoadTime  float64
	ReachTags map[string][]string
}

type dirLine struct {
	kind string
	args []string
}

// Load type-checks pkgPath (relative to repo, e.g. "./core") with the given
// harness files overlaid into the package directory.
func Load(repo, pkgPath string, harnessFiles []string, zzverifSrc string) (*Loaded, error) {
	overlay := map[string][]byte{}
	zsrc, err := os.ReadFile(zzverifSrc)
	if err != nil {
		return nil, err
	}
	overlay[filepath.Join(repo, "zzverif", "verif.go")] = zsrc
	L := &Loaded{FuncDirs: map[string][]dirLine{}, Modes: map[string]string{}, Overlay: overlay, ReachTags: map[string][]string{}, FileOf: map[string]string{}, DirsOf: map[string][]dirLine{}}
	pkgDir := filepath.Join(repo, pkgPath)
	for _, hf := range harnessFiles {
		src, err := os.ReadFile(hf)
		if err != nil {
			return nil, err
		}
		dst := filepath.Join(pkgDir, "zz_verif_"+filepath.Base(hf))
		overlay[dst] = src
		if err := L.parseDirectives(hf, src); err != nil {
			return nil, err
		}
	}
	cfg := &packages.Config{
		Mode:    packages.LoadAllSyntax,
		Dir:     repo,
		Overlay: overlay,
		Env:     append(os.Environ(), "GOFLAGS=-mod=mod", "GOPROXY=off", "GOSUMDB=off", "GOTOOLCHAIN=local", "CGO_ENABLED=1"),
	}
	pkgs, err := packages.Load(cfg, pkgPath)
	if err != nil {
		return nil, err
	}
	var errs []string
	packages.Visit(pkgs, nil, func(p *packages.Package) {
		for _, e := range p.Errors {
			if len(errs) < 20 {
				errs = append(errs, e.Error())
			}
		}
	})
	if len(errs) > 0 {
		return nil, fmt.Errorf("package load errors (the tree does not compile with the harness):\n%s", strings.Join(errs, "\n"))
	}
	prog, spkgs := ssautil.AllPackages(pkgs, ssa.InstantiateGenerics)
	prog.Build()
	if len(spkgs) == 0 || spkgs[0] == nil {
		return nil, fmt.Errorf("no SSA package for %s", pkgPath)
	}
	L.Prog = prog
	L.Pkg = spkgs[0]
	L.Fset = prog.Fset
	return L, nil
}

func (L *Loaded) parseDirectives(path string, src []byte) error {
	fset := token.NewFileSet()
	f, err := parser.ParseFile(fset, path, src, parser.ParseComments)
	if err != nil {
		return err
	}
	docOf := map[*ast.CommentGroup]string{}
	for _, d := range f.Decls {
		if fd, ok := d.(*ast.FuncDecl); ok && fd.Recv == nil {
			L.FileOf[fd.Name.Name] = path
			if fd.Doc != nil {
				docOf[fd.Doc] = fd.Name.Name
			}
		}
	}
	for _, cg := range f.Comments {
		fn := docOf[cg]
		for _, c := range cg.List {
			txt := strings.TrimSpace(strings.TrimPrefix(c.Text, "//"))
			if !strings.HasPrefix(txt, "verif:") {
				continue
			}
			fields := strings.Fields(strings.TrimPrefix(txt, "verif:"))
			if len(fields) == 0 {
				continue
			}
			for i := range fields {
				fields[i] = strings.ReplaceAll(fields[i], "$M", ModPath)
			}
			dl := dirLine{kind: fields[0], args: fields[1:]}
			if dl.kind == "mode" {
				if fn == "" {
					L.Modes["file:"+path] = strings.Join(dl.args, " ")
				} else {
					L.Modes[fn] = strings.Join(dl.args, " ")
				}
				continue
			}
			if fn == "" {
				L.DirsOf[path] = append(L.DirsOf[path], dl)
			} else {
				L.FuncDirs[fn] = append(L.FuncDirs[fn], dl)
			}
		}
	}
	return nil
}

// Entries lists the harness entry points (functions named zzH_*) of the package.
func (L *Loaded) Entries() []string {
	var out []string
	for name, m := range L.Pkg.Members {
		if _, ok := m.(*ssa.Function); ok && strings.HasPrefix(name, "zzH_") {
			out = append(out, name)
		}
	}
	sort.Strings(out)
	return out
}

// Configure applies directives for the entry to the engine.
func (L *Loaded) Configure(e *Engine, entry string) error {
	byName := map[string]*ssa.Function{}
	for fn := range ssautil.AllFunctions(L.Prog) {
		byName[fn.String()] = fn
	}
	apply := func(dl dirLine) error {
		switch dl.kind {
		case "replace":
			if len(dl.args) != 2 {
				return fmt.Errorf("verif:replace needs <callee> <harness func>")
			}
			if _, ok := byName[dl.args[0]]; !ok {
				return fmt.Errorf("verif:replace: no function %q in the program", dl.args[0])
			}
			tgt := L.Pkg.Func(dl.args[1])
			if tgt == nil {
				return fmt.Errorf("verif:replace: no harness function %q", dl.args[1])
			}
			e.Directives[dl.args[0]] = Directive{Kind: "replace", Target: tgt}
		case "noop", "opaque", "real":
			for _, a := range dl.args {
				if _, ok := byName[a]; !ok {
					return fmt.Errorf("verif:%s: no function %q in the program", dl.kind, a)
				}
				e.Directives[a] = Directive{Kind: dl.kind}
			}
		case "permute-maps":
			e.PermuteMaps = true
		case "entry", "native":
		default:
			return fmt.Errorf("unknown directive verif:%s", dl.kind)
		}
		return nil
	}
	// file-level directives apply to the entries declared in the same file
	for _, dl := range L.DirsOf[L.FileOf[entry]] {
		if err := apply(dl); err != nil {
			return err
		}
	}
	for _, dl := range L.FuncDirs[entry] {
		if err := apply(dl); err != nil {
			return err
		}
	}
	return nil
}

// ModeOf returns (intMode, W) for an entry.
func (L *Loaded) ModeOf(entry string) (bool, int) {
	m, ok := L.Modes[entry]
	if !ok {
		m = L.Modes["file:"+L.FileOf[entry]]
	}
	intMode := false
	w := 264
	for _, f := range strings.Fields(m) {
		switch {
		case f == "int":
			intMode = true
		case f == "bv":
		case strings.HasPrefix(f, "W="):
			fmt.Sscanf(f, "W=%d", &w)
		}
	}
	return intMode, w
}

// ReachTagsOf scans the entry and the harness helpers it can call for Reach("tag") calls.
func (L *Loaded) ReachTagsOf(entry string) []string {
	fn := L.Pkg.Func(entry)
	seen := map[*ssa.Function]bool{}
	tags := map[string]bool{}
	var visit func(f *ssa.Function)
	visit = func(f *ssa.Function) {
		if f == nil || seen[f] || f.Blocks == nil {
			return
		}
		seen[f] = true
		for _, b := range f.Blocks {
			for _, in := range b.Instrs {
				switch in := in.(type) {
				case *ssa.MakeClosure:
					visit(in.Fn.(*ssa.Function))
				}
				c, ok := in.(ssa.CallInstruction)
				if !ok {
					continue
				}
				callee := c.Common().StaticCallee()
				if callee == nil {
					continue
				}
				if callee.String() == zz+"Reach" {
					if k, ok := c.Common().Args[0].(*ssa.Const); ok {
						tags[strings.Trim(k.Value.ExactString(), `"`)] = true
					}
					continue
				}
				// follow only harness helpers (same package, zz-prefixed file or name)
				if callee.Pkg == L.Pkg {
					pos := L.Fset.Position(callee.Pos())
					if strings.Contains(filepath.Base(pos.Filename), "zz_verif_") {
						visit(callee)
					}
				}
			}
		}
	}
	visit(fn)
	var out []string
	for t := range tags {
		out = append(out, t)
	}
	sort.Strings(out)
	return out
}
