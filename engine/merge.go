package gosym

// Diamond merging: an If on a symbolic condition whose arms are side-effect
// free and re-join at one block is evaluated on all arms; the join's phis
// become ITE terms instead of forking the path.  Anything that could fork,
// panic or write memory aborts the attempt and the If forks as usual.

import (
	"go/token"
	"go/types"

	"golang.org/x/tools/go/ssa"
)

type specAbort struct{}

type specExit struct {
	guard *Term
	from  *ssa.BasicBlock
}

const mergeBlockBudget = 40

func (e *Engine) tryMerge(fr *frame, instr *ssa.If, c *Term) bool {
	if e.NoMerge || e.Concrete || e.spec > 0 {
		return false
	}
	ok := false
	var join *ssa.BasicBlock
	var exits []specExit
	func() {
		defer func() {
			if r := recover(); r != nil {
				ok = false
			}
		}()
		e.spec++
		defer func() { e.spec-- }()
		budget := mergeBlockBudget
		blk := instr.Block()
		join, exits, ok = e.specSucc(fr, blk, blk.Succs[0], c, nil, nil, &budget)
		if !ok {
			return
		}
		join, exits, ok = e.specSucc(fr, blk, blk.Succs[1], e.tt.Not(c), join, exits, &budget)
	}()
	if !ok || join == nil || len(exits) < 2 {
		return false
	}
	// merge the join's phis
	var phis []*ssa.Phi
	for _, in := range join.Instrs {
		p, isPhi := in.(*ssa.Phi)
		if !isPhi {
			break
		}
		phis = append(phis, p)
	}
	predIdx := map[*ssa.BasicBlock]int{}
	for i, p := range join.Preds {
		predIdx[p] = i
	}
	merged := make([]Value, len(phis))
	for pi, phi := range phis {
		var acc Value
		for i := len(exits) - 1; i >= 0; i-- {
			idx, found := predIdx[exits[i].from]
			if !found {
				return false
			}
			var v Value
			func() {
				defer func() {
					if r := recover(); r != nil {
						v = bad{"unavailable"}
					}
				}()
				v = fr.get(phi.Edges[idx])
			}()
			if i == len(exits)-1 {
				acc = v
				continue
			}
			m, good := e.mergeVal(exits[i].guard, v, acc)
			if !good {
				return false
			}
			acc = m
		}
		merged[pi] = acc
	}
	for pi, phi := range phis {
		fr.env[phi] = merged[pi]
	}
	fr.phiDone = join
	fr.prevBlock, fr.block = exits[0].from, join
	e.Merges++
	return true
}

func (e *Engine) mergeVal(g *Term, a, b Value) (Value, bool) {
	switch x := a.(type) {
	case *Term:
		y, ok := b.(*Term)
		if !ok || x.sort != y.sort {
			return nil, false
		}
		return e.tt.Ite(g, x, y), true
	case float64:
		y, ok := b.(float64)
		return a, ok && x == y
	case *Value:
		y, ok := b.(*Value)
		return a, ok && x == y
	case nilFunc:
		_, ok := b.(nilFunc)
		return a, ok
	case *ssa.Function:
		y, ok := b.(*ssa.Function)
		return a, ok && x == y
	case *MapObj:
		y, ok := b.(*MapObj)
		return a, ok && x == y
	case iface:
		y, ok := b.(iface)
		if !ok {
			return nil, false
		}
		if x.t == nil && y.t == nil {
			return a, true
		}
		if x.t == nil || y.t == nil || !types.Identical(x.t, y.t) {
			return nil, false
		}
		m, good := e.mergeVal(g, x.v, y.v)
		if !good {
			return nil, false
		}
		return iface{t: x.t, v: m}, true
	case bigV:
		y, ok := b.(bigV)
		if !ok {
			return nil, false
		}
		return bigV{t: e.tt.Ite(g, x.t, y.t), bits: maxi(x.bits, y.bits), nn: x.nn && y.nn}, true
	case nil:
		return nil, b == nil
	}
	return nil, false
}

// specSucc speculatively evaluates the region entered from `from` into `blk`.
func (e *Engine) specSucc(fr *frame, from, blk *ssa.BasicBlock, guard *Term, join *ssa.BasicBlock, exits []specExit, budget *int) (*ssa.BasicBlock, []specExit, bool) {
	if len(blk.Preds) != 1 {
		// a join candidate
		if join != nil && join != blk {
			return nil, nil, false
		}
		return blk, append(exits, specExit{guard: guard, from: from}), true
	}
	*budget--
	if *budget < 0 {
		return nil, nil, false
	}
	for _, in := range blk.Instrs {
		switch in := in.(type) {
		case *ssa.Phi:
			fr.env[in] = fr.get(in.Edges[0])
			continue
		case *ssa.Jump:
			return e.specSucc(fr, blk, blk.Succs[0], guard, join, exits, budget)
		case *ssa.If:
			c := fr.get(in.Cond).(*Term)
			if c.IsTrue() {
				return e.specSucc(fr, blk, blk.Succs[0], guard, join, exits, budget)
			}
			if c.IsFalse() {
				return e.specSucc(fr, blk, blk.Succs[1], guard, join, exits, budget)
			}
			var ok bool
			join, exits, ok = e.specSucc(fr, blk, blk.Succs[0], e.tt.And(guard, c), join, exits, budget)
			if !ok {
				return nil, nil, false
			}
			return e.specSucc(fr, blk, blk.Succs[1], e.tt.And(guard, e.tt.Not(c)), join, exits, budget)
		}
		if !e.specPure(fr, in) {
			return nil, nil, false
		}
		fr.curInstr = in
		e.visitInstr(fr, in)
	}
	return nil, nil, false
}

func (e *Engine) specPure(fr *frame, in ssa.Instruction) bool {
	switch in := in.(type) {
	case *ssa.DebugRef, *ssa.ChangeType, *ssa.ChangeInterface, *ssa.MakeInterface, *ssa.Extract, *ssa.Field, *ssa.TypeAssert, *ssa.Lookup:
		return true
	case *ssa.BinOp:
		switch in.Op {
		case token.QUO, token.REM:
			if _, _, isInt := e.intInfo(in.X.Type()); isInt {
				y, ok := fr.get(in.Y).(*Term)
				return ok && y.IsConst() && y.c.Sign() != 0
			}
			return true
		case token.SHL, token.SHR:
			if _, signed, _ := e.intInfo(in.Y.Type()); signed {
				y, ok := fr.get(in.Y).(*Term)
				return ok && y.IsConst()
			}
		}
		return true
	case *ssa.UnOp:
		if in.Op == token.ARROW {
			return false
		}
		if in.Op == token.MUL {
			switch p := fr.get(in.X).(type) {
			case *Value:
				if p == nil {
					return false
				}
				_, isBad := (*p).(bad)
				return !isBad
			case symPtr:
				return true
			}
			return false
		}
		return true
	case *ssa.Convert:
		_, ok1 := in.Type().Underlying().(*types.Basic)
		_, ok2 := in.X.Type().Underlying().(*types.Basic)
		return ok1 && ok2
	case *ssa.FieldAddr:
		p, ok := fr.get(in.X).(*Value)
		return ok && p != nil
	case *ssa.IndexAddr:
		idx, ok := fr.get(in.Index).(*Term)
		if !ok || !idx.IsConst() {
			return false
		}
		var n int
		switch x := fr.get(in.X).(type) {
		case []Value:
			n = len(x)
		case *Value:
			if x == nil {
				return false
			}
			a, isArr := (*x).(array)
			if !isArr {
				return false
			}
			n = len(a)
		default:
			return false
		}
		return idx.c.IsInt64() && idx.c.Int64() >= 0 && idx.c.Int64() < int64(n) && (e.IntMode || idx.c.BitLen() < 63)
	case *ssa.Index:
		idx, ok := fr.get(in.Index).(*Term)
		if !ok || !idx.IsConst() {
			return false
		}
		n := 0
		switch x := fr.get(in.X).(type) {
		case array:
			n = len(x)
		case strV:
			n = len(x.b)
		}
		return idx.c.IsInt64() && idx.c.Int64() >= 0 && idx.c.Int64() < int64(n)
	case *ssa.Call:
		if b, ok := in.Call.Value.(*ssa.Builtin); ok {
			return b.Name() == "len" || b.Name() == "cap"
		}
		if callee := in.Call.StaticCallee(); callee != nil {
			m := e.meta(callee)
			return m.pure && m.intr != nil
		}
		return false
	}
	return false
}
