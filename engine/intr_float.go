package gosym

// math/big.Float as uninterpreted terms: every operation is an uninterpreted
// function into Float64, so equal inputs give equal outputs and nothing else is
// known (enough for "prover and verifier derive the same probability").

import (
	"go/types"
	"math"
)

func (e *Engine) bfGet(v Value) *Term {
	p := v.(*Value)
	if p == nil {
		e.rtPanic("nil *big.Float")
	}
	b, ok := (*p).(bigFloatV)
	if !ok || b.t == nil {
		return e.fpTerm(0)
	}
	return b.t
}

func (e *Engine) bfSet(v Value, t *Term) Value {
	e.set(v.(*Value), bigFloatV{t: t})
	return v
}

func init() {
	reg := func(name string, f intrinsic) { intrinsics["(*math/big.Float)."+name] = f }
	intrinsics["math/big.NewFloat"] = func(e *Engine, fr *frame, a []Value) Value {
		var cell Value = bigFloatV{t: e.toFP(a[0])}
		return &cell
	}
	reg("SetUint64", func(e *Engine, fr *frame, a []Value) Value {
		return e.bfSet(a[0], e.ufApp("bigfloat.ofUint64", FPSort, []*Term{a[1].(*Term)}))
	})
	reg("SetInt64", func(e *Engine, fr *frame, a []Value) Value {
		return e.bfSet(a[0], e.ufApp("bigfloat.ofInt64", FPSort, []*Term{a[1].(*Term)}))
	})
	reg("SetInt", func(e *Engine, fr *frame, a []Value) Value {
		x := e.bigGet(a[1], "big.Float.SetInt")
		return e.bfSet(a[0], e.ufApp("bigfloat.ofInt", FPSort, []*Term{x.t}))
	})
	reg("SetFloat64", func(e *Engine, fr *frame, a []Value) Value { return e.bfSet(a[0], e.toFP(a[1])) })
	reg("Set", func(e *Engine, fr *frame, a []Value) Value { return e.bfSet(a[0], e.bfGet(a[1])) })
	for _, op := range []string{"Quo", "Sub", "Add", "Mul"} {
		op := op
		reg(op, func(e *Engine, fr *frame, a []Value) Value {
			return e.bfSet(a[0], e.ufApp("bigfloat."+op, FPSort, []*Term{e.bfGet(a[1]), e.bfGet(a[2])}))
		})
	}
	reg("Float64", func(e *Engine, fr *frame, a []Value) Value {
		return tuple{e.ufApp("bigfloat.Float64", FPSort, []*Term{e.bfGet(a[0])}), e.mkInt(types.Typ[types.Int8], 0)}
	})
	reg("Cmp", func(e *Engine, fr *frame, a []Value) Value {
		return e.ufApp("bigfloat.Cmp", e.goIntSort(), []*Term{e.bfGet(a[0]), e.bfGet(a[1])})
	})
	intrinsics[zz+"UFF64"] = func(e *Engine, fr *frame, a []Value) Value {
		return e.ufApp(e.strArg(a[0], "UF name"), FPSort, e.flatten(a[1], nil))
	}
	intrinsics[zz+"F64"] = func(e *Engine, fr *frame, a []Value) Value {
		full := e.freshName(e.strArg(a[0], "input name"))
		if e.Concrete {
			if v, ok := e.ModelIn[full]; ok {
				return math.Float64frombits(v.Uint64())
			}
			return float64(0)
		}
		v := e.tt.Var(full, FPSort)
		e.inputs = append(e.inputs, v)
		e.inputNames = append(e.inputNames, full)
		return v
	}
}

func (e *Engine) goIntSort() Sort {
	if e.IntMode {
		return IntSort
	}
	return BVSort(64)
}
