package main

import (
	"encoding/json"
	"flag"
	"fmt"
	"os"
	"runtime/pprof"
	"strings"
	"sync"
	"time"

	"gosym"
)

type output struct {
	Pkg     string               `json:"pkg"`
	Tier    string               `json:"tier"`
	LoadSec float64              `json:"load_s"`
	Entries []*gosym.EntryResult `json:"entries"`
	Error   string               `json:"error,omitempty"`
}

func main() {
	repo := flag.String("repo", "/repo", "repository root")
	pkg := flag.String("pkg", "", "package path relative to repo, e.g. ./core")
	files := flag.String("files", "", "comma-separated harness files")
	entries := flag.String("entries", "", "comma-separated entry functions (default: all zzH_*)")
	tier := flag.String("tier", "quick", "quick|thorough")
	out := flag.String("out", "", "result JSON path")
	jobs := flag.Int("j", 4, "parallel entries")
	verbose := flag.Bool("v", false, "verbose")
	zzsrc := flag.String("zzverif", "/verif/harness/zzverif/verif.go", "zzverif source")
	known := flag.String("known", "", "comma-separated open known-finding ids")
	cross := flag.String("cross", "", "comma-separated cross-check solvers (thorough)")
	tlimit := flag.Duration("timelimit", 0, "per-entry time limit")
	modelFile := flag.String("model", "", "replay: JSON file {name: hex}")
	nomerge := flag.Bool("nomerge", false, "disable diamond merging")
	nocache := flag.Bool("nomodelcache", false, "disable the model cache")
	cpuprof := flag.String("cpuprofile", "", "write CPU profile")
	flag.Parse()
	if *cpuprof != "" {
		f, _ := os.Create(*cpuprof)
		pprof.StartCPUProfile(f)
		defer pprof.StopCPUProfile()
	}

	res := &output{Pkg: *pkg, Tier: *tier}
	fail := func(err error) {
		res.Error = err.Error()
		write(*out, res)
		fmt.Fprintln(os.Stderr, "gosym:", err)
		os.Exit(2)
	}
	t0 := time.Now()
	L, err := gosym.Load(*repo, *pkg, strings.Split(*files, ","), *zzsrc)
	if err != nil {
		fail(err)
	}
	res.LoadSec = time.Since(t0).Seconds()
	var ents []string
	if *entries != "" {
		ents = strings.Split(*entries, ",")
	} else {
		ents = L.Entries()
	}
	opts := gosym.RunOpts{Tier: *tier, Verbose: *verbose, Known: map[string]bool{}, TimeLimit: *tlimit, NoMerge: *nomerge, NoModelCache: *nocache}
	for _, k := range strings.Split(*known, ",") {
		if k != "" {
			opts.Known[k] = true
		}
	}
	for _, c := range strings.Split(*cross, ",") {
		if c != "" {
			opts.Cross = append(opts.Cross, c)
		}
	}
	if *modelFile != "" {
		b, err := os.ReadFile(*modelFile)
		if err != nil {
			fail(err)
		}
		var m struct {
			Model map[string]string `json:"model"`
		}
		if err := json.Unmarshal(b, &m); err != nil {
			fail(err)
		}
		opts.Model = m.Model
	}
	results := make([]*gosym.EntryResult, len(ents))
	errs := make([]error, len(ents))
	sem := make(chan struct{}, *jobs)
	var wg sync.WaitGroup
	for i, en := range ents {
		wg.Add(1)
		go func(i int, en string) {
			defer wg.Done()
			sem <- struct{}{}
			defer func() { <-sem }()
			defer func() {
				if r := recover(); r != nil {
					errs[i] = fmt.Errorf("engine crash in %s: %v", en, r)
				}
			}()
			results[i], errs[i] = gosym.RunEntry(L, en, opts)
		}(i, en)
	}
	wg.Wait()
	code := 0
	// a Reach tag declared in a shared helper counts as hit when any entry of this run hit it
	hitAny := map[string]bool{}
	for _, r := range results {
		if r != nil {
			for t, n := range r.ReachHit {
				if n > 0 {
					hitAny[t] = true
				}
			}
		}
	}
	for _, r := range results {
		if r != nil {
			var miss []string
			for _, t := range r.ReachMissing {
				if !hitAny[t] {
					miss = append(miss, t)
				}
			}
			r.ReachMissing = miss
		}
	}
	for i, r := range results {
		if errs[i] != nil {
			res.Error += errs[i].Error() + "\n"
			fmt.Fprintln(os.Stderr, "gosym:", errs[i])
			code = 2
			continue
		}
		res.Entries = append(res.Entries, r)
		if len(r.Inconclusive) > 0 || len(r.ReachMissing) > 0 {
			if code == 0 {
				code = 2
			}
		}
		if len(r.Violations) > 0 {
			code = 1
		}
		fmt.Fprintf(os.Stderr, "%s: %d paths, %d/%d obligations discharged, %d violations, %d known, %d inconclusive, reach-missing %v, %.1fs (solver %.1fs, %d queries)\n",
			r.Entry, r.Paths, r.Discharged, r.Obligations, len(r.Violations), len(r.Known), len(r.Inconclusive), r.ReachMissing, r.WallSec, r.SolverSec, r.Queries)
		for _, v := range r.Violations {
			fmt.Fprintf(os.Stderr, "  VIOLATION %s [%s] %s at %s\n", r.Entry, v.Label, v.Message, v.Where)
		}
		for _, s := range r.Inconclusive {
			fmt.Fprintf(os.Stderr, "  INCONCLUSIVE %s: %s\n", r.Entry, s)
		}
	}
	write(*out, res)
	if *cpuprof != "" {
		pprof.StopCPUProfile()
	}
	os.Exit(code)
}

func write(path string, res *output) {
	b, _ := json.MarshalIndent(res, "", " ")
	if path == "" {
		return
	}
	os.WriteFile(path, b, 0644)
}
