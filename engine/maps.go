package gosym

// Maps as association lists.  A lookup whose key is not syntactically decided
// against an entry forks on key aliasing (explore.chooseAmong).

import (
	"fmt"
	"go/types"

	"golang.org/x/tools/go/ssa"
)

// mapFind returns the index of the entry equal to key, or -1.
func (e *Engine) mapFind(m *MapObj, key Value) int {
	if m == nil {
		return -1
	}
	var conds []*Term
	var idxs []int
	none := e.tt.Bool(true)
	for i, en := range m.list {
		c := e.equals(m.kt, key, en.k)
		if c.IsTrue() {
			return i
		}
		if c.IsFalse() {
			continue
		}
		conds = append(conds, c)
		idxs = append(idxs, i)
		none = e.tt.And(none, e.tt.Not(c))
	}
	if len(conds) == 0 {
		return -1
	}
	conds = append(conds, none)
	idxs = append(idxs, -1)
	k := e.chooseAmong(conds, "map key aliasing")
	return idxs[k]
}

func (e *Engine) mapInsert(m *MapObj, key, val Value) {
	i := e.mapFind(m, key)
	if i >= 0 {
		en := m.list[i]
		old := en.v
		e.onUndo(func() { en.v = old })
		en.v = copyVal(val)
		return
	}
	old := m.list
	e.onUndo(func() { m.list = old })
	nl := make([]*mapEntry, len(old), len(old)+1)
	copy(nl, old)
	m.list = append(nl, &mapEntry{k: copyVal(key), v: copyVal(val)})
}

func (e *Engine) mapDelete(m *MapObj, key Value) {
	i := e.mapFind(m, key)
	if i < 0 {
		return
	}
	old := m.list
	e.onUndo(func() { m.list = old })
	nl := make([]*mapEntry, 0, len(old)-1)
	nl = append(nl, old[:i]...)
	nl = append(nl, old[i+1:]...)
	m.list = nl
}

func (e *Engine) doLookup(fr *frame, instr *ssa.Lookup) Value {
	x := fr.get(instr.X)
	switch x := x.(type) {
	case strV:
		if x.opaque != "" {
			panic(unsupported{"index of opaque string"})
		}
		idx := fr.get(instr.Index).(*Term)
		k, conc := e.indexCheck(idx, instr.Index.Type(), len(x.b))
		if conc {
			return x.b[k]
		}
		res := x.b[len(x.b)-1]
		for i := len(x.b) - 2; i >= 0; i-- {
			res = e.tt.Ite(e.tt.Eq(idx, e.sameSortConst(idx, int64(i))), x.b[i], res)
		}
		return res
	case *MapObj:
		key := fr.get(instr.Index)
		i := e.mapFind(x, key)
		var v Value
		ok := i >= 0
		if ok {
			v = copyVal(x.list[i].v)
		} else {
			v = e.zero(instr.X.Type().Underlying().(*types.Map).Elem())
		}
		if instr.CommaOk {
			return tuple{v, e.tt.Bool(ok)}
		}
		return v
	case bad:
		panic(unsupported{"lookup in poison value: " + x.why})
	}
	panic(fmt.Sprintf("lookup in %T", x))
}

// ---------- range ----------

type mapIter struct {
	e    *Engine
	m    *MapObj
	snap []*mapEntry
	i    int
}

func (it *mapIter) next() tuple {
	for it.i < len(it.snap) {
		en := it.snap[it.i]
		it.i++
		// skip entries deleted since the range began
		present := false
		for _, c := range it.m.list {
			if c == en {
				present = true
				break
			}
		}
		if present {
			return tuple{it.e.tt.Bool(true), en.k, copyVal(en.v)}
		}
	}
	return tuple{it.e.tt.Bool(false), nil, nil}
}

type strIter struct {
	e *Engine
	s strV
	i int
}

func (it *strIter) next() tuple {
	if it.i >= len(it.s.b) {
		return tuple{it.e.tt.Bool(false), it.e.goInt(0), it.e.mkInt(types.Typ[types.Int32], 0)}
	}
	b := it.s.b[it.i]
	if !b.IsConst() || b.Uint64() >= 0x80 {
		panic(unsupported{"range over non-ASCII/symbolic string"})
	}
	i := it.i
	it.i++
	return tuple{it.e.tt.Bool(true), it.e.goInt(i), it.e.mkInt(types.Typ[types.Int32], int64(b.Uint64()))}
}

func (e *Engine) rangeIter(x Value, t types.Type) rangeIter {
	switch x := x.(type) {
	case *MapObj:
		if x == nil {
			return &mapIter{e: e, m: &MapObj{}}
		}
		snap := append([]*mapEntry(nil), x.list...)
		if e.PermuteMaps && len(snap) > 1 && len(snap) <= e.PermuteMax {
			snap = e.permute(snap)
		}
		return &mapIter{e: e, m: x, snap: snap}
	case strV:
		if x.opaque != "" {
			panic(unsupported{"range over opaque string"})
		}
		return &strIter{e: e, s: x}
	}
	panic(fmt.Sprintf("range over %T", x))
}

// permute picks (by forking) one permutation of the entries.
func (e *Engine) permute(snap []*mapEntry) []*mapEntry {
	out := make([]*mapEntry, 0, len(snap))
	rest := append([]*mapEntry(nil), snap...)
	for len(rest) > 1 {
		k := e.chooseFree(len(rest), "map iteration order")
		out = append(out, rest[k])
		rest = append(rest[:k:k], rest[k+1:]...)
	}
	return append(out, rest[0])
}
