package gosym

// A minimal model of reflect.Value / reflect.Type: just enough to execute the
// rlp package's leaf decoders and writers (decodeBigInt, decodeUint, decodeBool,
// decodeString, decodeByteSlice, decodeByteArray, writeUint, ...) on values the
// harness makes addressable with reflect.ValueOf(&x).Elem().  Anything else
// stays unsupported.

import (
	"fmt"
	"go/types"
)

type reflV struct {
	p *Value // location of the value
	t types.Type
}

type reflTypeV struct{ t types.Type }

func (e *Engine) rv(v Value, what string) reflV {
	r, ok := v.(reflV)
	if !ok {
		panic(unsupported{fmt.Sprintf("reflect.Value.%s on a value the model did not create (%T)", what, v)})
	}
	return r
}

func (e *Engine) rtypeIface(t types.Type) Value {
	pkg := e.prog.ImportedPackage("reflect")
	if pkg == nil || pkg.Type("rtype") == nil {
		panic(unsupported{"reflect package not loaded"})
	}
	return iface{t: types.NewPointer(pkg.Type("rtype").Object().Type()), v: reflTypeV{t}}
}

func init() {
	intrinsics["reflect.ValueOf"] = func(e *Engine, fr *frame, a []Value) Value {
		i := a[0].(iface)
		if i.t == nil {
			panic(unsupported{"reflect.ValueOf(nil)"})
		}
		var cell Value = copyVal(i.v)
		return reflV{p: &cell, t: i.t}
	}
	rm := func(name string, f intrinsic) { intrinsics["(reflect.Value)."+name] = f }
	rm("Elem", func(e *Engine, fr *frame, a []Value) Value {
		r := e.rv(a[0], "Elem")
		pt, ok := r.t.Underlying().(*types.Pointer)
		if !ok {
			panic(unsupported{"reflect.Value.Elem of non-pointer"})
		}
		q, _ := (*r.p).(*Value)
		if q == nil {
			e.rtPanic("reflect: Elem of nil pointer")
		}
		return reflV{p: q, t: pt.Elem()}
	})
	rm("Addr", func(e *Engine, fr *frame, a []Value) Value {
		r := e.rv(a[0], "Addr")
		var cell Value = r.p
		return reflV{p: &cell, t: types.NewPointer(r.t)}
	})
	rm("Interface", func(e *Engine, fr *frame, a []Value) Value {
		r := e.rv(a[0], "Interface")
		return iface{t: r.t, v: copyVal(*r.p)}
	})
	rm("Set", func(e *Engine, fr *frame, a []Value) Value {
		r, x := e.rv(a[0], "Set"), e.rv(a[1], "Set")
		e.store(r.p, copyVal(*x.p))
		return nil
	})
	rm("SetUint", func(e *Engine, fr *frame, a []Value) Value {
		r := e.rv(a[0], "SetUint")
		w, signed, ok := e.intInfo(r.t)
		if !ok {
			panic(unsupported{"reflect.Value.SetUint on " + r.t.String()})
		}
		e.store(r.p, e.convInt(a[1].(*Term), 64, false, w, signed))
		return nil
	})
	rm("Uint", func(e *Engine, fr *frame, a []Value) Value {
		r := e.rv(a[0], "Uint")
		w, signed, ok := e.intInfo(r.t)
		if !ok {
			panic(unsupported{"reflect.Value.Uint on " + r.t.String()})
		}
		return e.convInt((*r.p).(*Term), w, signed, 64, false)
	})
	rm("SetBool", func(e *Engine, fr *frame, a []Value) Value { e.store(e.rv(a[0], "SetBool").p, a[1]); return nil })
	rm("Bool", func(e *Engine, fr *frame, a []Value) Value { return *e.rv(a[0], "Bool").p })
	rm("SetString", func(e *Engine, fr *frame, a []Value) Value { e.store(e.rv(a[0], "SetString").p, a[1]); return nil })
	rm("String", func(e *Engine, fr *frame, a []Value) Value { return *e.rv(a[0], "String").p })
	rm("SetBytes", func(e *Engine, fr *frame, a []Value) Value { e.store(e.rv(a[0], "SetBytes").p, a[1]); return nil })
	rm("Bytes", func(e *Engine, fr *frame, a []Value) Value {
		r := e.rv(a[0], "Bytes")
		switch v := (*r.p).(type) {
		case []Value:
			return v
		case array:
			return []Value(v)
		}
		panic(unsupported{"reflect.Value.Bytes on " + r.t.String()})
	})
	rm("Len", func(e *Engine, fr *frame, a []Value) Value { return e.goInt(e.sliceLen(*e.rv(a[0], "Len").p)) })
	rm("Index", func(e *Engine, fr *frame, a []Value) Value {
		r := e.rv(a[0], "Index")
		i := int(e.intArg(a[1], "reflect index"))
		switch v := (*r.p).(type) {
		case array:
			return reflV{p: &v[i], t: r.t.Underlying().(*types.Array).Elem()}
		case []Value:
			return reflV{p: &v[i], t: r.t.Underlying().(*types.Slice).Elem()}
		}
		panic(unsupported{"reflect.Value.Index on " + r.t.String()})
	})
	rm("Slice", func(e *Engine, fr *frame, a []Value) Value {
		r := e.rv(a[0], "Slice")
		lo, hi := int(e.intArg(a[1], "reflect slice bound")), int(e.intArg(a[2], "reflect slice bound"))
		var el []Value
		var et types.Type
		switch v := (*r.p).(type) {
		case array:
			el, et = []Value(v), r.t.Underlying().(*types.Array).Elem()
		case []Value:
			el, et = v, r.t.Underlying().(*types.Slice).Elem()
		default:
			panic(unsupported{"reflect.Value.Slice on " + r.t.String()})
		}
		var cell Value = el[lo:hi]
		return reflV{p: &cell, t: types.NewSlice(et)}
	})
	rm("Type", func(e *Engine, fr *frame, a []Value) Value { return e.rtypeIface(e.rv(a[0], "Type").t) })
	rm("CanAddr", func(e *Engine, fr *frame, a []Value) Value { return e.tt.Bool(true) })
	rm("IsNil", func(e *Engine, fr *frame, a []Value) Value {
		r := e.rv(a[0], "IsNil")
		switch v := (*r.p).(type) {
		case *Value:
			return e.tt.Bool(v == nil)
		case []Value:
			return e.tt.Bool(v == nil)
		case *MapObj:
			return e.tt.Bool(v == nil)
		case iface:
			return e.tt.Bool(v.t == nil)
		}
		panic(unsupported{"reflect.Value.IsNil on " + r.t.String()})
	})
	intrinsics["reflect.TypeOf"] = func(e *Engine, fr *frame, a []Value) Value {
		i := a[0].(iface)
		if i.t == nil {
			panic(unsupported{"reflect.TypeOf(nil)"})
		}
		return e.rtypeIface(i.t)
	}
	rtOf := func(e *Engine, v Value, what string) types.Type {
		if i, ok := v.(iface); ok {
			v = i.v
		}
		r, ok := v.(reflTypeV)
		if !ok {
			panic(unsupported{"reflect." + what + " on a type the model did not create"})
		}
		return r.t
	}
	intrinsics["(*reflect.rtype).Elem"] = func(e *Engine, fr *frame, a []Value) Value {
		switch t := rtOf(e, a[0], "Type.Elem").Underlying().(type) {
		case *types.Pointer:
			return e.rtypeIface(t.Elem())
		case *types.Slice:
			return e.rtypeIface(t.Elem())
		case *types.Array:
			return e.rtypeIface(t.Elem())
		}
		panic(unsupported{"reflect.Type.Elem of this kind"})
	}
	intrinsics["reflect.Zero"] = func(e *Engine, fr *frame, a []Value) Value {
		t := rtOf(e, a[0], "Zero")
		var cell Value = e.zero(t)
		return reflV{p: &cell, t: t}
	}
	intrinsics["reflect.New"] = func(e *Engine, fr *frame, a []Value) Value {
		t := rtOf(e, a[0], "New")
		target := new(Value)
		*target = e.zero(t)
		var cell Value = target
		return reflV{p: &cell, t: types.NewPointer(t)}
	}
	intrinsics["(*reflect.rtype).Bits"] = func(e *Engine, fr *frame, a []Value) Value {
		t := a[0].(reflTypeV).t
		w, _, ok := e.intInfo(t)
		if !ok {
			panic(unsupported{"reflect.Type.Bits on " + t.String()})
		}
		return e.goInt(w)
	}
	intrinsics["(*reflect.rtype).String"] = func(e *Engine, fr *frame, a []Value) Value {
		return strV{opaque: "reflect.Type.String"}
	}
}
