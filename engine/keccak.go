package gosym

// Keccak-256 (legacy padding 0x01) computed by the engine on concrete bytes, so
// that constants such as emptyCodeHash / emptyRoot are the real values.

import "math/bits"

var keccakRC = [24]uint64{
	0x0000000000000001, 0x0000000000008082, 0x800000000000808A, 0x8000000080008000,
	0x000000000000808B, 0x0000000080000001, 0x8000000080008081, 0x8000000000008009,
	0x000000000000008A, 0x0000000000000088, 0x0000000080008009, 0x000000008000000A,
	0x000000008000808B, 0x800000000000008B, 0x8000000000008089, 0x8000000000008003,
	0x8000000000008002, 0x8000000000000080, 0x000000000000800A, 0x800000008000000A,
	0x8000000080008081, 0x8000000000008080, 0x0000000080000001, 0x8000000080008008,
}

var keccakRot = [25]int{0, 1, 62, 28, 27, 36, 44, 6, 55, 20, 3, 10, 43, 25, 39, 41, 45, 15, 21, 8, 18, 2, 61, 56, 14}

func keccakF(a *[25]uint64) {
	for r := 0; r < 24; r++ {
		var c [5]uint64
		for x := 0; x < 5; x++ {
			c[x] = a[x] ^ a[x+5] ^ a[x+10] ^ a[x+15] ^ a[x+20]
		}
		for x := 0; x < 5; x++ {
			d := c[(x+4)%5] ^ bits.RotateLeft64(c[(x+1)%5], 1)
			for y := 0; y < 25; y += 5 {
				a[x+y] ^= d
			}
		}
		var b [25]uint64
		for x := 0; x < 5; x++ {
			for y := 0; y < 5; y++ {
				b[y+5*((2*x+3*y)%5)] = bits.RotateLeft64(a[x+5*y], keccakRot[x+5*y])
			}
		}
		for y := 0; y < 25; y += 5 {
			for x := 0; x < 5; x++ {
				a[x+y] = b[x+y] ^ (^b[(x+1)%5+y] & b[(x+2)%5+y])
			}
		}
		a[0] ^= keccakRC[r]
	}
}

func keccak256(data []byte) [32]byte {
	const rate = 136
	var st [25]uint64
	buf := append(append([]byte{}, data...), 0x01)
	for len(buf)%rate != 0 {
		buf = append(buf, 0)
	}
	buf[len(buf)-1] |= 0x80
	for off := 0; off < len(buf); off += rate {
		for i := 0; i < rate/8; i++ {
			var w uint64
			for j := 0; j < 8; j++ {
				w |= uint64(buf[off+8*i+j]) << (8 * uint(j))
			}
			st[i] ^= w
		}
		keccakF(&st)
	}
	var out [32]byte
	for i := 0; i < 4; i++ {
		for j := 0; j < 8; j++ {
			out[8*i+j] = byte(st[i] >> (8 * uint(j)))
		}
	}
	return out
}
