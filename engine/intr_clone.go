package gosym

// zzverif.DeepCopy / zzverif.Restore: a structural deep copy of a value graph
// in the executor's memory model.  Harnesses use it to model a serialisation
// round trip as the identity on the whole object (stated as an assumption).

func (e *Engine) deepClone(v Value, memo map[*Value]*Value, mm map[*MapObj]*MapObj) Value {
	switch v := v.(type) {
	case nil:
		return nil
	case structure:
		c := make(structure, len(v))
		for i, x := range v {
			c[i] = e.deepClone(x, memo, mm)
		}
		return c
	case array:
		c := make(array, len(v))
		for i, x := range v {
			c[i] = e.deepClone(x, memo, mm)
		}
		return c
	case tuple:
		c := make(tuple, len(v))
		for i, x := range v {
			c[i] = e.deepClone(x, memo, mm)
		}
		return c
	case []Value:
		if v == nil {
			return v
		}
		c := make([]Value, len(v), cap(v))
		for i, x := range v {
			c[i] = e.deepClone(x, memo, mm)
		}
		return c
	case *Value:
		if v == nil {
			return v
		}
		if n, ok := memo[v]; ok {
			return n
		}
		n := new(Value)
		memo[v] = n
		*n = e.deepClone(*v, memo, mm)
		return n
	case *MapObj:
		if v == nil {
			return v
		}
		if n, ok := mm[v]; ok {
			return n
		}
		n := &MapObj{kt: v.kt, vt: v.vt}
		mm[v] = n
		for _, ent := range v.list {
			n.list = append(n.list, &mapEntry{k: e.deepClone(ent.k, memo, mm), v: e.deepClone(ent.v, memo, mm)})
		}
		return n
	case iface:
		return iface{t: v.t, v: e.deepClone(v.v, memo, mm)}
	case symPtr:
		panic(unsupported{"deep copy through a pointer at a symbolic index"})
	}
	// scalars, strings, big numbers, functions: immutable leaves
	return v
}

func init() {
	intrinsics[zz+"DeepCopy"] = func(e *Engine, fr *frame, a []Value) Value {
		x, ok := a[0].(iface)
		if !ok {
			return a[0]
		}
		return iface{t: x.t, v: e.deepClone(x.v, map[*Value]*Value{}, map[*MapObj]*MapObj{})}
	}
	// Restore(dst, src): *dst = deep copy of *src (src a pointer) or of src (src a value)
	intrinsics[zz+"Restore"] = func(e *Engine, fr *frame, a []Value) Value {
		d, _ := a[0].(iface)
		s, _ := a[1].(iface)
		dp, ok := d.v.(*Value)
		if !ok || dp == nil {
			panic(unsupported{"zzverif.Restore: destination is not a non-nil pointer"})
		}
		var src Value = s.v
		if sp, ok := s.v.(*Value); ok && sp != nil {
			src = *sp
		}
		// a list of interface values restored into a struct goes field by field (the codec's
		// positional mapping between an encoded []interface{}{...} and the struct decoded from it)
		if list, ok := src.([]Value); ok {
			if st, ok := (*dp).(structure); ok && len(list) > 0 {
				if _, isIface := list[0].(iface); isIface {
					if len(list) != len(st) {
						panic(unsupported{"zzverif.Restore: list and struct have different lengths"})
					}
					for i := range st {
						el, _ := list[i].(iface)
						e.store(&st[i], e.deepClone(el.v, map[*Value]*Value{}, map[*MapObj]*MapObj{}))
					}
					return nil
				}
			}
		}
		e.store(dp, e.deepClone(src, map[*Value]*Value{}, map[*MapObj]*MapObj{}))
		return nil
	}
}
