package gosym

import (
	"encoding/hex"
	"testing"
)

func TestKeccak(t *testing.T) {
	h := keccak256(nil)
	if hex.EncodeToString(h[:]) != "c5d2460186f7233c927e7db2dcc703c0e500b653ca82273b7bfad8045d85a470" {
		t.Fatal(hex.EncodeToString(h[:]))
	}
	h = keccak256([]byte("abc"))
	if hex.EncodeToString(h[:]) != "4e03657aea45a94fc7d47ba826c8d667c0d1e6e33a64a036ec44f58fa12d6c45" {
		t.Fatal(hex.EncodeToString(h[:]))
	}
}
