package gosym

// Hash-consed SMT term layer with constant folding.  Sorts: Bool, BitVec(w),
// Int, FP64 (Float64), uninterpreted.  Every engine instance owns one table.

import (
	"fmt"
	"math/big"
	"sort"
	"strings"
	"sync"
)

type SortKind uint8

const (
	SBool SortKind = iota
	SBV
	SInt
	SFP // Float64
	SUn // uninterpreted sort
)

type Sort struct {
	K    SortKind
	W    int
	Name string
}

func (s Sort) String() string {
	switch s.K {
	case SBool:
		return "Bool"
	case SBV:
		return fmt.Sprintf("(_ BitVec %d)", s.W)
	case SInt:
		return "Int"
	case SFP:
		return "(_ FloatingPoint 11 53)"
	}
	return s.Name
}

var BoolSort = Sort{K: SBool}
var IntSort = Sort{K: SInt}
var FPSort = Sort{K: SFP}

func BVSort(w int) Sort { return Sort{K: SBV, W: w} }

type Op uint8

const (
	OConst Op = iota
	OVar
	ONot
	OAnd
	OOr
	OIte
	OEq
	// bit-vector
	OBvAdd
	OBvSub
	OBvMul
	OBvUDiv
	OBvURem
	OBvSDiv
	OBvSRem
	OBvAnd
	OBvOr
	OBvXor
	OBvNot
	OBvNeg
	OBvShl
	OBvLshr
	OBvAshr
	OBvUlt
	OBvUle
	OBvSlt
	OBvSle
	OConcat
	OExtract
	OZExt
	OSExt
	// integer
	OAdd
	OSub
	OMul
	ODiv
	OMod
	ONeg
	OLt
	OLe
	OAbs
	// uninterpreted application
	OApp
	// floating point (Float64 only)
	OFpOfUBV // to_fp_unsigned RNE bv
	OFpOfSBV // to_fp RNE bv (signed)
	OFpMul   // fp.mul RNE
	OFpAdd   // fp.add RNE
	OFpSub   // fp.sub RNE
	OFpDiv   // fp.div RNE
	OFpLt    // fp.lt
	OFpLe    // fp.leq
	OFpEq    // fp.eq
	OFpToUBV // fp.to_ubv w RTZ
	OFpToSBV // fp.to_sbv w RTZ
	OFpRTZ   // fp.roundToIntegral RTZ
	OFpOfInt // to_fp RNE (to_real int)
	OFpConst // constant, bits in c
	OFpNeg
	OBv2Nat
	OInt2Bv
)

var opNames = map[Op]string{
	ONot: "not", OAnd: "and", OOr: "or", OIte: "ite", OEq: "=",
	OBvAdd: "bvadd", OBvSub: "bvsub", OBvMul: "bvmul", OBvUDiv: "bvudiv", OBvURem: "bvurem",
	OBvSDiv: "bvsdiv", OBvSRem: "bvsrem", OBvAnd: "bvand", OBvOr: "bvor", OBvXor: "bvxor",
	OBvNot: "bvnot", OBvNeg: "bvneg", OBvShl: "bvshl", OBvLshr: "bvlshr", OBvAshr: "bvashr",
	OBvUlt: "bvult", OBvUle: "bvule", OBvSlt: "bvslt", OBvSle: "bvsle", OConcat: "concat",
	OAdd: "+", OSub: "-", OMul: "*", ODiv: "div", OMod: "mod", ONeg: "-", OLt: "<", OLe: "<=", OAbs: "abs",
	OFpMul: "fp.mul RNE", OFpAdd: "fp.add RNE", OFpSub: "fp.sub RNE", OFpDiv: "fp.div RNE",
	OFpLt: "fp.lt", OFpLe: "fp.leq", OFpEq: "fp.eq", OFpRTZ: "fp.roundToIntegral RTZ", OFpNeg: "fp.neg",
	OBv2Nat: "bv2nat",
}

type Term struct {
	id      int
	op      Op
	sort    Sort
	args    []*Term
	c       *big.Int     // constants: BV unsigned value, Int value, Bool 0/1, FP bits
	name    string       // variable / UF name
	i1      int          // extract hi / extension amount / to_bv width
	i2      int          // extract lo
	emitted map[int]bool // solver ids where define-fun was emitted
}

func (t *Term) Sort() Sort    { return t.sort }
func (t *Term) IsConst() bool { return t.op == OConst }
func (t *Term) IsTrue() bool  { return t.op == OConst && t.sort.K == SBool && t.c.Sign() != 0 }
func (t *Term) IsFalse() bool { return t.op == OConst && t.sort.K == SBool && t.c.Sign() == 0 }

// Uint64 returns the constant value (low 64 bits).
func (t *Term) Uint64() uint64 { return new(big.Int).And(t.c, mask(64)).Uint64() }

type TermTable struct {
	tab    map[termKey]*Term
	nextID int
	tru    *Term
	fls    *Term
	Vars   map[string]*Term // declared variables by name
	UFs    map[string]ufSig
	exMemo map[[3]int]*Term // Extract(hi, lo, term id) results (sinking through shared sub-DAGs)
}

type ufSig struct {
	args []Sort
	ret  Sort
}

func NewTermTable() *TermTable {
	tt := &TermTable{tab: map[termKey]*Term{}, Vars: map[string]*Term{}, UFs: map[string]ufSig{}}
	tt.tru = tt.mk(&Term{op: OConst, sort: BoolSort, c: big.NewInt(1)})
	tt.fls = tt.mk(&Term{op: OConst, sort: BoolSort, c: big.NewInt(0)})
	return tt
}

var maskCache sync.Map

func mask(w int) *big.Int {
	if m, ok := maskCache.Load(w); ok {
		return m.(*big.Int)
	}
	m := new(big.Int).Lsh(big.NewInt(1), uint(w))
	m.Sub(m, big.NewInt(1))
	maskCache.Store(w, m)
	return m
}

func pow2(w int) *big.Int { return new(big.Int).Lsh(big.NewInt(1), uint(w)) }

func normU(w int, x *big.Int) *big.Int {
	if x.Sign() >= 0 && x.BitLen() <= w {
		return x
	}
	return new(big.Int).And(x, mask(w)) // big.Int And uses two's complement for negatives
}

func toSigned(w int, x *big.Int) *big.Int {
	if x.Bit(w-1) == 1 {
		return new(big.Int).Sub(x, pow2(w))
	}
	return x
}

type termKey struct {
	op         Op
	k          SortKind
	w          int32
	i1, i2     int32
	n          int32
	a0, a1, a2 int32
	c0         uint64
	s          string
}

func (tt *TermTable) key(t *Term) termKey {
	k := termKey{op: t.op, k: t.sort.K, w: int32(t.sort.W), i1: int32(t.i1), i2: int32(t.i2), n: int32(len(t.args)), a0: -1, a1: -1, a2: -1}
	s := t.name
	if t.sort.K == SUn {
		s += "\x00" + t.sort.Name
	}
	if t.c != nil {
		if t.c.IsUint64() {
			k.c0 = t.c.Uint64()
			k.n |= 1 << 20
		} else {
			s += "\x01" + t.c.Text(62)
		}
	}
	switch len(t.args) {
	case 0:
	case 1:
		k.a0 = int32(t.args[0].id)
	case 2:
		k.a0, k.a1 = int32(t.args[0].id), int32(t.args[1].id)
	case 3:
		k.a0, k.a1, k.a2 = int32(t.args[0].id), int32(t.args[1].id), int32(t.args[2].id)
	default:
		b := make([]byte, 0, 4*len(t.args)+len(s)+1)
		b = append(b, s...)
		b = append(b, 2)
		for _, a := range t.args {
			b = append(b, byte(a.id), byte(a.id>>8), byte(a.id>>16), byte(a.id>>24))
		}
		s = string(b)
	}
	k.s = s
	return k
}

func (tt *TermTable) mk(t *Term) *Term {
	k := tt.key(t)
	if e, ok := tt.tab[k]; ok {
		return e
	}
	t.id = tt.nextID
	tt.nextID++
	tt.tab[k] = t
	return t
}

// ---------- constructors ----------

func (tt *TermTable) Bool(b bool) *Term {
	if b {
		return tt.tru
	}
	return tt.fls
}

func (tt *TermTable) BV(w int, x *big.Int) *Term {
	return tt.mk(&Term{op: OConst, sort: BVSort(w), c: normU(w, x)})
}
func (tt *TermTable) BVu(w int, x uint64) *Term {
	return tt.BV(w, new(big.Int).SetUint64(x))
}
func (tt *TermTable) BVi(w int, x int64) *Term {
	return tt.BV(w, big.NewInt(x))
}
func (tt *TermTable) Int(x *big.Int) *Term {
	return tt.mk(&Term{op: OConst, sort: IntSort, c: new(big.Int).Set(x)})
}
func (tt *TermTable) Inti(x int64) *Term { return tt.Int(big.NewInt(x)) }

func (tt *TermTable) Var(name string, s Sort) *Term {
	t := tt.mk(&Term{op: OVar, sort: s, name: name})
	tt.Vars[name] = t
	return t
}

func (tt *TermTable) Not(a *Term) *Term {
	if a.IsConst() {
		return tt.Bool(a.c.Sign() == 0)
	}
	if a.op == ONot {
		return a.args[0]
	}
	return tt.mk(&Term{op: ONot, sort: BoolSort, args: []*Term{a}})
}

func (tt *TermTable) And(xs ...*Term) *Term {
	var out []*Term
	seen := map[int]bool{}
	for _, x := range xs {
		if x.IsFalse() {
			return tt.fls
		}
		if x.IsTrue() || seen[x.id] {
			continue
		}
		if x.op == OAnd {
			for _, y := range x.args {
				if !seen[y.id] {
					seen[y.id] = true
					out = append(out, y)
				}
			}
			continue
		}
		seen[x.id] = true
		out = append(out, x)
	}
	for _, x := range out {
		if x.op == ONot && seen[x.args[0].id] {
			return tt.fls
		}
	}
	switch len(out) {
	case 0:
		return tt.tru
	case 1:
		return out[0]
	}
	return tt.mk(&Term{op: OAnd, sort: BoolSort, args: out})
}

func (tt *TermTable) Or(xs ...*Term) *Term {
	var out []*Term
	seen := map[int]bool{}
	for _, x := range xs {
		if x.IsTrue() {
			return tt.tru
		}
		if x.IsFalse() || seen[x.id] {
			continue
		}
		if x.op == OOr {
			for _, y := range x.args {
				if !seen[y.id] {
					seen[y.id] = true
					out = append(out, y)
				}
			}
			continue
		}
		seen[x.id] = true
		out = append(out, x)
	}
	for _, x := range out {
		if x.op == ONot && seen[x.args[0].id] {
			return tt.tru
		}
	}
	switch len(out) {
	case 0:
		return tt.fls
	case 1:
		return out[0]
	}
	return tt.mk(&Term{op: OOr, sort: BoolSort, args: out})
}

func (tt *TermTable) Implies(a, b *Term) *Term { return tt.Or(tt.Not(a), b) }

func (tt *TermTable) Ite(c, a, b *Term) *Term {
	if c.IsTrue() {
		return a
	}
	if c.IsFalse() {
		return b
	}
	if a == b {
		return a
	}
	if a.sort != b.sort {
		panic(fmt.Sprintf("ite sort mismatch %v vs %v", a.sort, b.sort))
	}
	if a.sort.K == SBool {
		if a.IsTrue() && b.IsFalse() {
			return c
		}
		if a.IsFalse() && b.IsTrue() {
			return tt.Not(c)
		}
		if a.IsTrue() {
			return tt.Or(c, b)
		}
		if a.IsFalse() {
			return tt.And(tt.Not(c), b)
		}
		if b.IsTrue() {
			return tt.Or(tt.Not(c), a)
		}
		if b.IsFalse() {
			return tt.And(c, a)
		}
	}
	if c.op == ONot {
		return tt.Ite(c.args[0], b, a)
	}
	return tt.mk(&Term{op: OIte, sort: a.sort, args: []*Term{c, a, b}})
}

func (tt *TermTable) Eq(a, b *Term) *Term {
	if a == b {
		return tt.tru
	}
	if a.sort != b.sort {
		panic(fmt.Sprintf("eq sort mismatch %v vs %v", a.sort, b.sort))
	}
	if a.IsConst() && b.IsConst() {
		return tt.Bool(a.c.Cmp(b.c) == 0)
	}
	if a.sort.K == SBool {
		if a.IsTrue() {
			return b
		}
		if b.IsTrue() {
			return a
		}
		if a.IsFalse() {
			return tt.Not(b)
		}
		if b.IsFalse() {
			return tt.Not(a)
		}
	}
	// eq(ite(c,k1,k2), k) with constants
	if b.IsConst() && a.op == OIte && (a.args[1].IsConst() || a.args[2].IsConst()) {
		return tt.Ite(a.args[0], tt.Eq(a.args[1], b), tt.Eq(a.args[2], b))
	}
	if a.IsConst() && b.op == OIte && (b.args[1].IsConst() || b.args[2].IsConst()) {
		return tt.Ite(b.args[0], tt.Eq(b.args[1], a), tt.Eq(b.args[2], a))
	}
	// zext(x) == const
	if b.IsConst() && a.op == OZExt {
		inner := a.args[0]
		if b.c.BitLen() > inner.sort.W {
			return tt.fls
		}
		return tt.Eq(inner, tt.BV(inner.sort.W, b.c))
	}
	if a.IsConst() && b.op == OZExt {
		return tt.Eq(b, a)
	}
	if a.id > b.id {
		a, b = b, a
	}
	return tt.mk(&Term{op: OEq, sort: BoolSort, args: []*Term{a, b}})
}

// constLeaves returns the number of leaves if t is an ite-tree whose leaves are all
// constants (0 otherwise).
func constLeaves(t *Term, budget int) int {
	if t.IsConst() {
		return 1
	}
	if t.op != OIte || budget <= 0 {
		return 0
	}
	l := constLeaves(t.args[1], budget-1)
	if l == 0 {
		return 0
	}
	r := constLeaves(t.args[2], budget-1)
	if r == 0 {
		return 0
	}
	return l + r
}

// MapConstIte applies f to every constant leaf of an ite-tree of constants.
func (tt *TermTable) MapConstIte(t *Term, f func(*Term) *Term) *Term {
	if t.IsConst() {
		return f(t)
	}
	return tt.Ite(t.args[0], tt.MapConstIte(t.args[1], f), tt.MapConstIte(t.args[2], f))
}

// liftBin distributes a binary operation over ite-trees of constants (keeps loop
// indexes that were merged from concrete values as trees of constants).
func (tt *TermTable) liftBin(a, b *Term, f func(x, y *Term) *Term) *Term {
	if a.IsConst() && b.IsConst() {
		return nil
	}
	la, lb := constLeaves(a, 5), constLeaves(b, 5)
	if la == 0 || lb == 0 || la*lb > 24 {
		return nil
	}
	return tt.MapConstIte(a, func(x *Term) *Term {
		return tt.MapConstIte(b, func(y *Term) *Term { return f(x, y) })
	})
}

// BvBin builds a binary bit-vector operation (arith/logic returning BV).
func (tt *TermTable) BvBin(op Op, a, b *Term) *Term {
	if a.sort != b.sort || a.sort.K != SBV {
		panic(fmt.Sprintf("bv op %s sort mismatch %v vs %v", opNames[op], a.sort, b.sort))
	}
	w := a.sort.W
	if a.IsConst() && b.IsConst() {
		x, y := a.c, b.c
		r := new(big.Int)
		switch op {
		case OBvAdd:
			r.Add(x, y)
		case OBvSub:
			r.Sub(x, y)
		case OBvMul:
			r.Mul(x, y)
		case OBvUDiv:
			if y.Sign() == 0 {
				r.Set(mask(w))
			} else {
				r.Quo(x, y)
			}
		case OBvURem:
			if y.Sign() == 0 {
				r.Set(x)
			} else {
				r.Rem(x, y)
			}
		case OBvSDiv:
			sx, sy := toSigned(w, x), toSigned(w, y)
			if sy.Sign() == 0 {
				if sx.Sign() >= 0 {
					r.Set(mask(w))
				} else {
					r.SetInt64(1)
				}
			} else {
				r.Quo(sx, sy)
			}
		case OBvSRem:
			sx, sy := toSigned(w, x), toSigned(w, y)
			if sy.Sign() == 0 {
				r.Set(sx)
			} else {
				r.Rem(sx, sy)
			}
		case OBvAnd:
			r.And(x, y)
		case OBvOr:
			r.Or(x, y)
		case OBvXor:
			r.Xor(x, y)
		case OBvShl:
			if y.Cmp(big.NewInt(int64(w))) >= 0 {
				r.SetInt64(0)
			} else {
				r.Lsh(x, uint(y.Uint64()))
			}
		case OBvLshr:
			if y.Cmp(big.NewInt(int64(w))) >= 0 {
				r.SetInt64(0)
			} else {
				r.Rsh(x, uint(y.Uint64()))
			}
		case OBvAshr:
			sx := toSigned(w, x)
			if y.Cmp(big.NewInt(int64(w))) >= 0 {
				if sx.Sign() < 0 {
					r.SetInt64(-1)
				} else {
					r.SetInt64(0)
				}
			} else {
				r.Rsh(sx, uint(y.Uint64()))
			}
		default:
			panic("bvbin fold")
		}
		return tt.BV(w, r)
	}
	if (a.op == OIte || b.op == OIte) && op != OBvUDiv && op != OBvURem && op != OBvSDiv && op != OBvSRem {
		if r := tt.liftBin(a, b, func(x, y *Term) *Term { return tt.BvBin(op, x, y) }); r != nil {
			return r
		}
	}
	// algebraic simplifications
	switch op {
	case OBvAdd:
		if a.IsConst() && a.c.Sign() == 0 {
			return b
		}
		if b.IsConst() && b.c.Sign() == 0 {
			return a
		}
		// (x + c1) + c2
		if b.IsConst() && a.op == OBvAdd && a.args[1].IsConst() {
			return tt.BvBin(OBvAdd, a.args[0], tt.BV(w, new(big.Int).Add(a.args[1].c, b.c)))
		}
		if a.IsConst() {
			a, b = b, a
		}
	case OBvSub:
		if b.IsConst() && b.c.Sign() == 0 {
			return a
		}
		if a == b {
			return tt.BV(w, big.NewInt(0))
		}
		if b.IsConst() {
			return tt.BvBin(OBvAdd, a, tt.BV(w, new(big.Int).Neg(b.c)))
		}
	case OBvMul:
		if a.IsConst() {
			a, b = b, a
		}
		if b.IsConst() {
			if b.c.Sign() == 0 {
				return b
			}
			if b.c.Cmp(big.NewInt(1)) == 0 {
				return a
			}
		}
	case OBvAnd:
		if a.IsConst() {
			a, b = b, a
		}
		if b.IsConst() {
			if b.c.Sign() == 0 {
				return b
			}
			if b.c.Cmp(mask(w)) == 0 {
				return a
			}
			// and with low mask of a zero-extended value that already fits
			if a.op == OZExt && new(big.Int).And(b.c, mask(a.args[0].sort.W)).Cmp(mask(a.args[0].sort.W)) == 0 {
				return a
			}
			// x & (2^k-1)  ==  zero_extend(extract[k-1:0] x)   (lets the extract sink into + - *)
			if k, ok := lowMaskBits(b.c); ok && k > 0 && k < w {
				return tt.ZExt(w-k, tt.Extract(k-1, 0, a))
			}
		}
		if a == b {
			return a
		}
	case OBvOr:
		if a.IsConst() {
			a, b = b, a
		}
		if b.IsConst() {
			if b.c.Sign() == 0 {
				return a
			}
			if b.c.Cmp(mask(w)) == 0 {
				return b
			}
		}
		if a == b {
			return a
		}
	case OBvXor:
		if a.IsConst() {
			a, b = b, a
		}
		if b.IsConst() && b.c.Sign() == 0 {
			return a
		}
		if a == b {
			return tt.BV(w, big.NewInt(0))
		}
	case OBvShl, OBvLshr, OBvAshr:
		if b.IsConst() && b.c.Sign() == 0 {
			return a
		}
		if a.IsConst() && a.c.Sign() == 0 {
			return a
		}
		if b.IsConst() && op != OBvAshr && b.c.Cmp(big.NewInt(int64(w))) >= 0 {
			return tt.BV(w, big.NewInt(0))
		}
	case OBvUDiv:
		if b.IsConst() && b.c.Cmp(big.NewInt(1)) == 0 {
			return a
		}
	}
	return tt.mk(&Term{op: op, sort: a.sort, args: []*Term{a, b}})
}

func (tt *TermTable) BvCmp(op Op, a, b *Term) *Term {
	if a.sort != b.sort || a.sort.K != SBV {
		panic(fmt.Sprintf("bv cmp %s sort mismatch %v vs %v", opNames[op], a.sort, b.sort))
	}
	w := a.sort.W
	if a.IsConst() && b.IsConst() {
		switch op {
		case OBvUlt:
			return tt.Bool(a.c.Cmp(b.c) < 0)
		case OBvUle:
			return tt.Bool(a.c.Cmp(b.c) <= 0)
		case OBvSlt:
			return tt.Bool(toSigned(w, a.c).Cmp(toSigned(w, b.c)) < 0)
		case OBvSle:
			return tt.Bool(toSigned(w, a.c).Cmp(toSigned(w, b.c)) <= 0)
		}
	}
	if a == b {
		return tt.Bool(op == OBvUle || op == OBvSle)
	}
	if a.op == OIte || b.op == OIte {
		if r := tt.liftBin(a, b, func(x, y *Term) *Term { return tt.BvCmp(op, x, y) }); r != nil {
			return r
		}
	}
	switch op {
	case OBvUlt:
		if b.IsConst() && b.c.Sign() == 0 {
			return tt.fls
		}
		if a.IsConst() && a.c.Cmp(mask(w)) == 0 {
			return tt.fls
		}
	case OBvUle:
		if a.IsConst() && a.c.Sign() == 0 {
			return tt.tru
		}
		if b.IsConst() && b.c.Cmp(mask(w)) == 0 {
			return tt.tru
		}
	}
	// comparison of an ite with constant arms against a constant: push inside
	if b.IsConst() && a.op == OIte && (a.args[1].IsConst() || a.args[2].IsConst()) {
		return tt.Ite(a.args[0], tt.BvCmp(op, a.args[1], b), tt.BvCmp(op, a.args[2], b))
	}
	if a.IsConst() && b.op == OIte && (b.args[1].IsConst() || b.args[2].IsConst()) {
		return tt.Ite(b.args[0], tt.BvCmp(op, a, b.args[1]), tt.BvCmp(op, a, b.args[2]))
	}
	// signed comparison of two values whose sign bit is known to be clear is unsigned
	if op == OBvSlt || op == OBvSle {
		nonneg := func(t *Term) bool {
			return (t.op == OZExt && t.i1 >= 1) || (t.IsConst() && t.c.Bit(w-1) == 0)
		}
		if nonneg(a) && nonneg(b) {
			if op == OBvSlt {
				return tt.BvCmp(OBvUlt, a, b)
			}
			return tt.BvCmp(OBvUle, a, b)
		}
	}
	// comparisons of zero-extended values against constants / each other
	if op == OBvUlt || op == OBvUle {
		if a.op == OZExt && b.op == OZExt && a.args[0].sort == b.args[0].sort {
			return tt.BvCmp(op, a.args[0], b.args[0])
		}
		if a.op == OZExt && b.IsConst() {
			iw := a.args[0].sort.W
			if b.c.BitLen() > iw {
				return tt.tru
			}
			return tt.BvCmp(op, a.args[0], tt.BV(iw, b.c))
		}
		if b.op == OZExt && a.IsConst() {
			iw := b.args[0].sort.W
			if a.c.BitLen() > iw {
				return tt.fls
			}
			return tt.BvCmp(op, tt.BV(iw, a.c), b.args[0])
		}
	}
	return tt.mk(&Term{op: op, sort: BoolSort, args: []*Term{a, b}})
}

func (tt *TermTable) BvNot(a *Term) *Term {
	if a.IsConst() {
		return tt.BV(a.sort.W, new(big.Int).Xor(a.c, mask(a.sort.W)))
	}
	if a.op == OBvNot {
		return a.args[0]
	}
	return tt.mk(&Term{op: OBvNot, sort: a.sort, args: []*Term{a}})
}

func (tt *TermTable) BvNeg(a *Term) *Term {
	if a.IsConst() {
		return tt.BV(a.sort.W, new(big.Int).Neg(a.c))
	}
	return tt.mk(&Term{op: OBvNeg, sort: a.sort, args: []*Term{a}})
}

func (tt *TermTable) Extract(hi, lo int, a *Term) *Term {
	w := a.sort.W
	if hi >= w || lo < 0 || hi < lo {
		panic(fmt.Sprintf("extract %d %d of width %d", hi, lo, w))
	}
	if lo == 0 && hi == w-1 {
		return a
	}
	nw := hi - lo + 1
	if a.IsConst() {
		return tt.BV(nw, new(big.Int).Rsh(a.c, uint(lo)))
	}
	if len(a.args) > 0 {
		if tt.exMemo == nil {
			tt.exMemo = map[[3]int]*Term{}
		}
		k := [3]int{a.id, hi, lo}
		if r, ok := tt.exMemo[k]; ok {
			return r
		}
		r := tt.extract1(hi, lo, nw, w, a)
		tt.exMemo[k] = r
		return r
	}
	return tt.extract1(hi, lo, nw, w, a)
}

func (tt *TermTable) extract1(hi, lo, nw, w int, a *Term) *Term {
	switch a.op {
	case OExtract:
		return tt.Extract(hi+a.i2, lo+a.i2, a.args[0])
	case OZExt:
		iw := a.args[0].sort.W
		if hi < iw {
			return tt.Extract(hi, lo, a.args[0])
		}
		if lo >= iw {
			return tt.BV(nw, big.NewInt(0))
		}
		return tt.ZExt(hi-iw+1, tt.Extract(iw-1, lo, a.args[0]))
	case OSExt:
		iw := a.args[0].sort.W
		if hi < iw {
			return tt.Extract(hi, lo, a.args[0])
		}
	case OConcat:
		lw := a.args[1].sort.W
		if hi < lw {
			return tt.Extract(hi, lo, a.args[1])
		}
		if lo >= lw {
			return tt.Extract(hi-lw, lo-lw, a.args[0])
		}
		return tt.Concat(tt.Extract(hi-lw, 0, a.args[0]), tt.Extract(lw-1, lo, a.args[1]))
	case OBvAnd, OBvOr, OBvXor:
		return tt.BvBin(a.op, tt.Extract(hi, lo, a.args[0]), tt.Extract(hi, lo, a.args[1]))
	case OBvNot:
		return tt.BvNot(tt.Extract(hi, lo, a.args[0]))
	case OBvAdd, OBvSub, OBvMul:
		if lo == 0 {
			return tt.BvBin(a.op, tt.Extract(hi, 0, a.args[0]), tt.Extract(hi, 0, a.args[1]))
		}
	case OBvShl:
		// extract of (x << k) with constant k
		if a.args[1].IsConst() {
			k := int(a.args[1].c.Int64())
			if lo >= k {
				return tt.Extract(hi-k, lo-k, a.args[0])
			}
			if hi < k {
				return tt.BV(nw, big.NewInt(0))
			}
		}
	case OBvLshr:
		if a.args[1].IsConst() {
			k := int(a.args[1].c.Int64())
			if hi+k < w {
				return tt.Extract(hi+k, lo+k, a.args[0])
			}
			if lo+k >= w {
				return tt.BV(nw, big.NewInt(0))
			}
		}
	case OIte:
		// always through constant arms; a word-sized low part of a wide (big-number) value also
		// sinks through arbitrary arms, so that a ring projection of a long product chain is built
		// at the narrow width
		if a.args[1].IsConst() || a.args[2].IsConst() || (lo == 0 && nw <= 64 && w >= 256) {
			return tt.Ite(a.args[0], tt.Extract(hi, lo, a.args[1]), tt.Extract(hi, lo, a.args[2]))
		}
	}
	return tt.mk(&Term{op: OExtract, sort: BVSort(nw), args: []*Term{a}, i1: hi, i2: lo})
}

func (tt *TermTable) ZExt(n int, a *Term) *Term {
	if n == 0 {
		return a
	}
	if n < 0 {
		panic("zext negative")
	}
	if a.IsConst() {
		return tt.BV(a.sort.W+n, a.c)
	}
	if a.op == OZExt {
		return tt.ZExt(n+a.i1, a.args[0])
	}
	return tt.mk(&Term{op: OZExt, sort: BVSort(a.sort.W + n), args: []*Term{a}, i1: n})
}

func (tt *TermTable) SExt(n int, a *Term) *Term {
	if n == 0 {
		return a
	}
	if a.IsConst() {
		return tt.BV(a.sort.W+n, toSigned(a.sort.W, a.c))
	}
	if a.op == OSExt {
		return tt.SExt(n+a.i1, a.args[0])
	}
	if a.op == OZExt {
		// sign bit is known zero
		return tt.ZExt(n+a.i1, a.args[0])
	}
	return tt.mk(&Term{op: OSExt, sort: BVSort(a.sort.W + n), args: []*Term{a}, i1: n})
}

func (tt *TermTable) Concat(a, b *Term) *Term {
	if a.IsConst() && b.IsConst() {
		r := new(big.Int).Lsh(a.c, uint(b.sort.W))
		r.Or(r, b.c)
		return tt.BV(a.sort.W+b.sort.W, r)
	}
	if a.IsConst() && a.c.Sign() == 0 {
		return tt.ZExt(a.sort.W, b)
	}
	// concat(extract(h,m+1,x), extract(m,l,x)) = extract(h,l,x)
	if a.op == OExtract && b.op == OExtract && a.args[0] == b.args[0] && a.i2 == b.i1+1 {
		return tt.Extract(a.i1, b.i2, a.args[0])
	}
	return tt.mk(&Term{op: OConcat, sort: BVSort(a.sort.W + b.sort.W), args: []*Term{a, b}})
}

// Resize changes the width of a BV term (truncate, or zero/sign extend).
func (tt *TermTable) Resize(a *Term, w int, signed bool) *Term {
	aw := a.sort.W
	switch {
	case w == aw:
		return a
	case w < aw:
		return tt.Extract(w-1, 0, a)
	case signed:
		return tt.SExt(w-aw, a)
	}
	return tt.ZExt(w-aw, a)
}

// ---------- Int ----------

func (tt *TermTable) IntBin(op Op, a, b *Term) *Term {
	if a.sort.K != SInt || b.sort.K != SInt {
		panic(fmt.Sprintf("int op %s on %v, %v", opNames[op], a.sort, b.sort))
	}
	if a.IsConst() && b.IsConst() {
		r := new(big.Int)
		switch op {
		case OAdd:
			r.Add(a.c, b.c)
		case OSub:
			r.Sub(a.c, b.c)
		case OMul:
			r.Mul(a.c, b.c)
		case ODiv: // SMT-LIB: Euclidean
			if b.c.Sign() == 0 {
				return tt.mk(&Term{op: op, sort: IntSort, args: []*Term{a, b}})
			}
			r.Div(a.c, b.c)
		case OMod:
			if b.c.Sign() == 0 {
				return tt.mk(&Term{op: op, sort: IntSort, args: []*Term{a, b}})
			}
			r.Mod(a.c, b.c)
		}
		return tt.Int(r)
	}
	switch op {
	case OAdd:
		if a.IsConst() && a.c.Sign() == 0 {
			return b
		}
		if b.IsConst() && b.c.Sign() == 0 {
			return a
		}
	case OSub:
		if b.IsConst() && b.c.Sign() == 0 {
			return a
		}
		if a == b {
			return tt.Inti(0)
		}
	case OMul:
		if a.IsConst() {
			a, b = b, a
		}
		if b.IsConst() {
			if b.c.Sign() == 0 {
				return b
			}
			if b.c.Cmp(big.NewInt(1)) == 0 {
				return a
			}
		}
	case ODiv:
		if b.IsConst() && b.c.Cmp(big.NewInt(1)) == 0 {
			return a
		}
	}
	return tt.mk(&Term{op: op, sort: IntSort, args: []*Term{a, b}})
}

func (tt *TermTable) IntNeg(a *Term) *Term {
	if a.IsConst() {
		return tt.Int(new(big.Int).Neg(a.c))
	}
	return tt.mk(&Term{op: ONeg, sort: IntSort, args: []*Term{a}})
}

func (tt *TermTable) IntAbs(a *Term) *Term {
	if a.IsConst() {
		return tt.Int(new(big.Int).Abs(a.c))
	}
	return tt.mk(&Term{op: OAbs, sort: IntSort, args: []*Term{a}})
}

func (tt *TermTable) IntCmp(op Op, a, b *Term) *Term {
	if a.IsConst() && b.IsConst() {
		if op == OLt {
			return tt.Bool(a.c.Cmp(b.c) < 0)
		}
		return tt.Bool(a.c.Cmp(b.c) <= 0)
	}
	if a == b {
		return tt.Bool(op == OLe)
	}
	if b.IsConst() && a.op == OIte && (a.args[1].IsConst() || a.args[2].IsConst()) {
		return tt.Ite(a.args[0], tt.IntCmp(op, a.args[1], b), tt.IntCmp(op, a.args[2], b))
	}
	if a.IsConst() && b.op == OIte && (b.args[1].IsConst() || b.args[2].IsConst()) {
		return tt.Ite(b.args[0], tt.IntCmp(op, a, b.args[1]), tt.IntCmp(op, a, b.args[2]))
	}
	return tt.mk(&Term{op: op, sort: BoolSort, args: []*Term{a, b}})
}

// App builds an uninterpreted function application.
func (tt *TermTable) App(name string, ret Sort, args ...*Term) *Term {
	if _, ok := tt.UFs[name]; !ok {
		sig := ufSig{ret: ret}
		for _, a := range args {
			sig.args = append(sig.args, a.sort)
		}
		tt.UFs[name] = sig
	} else {
		sig := tt.UFs[name]
		if len(sig.args) != len(args) || sig.ret != ret {
			panic("UF " + name + " used with different signatures")
		}
		for i, a := range args {
			if sig.args[i] != a.sort {
				panic("UF " + name + " used with different argument sorts")
			}
		}
	}
	return tt.mk(&Term{op: OApp, sort: ret, name: name, args: append([]*Term(nil), args...)})
}

// Generic unary/binary node for FP and conversions (no folding).
func (tt *TermTable) Raw(op Op, s Sort, i1 int, args ...*Term) *Term {
	return tt.mk(&Term{op: op, sort: s, i1: i1, args: append([]*Term(nil), args...)})
}

func (tt *TermTable) FPConst(bits uint64) *Term {
	return tt.mk(&Term{op: OFpConst, sort: FPSort, c: new(big.Int).SetUint64(bits)})
}

// ---------- printing ----------

func smtName(s string) string {
	ok := true
	for _, r := range s {
		if !(r >= 'a' && r <= 'z' || r >= 'A' && r <= 'Z' || r >= '0' && r <= '9' || r == '_' || r == '.' || r == '!' || r == '$') {
			ok = false
			break
		}
	}
	if ok && s != "" {
		return s
	}
	return "|" + strings.NewReplacer("|", "_", "\\", "_").Replace(s) + "|"
}

func constText(t *Term) string {
	switch t.sort.K {
	case SBool:
		if t.c.Sign() != 0 {
			return "true"
		}
		return "false"
	case SBV:
		if t.sort.W%4 == 0 {
			s := t.c.Text(16)
			return "#x" + strings.Repeat("0", t.sort.W/4-len(s)) + s
		}
		s := t.c.Text(2)
		return "#b" + strings.Repeat("0", t.sort.W-len(s)) + s
	case SInt:
		if t.c.Sign() < 0 {
			return "(- " + new(big.Int).Neg(t.c).String() + ")"
		}
		return t.c.String()
	}
	panic("constText")
}

// ref returns how a term is referenced inside other terms.
func (t *Term) ref() string {
	switch t.op {
	case OConst:
		return constText(t)
	case OVar:
		return smtName(t.name)
	case OFpConst:
		b := t.c.Uint64()
		return fmt.Sprintf("(fp #b%01b #b%011b #x%013x)", b>>63, (b>>52)&0x7ff, b&((1<<52)-1))
	}
	return fmt.Sprintf("t%d", t.id)
}

// body prints the definition body of a non-leaf term, referencing args by ref.
func (t *Term) body() string {
	var sb strings.Builder
	args := func() {
		for _, a := range t.args {
			sb.WriteByte(' ')
			sb.WriteString(a.ref())
		}
		sb.WriteByte(')')
	}
	switch t.op {
	case OExtract:
		fmt.Fprintf(&sb, "((_ extract %d %d)", t.i1, t.i2)
		args()
	case OZExt:
		fmt.Fprintf(&sb, "((_ zero_extend %d)", t.i1)
		args()
	case OSExt:
		fmt.Fprintf(&sb, "((_ sign_extend %d)", t.i1)
		args()
	case OApp:
		if len(t.args) == 0 {
			return smtName(t.name)
		}
		sb.WriteString("(" + smtName(t.name))
		args()
	case OFpOfUBV:
		sb.WriteString("((_ to_fp_unsigned 11 53) RNE")
		args()
	case OFpOfSBV:
		sb.WriteString("((_ to_fp 11 53) RNE")
		args()
	case OFpOfInt:
		fmt.Fprintf(&sb, "((_ to_fp 11 53) RNE (to_real %s))", t.args[0].ref())
	case OFpToUBV:
		fmt.Fprintf(&sb, "((_ fp.to_ubv %d) RTZ", t.i1)
		args()
	case OFpToSBV:
		fmt.Fprintf(&sb, "((_ fp.to_sbv %d) RTZ", t.i1)
		args()
	case OInt2Bv:
		fmt.Fprintf(&sb, "((_ int2bv %d)", t.i1)
		args()
	default:
		n, ok := opNames[t.op]
		if !ok {
			panic(fmt.Sprintf("no printer for op %d", t.op))
		}
		sb.WriteString("(" + n)
		args()
	}
	return sb.String()
}

// Topo returns the non-leaf terms reachable from roots in dependency order.
func Topo(roots []*Term, skip func(*Term) bool) []*Term {
	var out []*Term
	seen := map[int]bool{}
	var visit func(t *Term)
	visit = func(t *Term) {
		if seen[t.id] {
			return
		}
		seen[t.id] = true
		if t.op == OConst || t.op == OVar || t.op == OFpConst {
			return
		}
		if skip != nil && skip(t) {
			return
		}
		for _, a := range t.args {
			visit(a)
		}
		out = append(out, t)
	}
	for _, r := range roots {
		visit(r)
	}
	return out
}

// VarsOf collects variables and UF names used by the roots.
func VarsOf(roots []*Term) (vars []*Term, ufs []string) {
	seen := map[int]bool{}
	ufset := map[string]bool{}
	var visit func(t *Term)
	visit = func(t *Term) {
		if seen[t.id] {
			return
		}
		seen[t.id] = true
		if t.op == OVar {
			vars = append(vars, t)
		}
		if t.op == OApp {
			ufset[t.name] = true
		}
		for _, a := range t.args {
			visit(a)
		}
	}
	for _, r := range roots {
		visit(r)
	}
	sort.Slice(vars, func(i, j int) bool { return vars[i].id < vars[j].id })
	for n := range ufset {
		ufs = append(ufs, n)
	}
	sort.Strings(ufs)
	return
}

// Standalone renders a self-contained SMT-LIB2 script asserting all roots.
func (tt *TermTable) Standalone(roots []*Term) string {
	var sb strings.Builder
	vars, ufs := VarsOf(roots)
	sorts := map[string]bool{}
	decl := func(s Sort) {
		if s.K == SUn && !sorts[s.Name] {
			sorts[s.Name] = true
			fmt.Fprintf(&sb, "(declare-sort %s 0)\n", s.Name)
		}
	}
	for _, v := range vars {
		decl(v.sort)
	}
	for _, n := range ufs {
		sig := tt.UFs[n]
		for _, a := range sig.args {
			decl(a)
		}
		decl(sig.ret)
	}
	for _, v := range vars {
		fmt.Fprintf(&sb, "(declare-const %s %s)\n", smtName(v.name), v.sort)
	}
	for _, n := range ufs {
		sig := tt.UFs[n]
		var as []string
		for _, a := range sig.args {
			as = append(as, a.String())
		}
		fmt.Fprintf(&sb, "(declare-fun %s (%s) %s)\n", smtName(n), strings.Join(as, " "), sig.ret)
	}
	for _, t := range Topo(roots, nil) {
		fmt.Fprintf(&sb, "(define-fun t%d () %s %s)\n", t.id, t.sort, t.body())
	}
	for _, r := range roots {
		fmt.Fprintf(&sb, "(assert %s)\n", r.ref())
	}
	sb.WriteString("(check-sat)\n")
	return sb.String()
}

// Pretty prints a term inline (for diagnostics; may be large).
func (t *Term) Pretty(depth int) string {
	switch t.op {
	case OConst, OVar, OFpConst:
		return t.ref()
	}
	if depth <= 0 {
		return "…"
	}
	var parts []string
	for _, a := range t.args {
		parts = append(parts, a.Pretty(depth-1))
	}
	switch t.op {
	case OExtract:
		return fmt.Sprintf("(extract[%d:%d] %s)", t.i1, t.i2, parts[0])
	case OZExt:
		return fmt.Sprintf("(zext%d %s)", t.i1, parts[0])
	case OSExt:
		return fmt.Sprintf("(sext%d %s)", t.i1, parts[0])
	case OApp:
		return "(" + t.name + " " + strings.Join(parts, " ") + ")"
	}
	return "(" + opNames[t.op] + " " + strings.Join(parts, " ") + ")"
}
