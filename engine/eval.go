package gosym

// Concrete evaluation of terms under a (partial) model, used as a
// counterexample cache: a branch whose condition is true in a cached model of
// the current path condition is feasible without asking the solver.

import "math/big"

// Apply rebuilds t's operator over new arguments through the folding constructors.
func (tt *TermTable) Apply(t *Term, a []*Term) *Term {
	switch t.op {
	case ONot:
		return tt.Not(a[0])
	case OAnd:
		return tt.And(a...)
	case OOr:
		return tt.Or(a...)
	case OIte:
		return tt.Ite(a[0], a[1], a[2])
	case OEq:
		return tt.Eq(a[0], a[1])
	case OBvAdd, OBvSub, OBvMul, OBvUDiv, OBvURem, OBvSDiv, OBvSRem, OBvAnd, OBvOr, OBvXor, OBvShl, OBvLshr, OBvAshr:
		return tt.BvBin(t.op, a[0], a[1])
	case OBvUlt, OBvUle, OBvSlt, OBvSle:
		return tt.BvCmp(t.op, a[0], a[1])
	case OBvNot:
		return tt.BvNot(a[0])
	case OBvNeg:
		return tt.BvNeg(a[0])
	case OConcat:
		return tt.Concat(a[0], a[1])
	case OExtract:
		return tt.Extract(t.i1, t.i2, a[0])
	case OZExt:
		return tt.ZExt(t.i1, a[0])
	case OSExt:
		return tt.SExt(t.i1, a[0])
	case OAdd, OSub, OMul, ODiv, OMod:
		return tt.IntBin(t.op, a[0], a[1])
	case ONeg:
		return tt.IntNeg(a[0])
	case OAbs:
		return tt.IntAbs(a[0])
	case OLt, OLe:
		return tt.IntCmp(t.op, a[0], a[1])
	}
	return nil
}

type cachedModel struct {
	vars    map[int]*Term // var id -> constant
	memo    map[int]*Term
	validTo int // satisfies pc[0:validTo]
}

func (e *Engine) evalIn(m *cachedModel, t *Term) *Term {
	switch t.op {
	case OConst:
		return t
	case OVar:
		if v, ok := m.vars[t.id]; ok {
			return v
		}
		var v *Term
		switch t.sort.K {
		case SBool:
			v = e.tt.Bool(false)
		case SBV:
			v = e.tt.BV(t.sort.W, big.NewInt(0))
		case SInt:
			v = e.tt.Inti(0)
		default:
			return nil
		}
		m.vars[t.id] = v
		return v
	}
	if r, ok := m.memo[t.id]; ok {
		return r
	}
	var res *Term
	switch t.op {
	case OIte:
		c := e.evalIn(m, t.args[0])
		if c != nil {
			if c.IsTrue() {
				res = e.evalIn(m, t.args[1])
			} else {
				res = e.evalIn(m, t.args[2])
			}
		}
	case OAnd:
		res = e.tt.Bool(true)
		for _, a := range t.args {
			v := e.evalIn(m, a)
			if v == nil {
				res = nil
				break
			}
			if v.IsFalse() {
				res = v
				break
			}
		}
	case OOr:
		res = e.tt.Bool(false)
		for _, a := range t.args {
			v := e.evalIn(m, a)
			if v == nil {
				res = nil
				break
			}
			if v.IsTrue() {
				res = v
				break
			}
		}
	default:
		args := make([]*Term, len(t.args))
		ok := true
		for i, a := range t.args {
			args[i] = e.evalIn(m, a)
			if args[i] == nil {
				ok = false
				break
			}
		}
		if ok {
			res = e.tt.Apply(t, args)
			if res != nil && !res.IsConst() {
				res = nil
			}
		}
	}
	m.memo[t.id] = res
	return res
}

// modelSays reports whether some cached model of the current path condition makes c true.
func (e *Engine) modelSays(c *Term) bool {
	for _, m := range e.models {
		// extend validity over pc entries added since
		ok := true
		for m.validTo < len(e.pc) {
			v := e.evalIn(m, e.pc[m.validTo].t)
			if v == nil || !v.IsTrue() {
				ok = false
				break
			}
			m.validTo++
		}
		if !ok {
			continue
		}
		if v := e.evalIn(m, c); v != nil && v.IsTrue() {
			e.ModelHits++
			return true
		}
	}
	return false
}

// captureModel stores the solver's current model (call right after a sat answer,
// while the scope that produced it is still open).  extraValid: the model also
// satisfies the scoped extra condition, which is not part of pc.
func (e *Engine) captureModel() {
	if e.NoModelCache || len(e.ufApps) > 0 {
		return
	}
	vals, err := e.solver.Values(e.inputs)
	if err != nil {
		return
	}
	m := &cachedModel{vars: map[int]*Term{}, memo: map[int]*Term{}, validTo: len(e.pc)}
	for _, in := range e.inputs {
		v, ok := vals[in.id]
		if !ok {
			continue
		}
		switch in.sort.K {
		case SBool:
			m.vars[in.id] = e.tt.Bool(v.Sign() != 0)
		case SBV:
			m.vars[in.id] = e.tt.BV(in.sort.W, v)
		case SInt:
			m.vars[in.id] = e.tt.Int(v)
		}
	}
	e.models = append(e.models, m)
	if len(e.models) > 8 {
		e.models = e.models[1:]
	}
}

func (e *Engine) truncateModels() {
	n := len(e.pc)
	for _, m := range e.models {
		if m.validTo > n {
			m.validTo = n
		}
	}
}
