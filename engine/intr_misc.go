package gosym

// Engine-level models of the harness API (zzverif) and of the few library
// functions that have no executable SSA body or would only add noise
// (locks, logging, formatting, clocks).

import (
	"fmt"
	"go/token"
	"go/types"
	"math/big"
	"math/bits"
	"os"
	"strings"

	"golang.org/x/tools/go/ssa"
)

var intrinsics = map[string]intrinsic{}
var pureIntrinsics = map[string]bool{}

const zz = "github.com/youchainhq/go-youchain/zzverif."

func (e *Engine) strArg(v Value, what string) string {
	s, ok := e.concStr(v)
	if !ok {
		panic(engineError{what + " must be a constant string"})
	}
	return s
}

func (e *Engine) intArg(v Value, what string) int64 {
	t, ok := v.(*Term)
	if !ok || !t.IsConst() {
		panic(engineError{what + " must be a constant integer"})
	}
	if e.IntMode {
		return t.c.Int64()
	}
	return toSigned(t.sort.W, t.c).Int64()
}

// flatten turns a Go value into a list of terms (for UF arguments).
func (e *Engine) flatten(v Value, out []*Term) []*Term {
	switch v := v.(type) {
	case *Term:
		return append(out, v)
	case iface:
		if v.t == nil {
			return out
		}
		return e.flatten(v.v, out)
	case array:
		// byte arrays are packed into one term in bv mode
		if !e.IntMode && len(v) > 0 && len(v) <= 64 {
			if t0, ok := v[0].(*Term); ok && t0.sort.K == SBV && t0.sort.W == 8 {
				acc := t0
				for _, x := range v[1:] {
					acc = e.tt.Concat(acc, x.(*Term))
				}
				return append(out, acc)
			}
		}
		for _, x := range v {
			out = e.flatten(x, out)
		}
		return out
	case []Value:
		for _, x := range v {
			out = e.flatten(x, out)
		}
		return out
	case structure:
		for _, x := range v {
			out = e.flatten(x, out)
		}
		return out
	case strV:
		return append(out, v.b...)
	case bigV:
		return append(out, v.t)
	case *Value:
		if v == nil {
			return out
		}
		if b, ok := (*v).(bigV); ok {
			return append(out, b.t)
		}
		return e.flatten(*v, out)
	case float64:
		return append(out, e.fpTerm(v))
	}
	panic(unsupported{fmt.Sprintf("UF argument of type %T", v)})
}

func (e *Engine) ufApp(name string, ret Sort, args []*Term) *Term {
	// make the name signature-specific so one logical UF may be used at several arities
	var sb strings.Builder
	sb.WriteString(name)
	for _, a := range args {
		switch a.sort.K {
		case SBV:
			fmt.Fprintf(&sb, "_b%d", a.sort.W)
		case SInt:
			sb.WriteString("_i")
		case SBool:
			sb.WriteString("_o")
		case SFP:
			sb.WriteString("_f")
		default:
			sb.WriteString("_u")
		}
	}
	app := e.tt.App(sb.String(), ret, args...)
	if e.Concrete {
		// look the application up in the replayed model
		var as []string
		for _, a := range args {
			if !a.IsConst() && a.op != OFpConst {
				panic(engineError{fmt.Sprintf("symbolic UF argument during concrete replay (op %d)", a.op)})
			}
			as = append(as, "0x"+a.c.Text(16))
		}
		k := "uf:" + sb.String() + "(" + strings.Join(as, ",") + ")"
		v, ok := e.ModelIn[k]
		if !ok {
			v = big.NewInt(0)
			if e.Verbose {
				fmt.Fprintf(os.Stderr, "[%s] replay: no model value for %s (0 used)\n", e.Harness, k)
			}
		}
		switch ret.K {
		case SBool:
			return e.tt.Bool(v.Sign() != 0)
		case SInt:
			return e.tt.Int(v)
		case SFP:
			return e.tt.FPConst(v.Uint64())
		default:
			return e.tt.BV(ret.W, v)
		}
	}
	if app.op == OApp {
		found := false
		for _, x := range e.ufApps {
			if x == app {
				found = true
				break
			}
		}
		if !found {
			e.ufApps = append(e.ufApps, app)
		}
	}
	return app
}

func init() {
	z := func(name string, f intrinsic) { intrinsics[zz+name] = f }
	mkIn := func(k types.BasicKind) intrinsic {
		return func(e *Engine, fr *frame, a []Value) Value {
			return e.inputInt(e.strArg(a[0], "input name"), types.Typ[k])
		}
	}
	z("U8", mkIn(types.Uint8))
	z("U16", mkIn(types.Uint16))
	z("U32", mkIn(types.Uint32))
	z("U64", mkIn(types.Uint64))
	z("I64", mkIn(types.Int64))
	z("I32", mkIn(types.Int32))
	z("Int", mkIn(types.Int))
	z("Bool", func(e *Engine, fr *frame, a []Value) Value {
		return e.inputBool(e.strArg(a[0], "input name"))
	})
	z("Bytes", func(e *Engine, fr *frame, a []Value) Value {
		name := e.strArg(a[0], "input name")
		n := e.intArg(a[1], "Bytes length")
		out := make([]Value, n)
		for i := range out {
			out[i] = e.inputInt(fmt.Sprintf("%s[%d]", name, i), tUint8)
		}
		return out
	})
	z("Big", func(e *Engine, fr *frame, a []Value) Value {
		name := e.freshName(e.strArg(a[0], "input name"))
		nbits := int(e.intArg(a[1], "Big bits"))
		if e.Concrete {
			v, ok := e.ModelIn[name]
			if !ok {
				v = big.NewInt(0)
			}
			return e.newBig(e.bigFromConst(v))
		}
		var v *Term
		if e.IntMode {
			v = e.tt.Var(name, IntSort)
			e.pcAssertSilent(e.tt.And(e.tt.IntCmp(OLe, e.tt.Inti(0), v), e.tt.IntCmp(OLt, v, e.tt.Int(pow2(nbits)))))
		} else {
			e.chkBits(nbits, "zzverif.Big")
			n := e.tt.Var(name, BVSort(nbits))
			e.inputs = append(e.inputs, n)
			e.inputNames = append(e.inputNames, name)
			return e.newBig(bigV{t: e.tt.ZExt(e.BigW-nbits, n), bits: nbits, nn: true})
		}
		e.inputs = append(e.inputs, v)
		e.inputNames = append(e.inputNames, name)
		return e.newBig(bigV{t: v, bits: nbits, nn: true})
	})
	z("Choose", func(e *Engine, fr *frame, a []Value) Value {
		name := e.strArg(a[0], "Choose name")
		n := e.intArg(a[1], "Choose bound")
		if n <= 0 {
			panic(engineError{"Choose with non-positive bound"})
		}
		v := e.inputInt(name, tInt)
		if e.Concrete {
			return v
		}
		conds := make([]*Term, n)
		for k := int64(0); k < n; k++ {
			conds[k] = e.tt.Eq(v, e.mkInt(tInt, k))
		}
		// v is a fresh variable: every alternative is feasible by construction
		k := e.chooseFresh(conds)
		e.chooseTrace = append(e.chooseTrace, fmt.Sprintf("%s=%d", name, k))
		return e.goInt(k)
	})
	z("Assume", func(e *Engine, fr *frame, a []Value) Value {
		e.assume(a[0].(*Term))
		return nil
	})
	z("Assert", func(e *Engine, fr *frame, a []Value) Value {
		e.assertObl(fr, a[0].(*Term), e.strArg(a[1], "Assert label"), "", nil)
		return nil
	})
	z("AssertKF", func(e *Engine, fr *frame, a []Value) Value {
		e.assertObl(fr, a[0].(*Term), e.strArg(a[1], "Assert label"), e.strArg(a[2], "known-finding id"), a[3].(*Term))
		return nil
	})
	z("Reach", func(e *Engine, fr *frame, a []Value) Value {
		tag := e.strArg(a[0], "Reach tag")
		if e.live() || e.Concrete {
			e.ReachHit[tag]++
		}
		seen := false
		for _, t := range e.pathReach {
			if t == tag {
				seen = true
			}
		}
		if !seen {
			e.pathReach = append(e.pathReach, tag)
		}
		return nil
	})
	z("Bound", func(e *Engine, fr *frame, a []Value) Value {
		name := e.strArg(a[0], "Bound name")
		q, t := e.intArg(a[1], "Bound quick"), e.intArg(a[2], "Bound thorough")
		v := q
		if e.Tier == "thorough" {
			v = t
		}
		e.Bounds[name] = v
		return e.goInt(int(v))
	})
	z("Thorough", func(e *Engine, fr *frame, a []Value) Value { return e.tt.Bool(e.Tier == "thorough") })
	z("Symbolic", func(e *Engine, fr *frame, a []Value) Value { return e.tt.Bool(true) })
	z("Note", func(e *Engine, fr *frame, a []Value) Value {
		s := e.strArg(a[0], "Note")
		for _, x := range e.Assumptions {
			if x == s {
				return nil
			}
		}
		e.Assumptions = append(e.Assumptions, s)
		return nil
	})
	z("PermuteMaps", func(e *Engine, fr *frame, a []Value) Value {
		e.PermuteMaps = a[0].(*Term).IsTrue()
		return nil
	})
	z("Concretize", func(e *Engine, fr *frame, a []Value) Value {
		t := a[0].(*Term)
		v := e.concretize(t, "zzverif.Concretize")
		if e.IntMode {
			return e.tt.Int(v)
		}
		return e.tt.BV(t.sort.W, v)
	})
	z("Concretize8", func(e *Engine, fr *frame, a []Value) Value {
		t := a[0].(*Term)
		v := e.concretize(t, "zzverif.Concretize8")
		return e.intConst(tUint8, v)
	})
	z("UF", func(e *Engine, fr *frame, a []Value) Value {
		name := e.strArg(a[0], "UF name")
		args := e.flatten(a[1], nil)
		if e.IntMode {
			r := e.ufApp(name, IntSort, args)
			e.pcAssertSilent(e.rangeCond(r, 64, false))
			return r
		}
		return e.ufApp(name, BVSort(64), args)
	})
	z("UFBool", func(e *Engine, fr *frame, a []Value) Value {
		return e.ufApp(e.strArg(a[0], "UF name"), BoolSort, e.flatten(a[1], nil))
	})
	z("UF32", func(e *Engine, fr *frame, a []Value) Value {
		// 32-byte result
		name := e.strArg(a[0], "UF name")
		args := e.flatten(a[1], nil)
		return e.hashResult(name, args, false)
	})
	z("InjUF", func(e *Engine, fr *frame, a []Value) Value {
		name := e.strArg(a[0], "UF name")
		args := e.flatten(a[1], nil)
		return e.hashResult(name, args, true)
	})
	z("Observe", func(e *Engine, fr *frame, a []Value) Value {
		if e.live() || e.Concrete {
			e.Observed = append(e.Observed, e.strArg(a[0], "Observe label")+"="+e.describe(a[1], 4))
		}
		return nil
	})
	z("BV256", func(e *Engine, fr *frame, a []Value) Value {
		op := e.strArg(a[0], "BV256 op")
		x := e.bigGet(a[1], "BV256")
		var y bigV
		if p, ok := a[2].(*Value); ok && p != nil {
			y = e.bigGet(a[2], "BV256")
		} else {
			y = x
		}
		return e.newBig(e.bv256(op, x, y))
	})
	z("All", func(e *Engine, fr *frame, a []Value) Value {
		var cs []*Term
		for _, v := range a[0].([]Value) {
			cs = append(cs, v.(*Term))
		}
		return e.tt.And(cs...)
	})
	z("Any", func(e *Engine, fr *frame, a []Value) Value {
		var cs []*Term
		for _, v := range a[0].([]Value) {
			cs = append(cs, v.(*Term))
		}
		return e.tt.Or(cs...)
	})
	z("IteBig", func(e *Engine, fr *frame, a []Value) Value {
		c := a[0].(*Term)
		x, y := e.bigGet(a[1], "IteBig"), e.bigGet(a[2], "IteBig")
		return e.newBig(bigV{t: e.tt.Ite(c, x.t, y.t), bits: maxi(x.bits, y.bits), nn: x.nn && y.nn})
	})
	z("IteU64", func(e *Engine, fr *frame, a []Value) Value {
		return e.tt.Ite(a[0].(*Term), a[1].(*Term), a[2].(*Term))
	})
	z("AllocReset", func(e *Engine, fr *frame, a []Value) Value {
		e.allocLog = e.allocLog[:0]
		return nil
	})
	z("AllocMax", func(e *Engine, fr *frame, a []Value) Value {
		m := int64(0)
		for _, x := range e.allocLog {
			if x > m {
				m = x
			}
		}
		return e.goInt(int(m))
	})
	z("SameObject", func(e *Engine, fr *frame, a []Value) Value {
		x, _ := a[0].(iface)
		y, _ := a[1].(iface)
		px, ok1 := x.v.(*Value)
		py, ok2 := y.v.(*Value)
		return e.tt.Bool(ok1 && ok2 && px == py && px != nil)
	})

	// ---- sync ----
	noop := func(e *Engine, fr *frame, a []Value) Value { return nil }
	for _, n := range []string{"(*sync.Mutex).Lock", "(*sync.Mutex).Unlock", "(*sync.RWMutex).Lock", "(*sync.RWMutex).Unlock",
		"(*sync.RWMutex).RLock", "(*sync.RWMutex).RUnlock", "(*sync.WaitGroup).Add", "(*sync.WaitGroup).Done", "(*sync.WaitGroup).Wait",
		"(*sync.Cond).Signal", "(*sync.Cond).Broadcast", "runtime.Gosched", "runtime.KeepAlive", "runtime.SetFinalizer", "runtime.GC"} {
		intrinsics[n] = noop
	}
	intrinsics["(*sync.Mutex).TryLock"] = func(e *Engine, fr *frame, a []Value) Value { return e.tt.Bool(true) }
	intrinsics["(*sync.Cond).Wait"] = func(e *Engine, fr *frame, a []Value) Value { panic(unsupported{"sync.Cond.Wait"}) }
	intrinsics["(*sync.Once).Do"] = func(e *Engine, fr *frame, a []Value) Value {
		p := a[0].(*Value)
		if _, done := e.side[p]; done {
			return nil
		}
		e.sideSet(p, true)
		e.call(fr, token.NoPos, a[1], nil)
		return nil
	}
	// sync.Map
	smap := func(e *Engine, recv Value) *MapObj {
		p := recv.(*Value)
		if p == nil {
			e.rtPanic("nil *sync.Map")
		}
		if m, ok := e.side[p]; ok {
			return m.(*MapObj)
		}
		m := &MapObj{kt: emptyIface, vt: emptyIface}
		e.sideSet(p, m)
		return m
	}
	intrinsics["(*sync.Map).Load"] = func(e *Engine, fr *frame, a []Value) Value {
		m := smap(e, a[0])
		i := e.mapFind(m, a[1])
		if i < 0 {
			return tuple{iface{}, e.tt.Bool(false)}
		}
		return tuple{m.list[i].v, e.tt.Bool(true)}
	}
	intrinsics["(*sync.Map).Store"] = func(e *Engine, fr *frame, a []Value) Value {
		e.mapInsert(smap(e, a[0]), a[1], a[2])
		return nil
	}
	intrinsics["(*sync.Map).Delete"] = func(e *Engine, fr *frame, a []Value) Value {
		e.mapDelete(smap(e, a[0]), a[1])
		return nil
	}
	intrinsics["(*sync.Map).LoadOrStore"] = func(e *Engine, fr *frame, a []Value) Value {
		m := smap(e, a[0])
		i := e.mapFind(m, a[1])
		if i >= 0 {
			return tuple{m.list[i].v, e.tt.Bool(true)}
		}
		e.mapInsert(m, a[1], a[2])
		return tuple{a[2], e.tt.Bool(false)}
	}
	intrinsics["(*sync.Map).Range"] = func(e *Engine, fr *frame, a []Value) Value {
		m := smap(e, a[0])
		it := e.rangeIter(m, nil).(*mapIter)
		for {
			t := it.next()
			if t[0].(*Term).IsFalse() {
				break
			}
			r := e.call(fr, token.NoPos, a[1], []Value{t[1], t[2]}).(*Term)
			if !e.branch(r) {
				break
			}
		}
		return nil
	}
	// atomic.Value
	intrinsics["(*sync/atomic.Value).Load"] = func(e *Engine, fr *frame, a []Value) Value {
		if v, ok := e.side[a[0].(*Value)]; ok {
			return v
		}
		return iface{}
	}
	intrinsics["(*sync/atomic.Value).Store"] = func(e *Engine, fr *frame, a []Value) Value {
		e.sideSet(a[0].(*Value), a[1])
		return nil
	}
	for _, ty := range []string{"Int32", "Int64", "Uint32", "Uint64", "Uintptr", "Pointer"} {
		ty := ty
		intrinsics["sync/atomic.Load"+ty] = func(e *Engine, fr *frame, a []Value) Value { return e.loadFrom(a[0]) }
		intrinsics["sync/atomic.Store"+ty] = func(e *Engine, fr *frame, a []Value) Value { e.storeTo(a[0], a[1]); return nil }
		intrinsics["sync/atomic.Swap"+ty] = func(e *Engine, fr *frame, a []Value) Value {
			old := e.loadFrom(a[0])
			e.storeTo(a[0], a[1])
			return old
		}
		if ty != "Pointer" {
			var k types.BasicKind
			switch ty {
			case "Int32":
				k = types.Int32
			case "Int64":
				k = types.Int64
			case "Uint32":
				k = types.Uint32
			case "Uint64":
				k = types.Uint64
			default:
				k = types.Uintptr
			}
			intrinsics["sync/atomic.Add"+ty] = func(e *Engine, fr *frame, a []Value) Value {
				old := e.loadFrom(a[0])
				nv := e.binop(token.ADD, types.Typ[k], old, a[1], nil)
				e.storeTo(a[0], nv)
				return nv
			}
			intrinsics["sync/atomic.CompareAndSwap"+ty] = func(e *Engine, fr *frame, a []Value) Value {
				old := e.loadFrom(a[0])
				eq := e.equals(types.Typ[k], old, a[1])
				if e.branch(eq) {
					e.storeTo(a[0], a[2])
					return e.tt.Bool(true)
				}
				return e.tt.Bool(false)
			}
		}
	}

	// ---- formatting / errors / logging ----
	intrinsics["fmt.Errorf"] = func(e *Engine, fr *frame, a []Value) Value {
		f, _ := e.concStr(a[0])
		return e.newError("fmt.Errorf: " + f)
	}
	intrinsics["fmt.Sprintf"] = func(e *Engine, fr *frame, a []Value) Value {
		f, _ := e.concStr(a[0])
		return strV{opaque: "Sprintf(" + f + ")"}
	}
	for _, n := range []string{"fmt.Sprint", "fmt.Sprintln"} {
		intrinsics[n] = func(e *Engine, fr *frame, a []Value) Value { return strV{opaque: "Sprint"} }
	}
	for _, n := range []string{"fmt.Println", "fmt.Printf", "fmt.Print", "fmt.Fprintf", "fmt.Fprintln", "fmt.Fprint"} {
		intrinsics[n] = func(e *Engine, fr *frame, a []Value) Value {
			return tuple{e.goInt(0), iface{}}
		}
	}
	// common.Report prints a "please report this bug" banner with a stack dump to stderr
	intrinsics[ModPath+"/common.Report"] = noop
	const lg = "github.com/youchainhq/go-youchain/logging."
	for _, n := range []string{"Trace", "Debug", "Info", "Warn", "Error"} {
		intrinsics[lg+n] = noop
	}
	for _, n := range []string{"Trace", "Debug", "Info", "Warn", "Error"} {
		intrinsics["(*"+ModPath+"/logging.logger)."+n] = noop
	}
	intrinsics["(*"+ModPath+"/logging.logger).Crit"] = func(e *Engine, fr *frame, a []Value) Value {
		m, _ := e.concStr(a[1])
		panic(targetPanic{v: e.mkStr("logging.Crit: " + m)})
	}
	intrinsics[lg+"Crit"] = func(e *Engine, fr *frame, a []Value) Value {
		m, _ := e.concStr(a[0])
		panic(targetPanic{v: e.mkStr("logging.Crit: " + m)})
	}
	intrinsics["os.Exit"] = func(e *Engine, fr *frame, a []Value) Value {
		panic(targetPanic{v: e.mkStr("os.Exit")})
	}

	// string-producing formatters of common types: an opaque token
	for _, n := range []string{"(" + ModPath + "/common.Address).String", "(" + ModPath + "/common.Address).Hex",
		"(" + ModPath + "/common.Hash).String", "(" + ModPath + "/common.Hash).Hex", "(" + ModPath + "/common.Hash).TerminalString",
		"(" + ModPath + "/common.Address).TerminalString", ModPath + "/common/hexutil.Encode", "encoding/hex.EncodeToString",
		"(" + ModPath + "/common.StorageSize).String", "(" + ModPath + "/common.PrettyDuration).String"} {
		n := n
		intrinsics[n] = func(e *Engine, fr *frame, a []Value) Value { return strV{opaque: n} }
	}

	// ---- keccak: concrete on concrete bytes, injective UF on symbolic bytes ----
	keccak := func(asHash bool) intrinsic {
		return func(e *Engine, fr *frame, a []Value) Value {
			var all []Value
			for _, part := range a[0].([]Value) {
				all = append(all, part.([]Value)...)
			}
			conc := make([]byte, 0, len(all))
			ok := true
			for _, b := range all {
				t := b.(*Term)
				if !t.IsConst() {
					ok = false
					break
				}
				conc = append(conc, byte(t.Uint64()))
			}
			var out array
			if ok && e.Concrete && !e.IntMode {
				// concrete replay of a path on which this hash was an uninterpreted function of
				// symbolic bytes: the counterexample carries the function's value for these arguments
				var sb strings.Builder
				sb.WriteString("uf:keccak256")
				for range all {
					sb.WriteString("_b8")
				}
				sb.WriteString("(")
				for i, b := range all {
					if i > 0 {
						sb.WriteString(",")
					}
					sb.WriteString("0x" + b.(*Term).c.Text(16))
				}
				sb.WriteString(")")
				if v, found := e.ModelIn[sb.String()]; found {
					r := e.tt.BV(256, v)
					out = make(array, 32)
					for i := 0; i < 32; i++ {
						hi := 255 - 8*i
						out[i] = e.tt.Extract(hi, hi-7, r)
					}
					if asHash {
						return out
					}
					return []Value(out)
				}
			}
			if ok {
				h := keccak256(conc)
				out = make(array, 32)
				for i := range out {
					out[i] = e.byteTerm(h[i])
				}
			} else {
				ts := make([]*Term, len(all))
				for i, b := range all {
					ts[i] = b.(*Term)
				}
				out = e.hashResult("keccak256", ts, true).(array)
			}
			if asHash {
				return out
			}
			return []Value(out)
		}
	}
	intrinsics[zz+"Keccak"] = func(e *Engine, fr *frame, a []Value) Value {
		return keccak(true)(e, fr, []Value{[]Value{a[0]}})
	}
	intrinsics[ModPath+"/crypto.Keccak256"] = keccak(false)
	intrinsics[ModPath+"/crypto.Keccak256Hash"] = keccak(true)

	// ---- time ----
	intrinsics["time.Now"] = func(e *Engine, fr *frame, a []Value) Value {
		fn := fr.fn
		res := e.zero(fn.Signature.Results().At(0).Type())
		return res
	}
	intrinsics["time.Since"] = func(e *Engine, fr *frame, a []Value) Value {
		return e.mkInt(types.Typ[types.Int64], 0)
	}
	intrinsics["time.Sleep"] = noop

	// ---- bytes / bits ----
	intrinsics["internal/bytealg.Compare"] = func(e *Engine, fr *frame, a []Value) Value {
		return e.bytesCompare(a[0].([]Value), a[1].([]Value))
	}
	intrinsics["bytes.Compare"] = intrinsics["internal/bytealg.Compare"]
	intrinsics["internal/bytealg.Equal"] = func(e *Engine, fr *frame, a []Value) Value {
		x, y := a[0].([]Value), a[1].([]Value)
		if len(x) != len(y) {
			return e.tt.Bool(false)
		}
		cs := make([]*Term, len(x))
		for i := range x {
			cs[i] = e.tt.Eq(x[i].(*Term), y[i].(*Term))
		}
		return e.tt.And(cs...)
	}
	intrinsics["bytes.Equal"] = intrinsics["internal/bytealg.Equal"]
	pureIntrinsics["bytes.Equal"] = true
	intrinsics["internal/bytealg.IndexByte"] = func(e *Engine, fr *frame, a []Value) Value {
		x := a[0].([]Value)
		c := a[1].(*Term)
		res := e.mkInt(tInt, -1)
		for i := len(x) - 1; i >= 0; i-- {
			res = e.tt.Ite(e.tt.Eq(x[i].(*Term), c), e.goInt(i), res)
		}
		return res
	}
	intrinsics["bytes.IndexByte"] = intrinsics["internal/bytealg.IndexByte"]
	intrinsics["internal/bytealg.IndexByteString"] = func(e *Engine, fr *frame, a []Value) Value {
		x := a[0].(strV)
		c := a[1].(*Term)
		res := e.mkInt(tInt, -1)
		for i := len(x.b) - 1; i >= 0; i-- {
			res = e.tt.Ite(e.tt.Eq(x.b[i], c), e.goInt(i), res)
		}
		return res
	}
	intrinsics["math/bits.Len64"] = func(e *Engine, fr *frame, a []Value) Value { return e.bitsLen(a[0].(*Term), 64) }
	intrinsics["math/bits.Len32"] = func(e *Engine, fr *frame, a []Value) Value { return e.bitsLen(a[0].(*Term), 32) }
	intrinsics["math/bits.Len"] = func(e *Engine, fr *frame, a []Value) Value { return e.bitsLen(a[0].(*Term), 64) }
	intrinsics["math/bits.Len8"] = func(e *Engine, fr *frame, a []Value) Value { return e.bitsLen(a[0].(*Term), 8) }
	intrinsics["math/bits.LeadingZeros64"] = func(e *Engine, fr *frame, a []Value) Value {
		return e.binop(token.SUB, tInt, e.goInt(64), e.bitsLen(a[0].(*Term), 64), nil)
	}
	intrinsics["math/bits.TrailingZeros64"] = func(e *Engine, fr *frame, a []Value) Value {
		x := a[0].(*Term)
		if x.IsConst() {
			return e.goInt(bits.TrailingZeros64(x.Uint64()))
		}
		panic(unsupported{"bits.TrailingZeros64 symbolic"})
	}

	// ---- sort.Slice (reflection-based in the library): insertion sort via less ----
	sortSlice := func(e *Engine, fr *frame, a []Value) Value {
		itf := a[0].(iface)
		s, ok := itf.v.([]Value)
		if !ok {
			panic(unsupported{"sort.Slice on non-slice"})
		}
		n := len(s)
		less := func(i, j int) bool {
			r := e.call(fr, token.NoPos, a[1], []Value{e.goInt(i), e.goInt(j)}).(*Term)
			return e.branch(r)
		}
		for i := 1; i < n; i++ {
			for j := i; j > 0 && less(j, j-1); j-- {
				x, y := copyVal(s[j]), copyVal(s[j-1])
				e.store(&s[j], y)
				e.store(&s[j-1], x)
			}
		}
		return nil
	}
	intrinsics["sort.Slice"] = sortSlice
	intrinsics["sort.SliceStable"] = sortSlice

	intrinsics["reflect.DeepEqual"] = func(e *Engine, fr *frame, a []Value) Value {
		x, y := a[0].(iface), a[1].(iface)
		if x.t == nil || y.t == nil {
			return e.tt.Bool(x.t == nil && y.t == nil)
		}
		if !types.Identical(x.t, y.t) {
			return e.tt.Bool(false)
		}
		switch x.v.(type) {
		case array, *Term, strV, structure:
			return e.equals(x.t, x.v, y.v)
		}
		panic(unsupported{"reflect.DeepEqual on " + x.t.String()})
	}
	intrinsics["errors.Is"] = func(e *Engine, fr *frame, a []Value) Value {
		return e.equals(nil, a[0], a[1])
	}
}

var emptyIface = types.NewInterfaceType(nil, nil)

func (e *Engine) sideSet(p *Value, v Value) {
	old, had := e.side[p]
	e.onUndo(func() {
		if had {
			e.side[p] = old
		} else {
			delete(e.side, p)
		}
	})
	e.side[p] = v
}

// newError builds an *errors.errorString carrying msg.
func (e *Engine) newError(msg string) Value {
	pkg := e.prog.ImportedPackage("errors")
	if pkg == nil {
		panic(unsupported{"errors package not loaded"})
	}
	t := pkg.Type("errorString").Object().Type()
	var cell Value = structure{e.mkStr(msg)}
	return iface{t: types.NewPointer(t), v: &cell}
}

func (e *Engine) bytesCompare(x, y []Value) Value {
	n := len(x)
	if len(y) < n {
		n = len(y)
	}
	var res *Term
	switch {
	case len(x) < len(y):
		res = e.mkInt(tInt, -1)
	case len(x) > len(y):
		res = e.mkInt(tInt, 1)
	default:
		res = e.mkInt(tInt, 0)
	}
	for i := n - 1; i >= 0; i-- {
		a, b := x[i].(*Term), y[i].(*Term)
		lt := e.binop(token.LSS, tUint8, a, b, nil).(*Term)
		eq := e.tt.Eq(a, b)
		res = e.tt.Ite(eq, res, e.tt.Ite(lt, e.mkInt(tInt, -1), e.mkInt(tInt, 1)))
	}
	return res
}

func (e *Engine) bitsLen(x *Term, w int) *Term {
	if x.IsConst() {
		return e.goInt(x.c.BitLen())
	}
	if e.IntMode {
		panic(unsupported{"bits.Len symbolic in int mode"})
	}
	res := e.goInt(0)
	for i := 1; i <= w; i++ {
		c := e.tt.BvCmp(OBvUle, e.tt.BV(x.sort.W, pow2(i-1)), x)
		res = e.tt.Ite(c, e.goInt(i), res)
	}
	return res
}

// hashResult builds a [32]byte result of an (optionally injective) UF.
func (e *Engine) hashResult(name string, args []*Term, inj bool) Value {
	if e.IntMode {
		// int mode: 32 byte-valued applications (no injectivity instances: a weaker idealisation)
		out := make(array, 32)
		for i := 0; i < 32; i++ {
			b := e.ufApp(fmt.Sprintf("%s.byte%d", name, i), IntSort, args)
			e.pcAssertSilent(e.rangeCond(b, 8, false))
			out[i] = b
		}
		return out
	}
	r := e.ufApp(name, BVSort(256), args)
	if inj && !e.Concrete {
		key := r.name
		for _, prev := range e.injApps[key] {
			if prev.res == r {
				goto done
			}
		}
		for _, prev := range e.injApps[key] {
			// equal results imply equal arguments
			var eqs []*Term
			for i := range args {
				eqs = append(eqs, e.tt.Eq(args[i], prev.args[i]))
			}
			e.pcAssertSilent(e.tt.Implies(e.tt.Eq(r, prev.res), e.tt.And(eqs...)))
		}
		e.injApps[key] = append(e.injApps[key], injApp{args: args, res: r})
	}
done:
	out := make(array, 32)
	for i := 0; i < 32; i++ {
		hi := 255 - 8*i
		out[i] = e.tt.Extract(hi, hi-7, r)
	}
	return out
}

// freshResult returns an unconstrained value of fn's result type (//verif:opaque).
func (e *Engine) freshResult(fn *ssa.Function) Value {
	res := fn.Signature.Results()
	mk := func(t types.Type, i int) Value {
		if _, _, ok := e.intInfo(t); ok {
			return e.inputInt(fmt.Sprintf("opaque:%s.%d", fn.Name(), i), t)
		}
		if isBool(t) {
			return e.inputBool(fmt.Sprintf("opaque:%s.%d", fn.Name(), i))
		}
		panic(unsupported{"opaque result of type " + t.String()})
	}
	switch res.Len() {
	case 0:
		return nil
	case 1:
		return mk(res.At(0).Type(), 0)
	}
	out := make(tuple, res.Len())
	for i := range out {
		out[i] = mk(res.At(i).Type(), i)
	}
	return out
}

// bv256 evaluates an EVM word operation directly in the SMT-LIB theory of
// 256-bit bit-vectors (the oracle of the computational opcodes).
func (e *Engine) bv256(op string, xv, yv bigV) bigV {
	if e.IntMode {
		panic(unsupported{"zzverif.BV256 in int mode"})
	}
	tt := e.tt
	x, y := tt.Extract(255, 0, xv.t), tt.Extract(255, 0, yv.t)
	b := func(c *Term) *Term { return tt.Ite(c, tt.BVu(256, 1), tt.BVu(256, 0)) }
	var r *Term
	switch op {
	case "add":
		r = tt.BvBin(OBvAdd, x, y)
	case "sub":
		r = tt.BvBin(OBvSub, x, y)
	case "mul":
		r = tt.BvBin(OBvMul, x, y)
	case "and":
		r = tt.BvBin(OBvAnd, x, y)
	case "or":
		r = tt.BvBin(OBvOr, x, y)
	case "xor":
		r = tt.BvBin(OBvXor, x, y)
	case "not":
		r = tt.BvNot(x)
	case "shl": // x = value, y = shift
		r = tt.BvBin(OBvShl, x, y)
	case "lshr":
		r = tt.BvBin(OBvLshr, x, y)
	case "ashr":
		r = tt.BvBin(OBvAshr, x, y)
	case "ult":
		r = b(tt.BvCmp(OBvUlt, x, y))
	case "ugt":
		r = b(tt.BvCmp(OBvUlt, y, x))
	case "slt":
		r = b(tt.BvCmp(OBvSlt, x, y))
	case "sgt":
		r = b(tt.BvCmp(OBvSlt, y, x))
	case "eq":
		r = b(tt.Eq(x, y))
	case "iszero":
		r = b(tt.Eq(x, tt.BVu(256, 0)))
	case "byte": // x = index, y = word
		sh := tt.BvBin(OBvMul, tt.BVu(256, 8), tt.BvBin(OBvSub, tt.BVu(256, 31), x))
		v := tt.BvBin(OBvAnd, tt.BvBin(OBvLshr, y, sh), tt.BVu(256, 0xff))
		r = tt.Ite(tt.BvCmp(OBvUlt, x, tt.BVu(256, 32)), v, tt.BVu(256, 0))
	case "signextend": // x = byte index, y = word
		sh := tt.BvBin(OBvSub, tt.BVu(256, 248), tt.BvBin(OBvMul, tt.BVu(256, 8), x))
		v := tt.BvBin(OBvAshr, tt.BvBin(OBvShl, y, sh), sh)
		r = tt.Ite(tt.BvCmp(OBvUlt, x, tt.BVu(256, 31)), v, y)
	default:
		panic(engineError{"BV256: unknown op " + op})
	}
	return bigV{t: tt.ZExt(e.BigW-256, r), bits: 256, nn: true}
}
