package state

// C16 (what a creation does to the target account) — EVM.create calls StateDB.CreateAccount
// on the target address, which may already hold value (anybody can send to a future contract
// address).  CreateAccount resets nonce, code and storage of the account but carries its
// balance over: no value disappears in a creation.

import (
	"math/big"

	"github.com/youchainhq/go-youchain/common"
	"github.com/youchainhq/go-youchain/zzverif"
)

//verif:mode int

func zzH_C16_create_account() {
	s := zzNewState()
	a := zzAddr(0)
	bal := zzverif.Big("target.balance", 90)
	exists := zzverif.Bool("target.exists")
	if exists {
		s.SetBalance(a, bal)
		s.SetNonce(a, zzverif.U64("target.nonce"))
		if zzverif.Bool("target.hasStorage") {
			s.SetState(a, common.Hash{31: 1}, common.Hash{31: 9})
		}
		if zzverif.Bool("finalisedBefore") {
			s.Finalise(true)
		}
	}
	other := zzAddr(1)
	s.SetBalance(other, big.NewInt(77))
	s.CreateAccount(a)
	want := new(big.Int)
	if exists {
		want.Set(bal)
	}
	zzverif.Assert(s.GetBalance(a).Cmp(want) == 0, "a creation carries the balance the target address already held over to the new account")
	zzverif.Assert(s.GetNonce(a) == 0 && len(s.GetCode(a)) == 0 && s.GetState(a, common.Hash{31: 1}) == (common.Hash{}), "nonce, code and storage of the new account start empty")
	zzverif.Assert(s.GetBalance(other).Cmp(big.NewInt(77)) == 0, "no other account is touched")
	zzverif.Reach("end")
}
