package vm

// C16 — failed EVM calls leave no trace; value and gas are accounted exactly.
// One call frame (the inductive step over call depth): the real Call / CallCode /
// DelegateCall / StaticCall / create run against a recording fake of vm.StateDB,
// with the callee's execution (`run`) replaced by an arbitrary outcome.

import (
	"errors"
	"github.com/youchainhq/go-youchain/local"
	"math/big"

	"github.com/youchainhq/go-youchain/common"
	"github.com/youchainhq/go-youchain/common/hexutil"
	"github.com/youchainhq/go-youchain/core/state"
	"github.com/youchainhq/go-youchain/core/types"
	"github.com/youchainhq/go-youchain/params"
	"github.com/youchainhq/go-youchain/zzverif"
)

//verif:mode bv W=264
//verif:replace $M/core/vm.run zzC16Run

// ---- recording fake of vm.StateDB ----

type zzC16Ev struct {
	kind string // snapshot | revert | mutate:<what>
	id   int
}

type zzC16DB struct {
	events   []zzC16Ev
	nextSnap int
	bal      map[common.Address]*big.Int
	nonce    map[common.Address]uint64
	exists   bool
	codeHash common.Hash
}

func (d *zzC16DB) mut(what string)                         { d.events = append(d.events, zzC16Ev{"mutate:" + what, 0}) }
func (d *zzC16DB) CreateAccount(common.Address)            { d.mut("CreateAccount") }
func (d *zzC16DB) SubBalance(a common.Address, v *big.Int) { d.mut("SubBalance") }
func (d *zzC16DB) AddBalance(a common.Address, v *big.Int) { d.mut("AddBalance") }
func (d *zzC16DB) GetBalance(a common.Address) *big.Int {
	if b, ok := d.bal[a]; ok {
		return b
	}
	return new(big.Int)
}
func (d *zzC16DB) GetNonce(a common.Address) uint64                          { return d.nonce[a] }
func (d *zzC16DB) SetNonce(a common.Address, n uint64)                       { d.mut("SetNonce") }
func (d *zzC16DB) GetCodeHash(common.Address) common.Hash                    { return d.codeHash }
func (d *zzC16DB) GetCode(common.Address) []byte                             { return []byte{0} }
func (d *zzC16DB) SetCode(common.Address, []byte)                            { d.mut("SetCode") }
func (d *zzC16DB) GetCodeSize(common.Address) int                            { return 1 }
func (d *zzC16DB) AddRefund(uint64)                                          { d.mut("AddRefund") }
func (d *zzC16DB) SubRefund(uint64)                                          { d.mut("SubRefund") }
func (d *zzC16DB) GetRefund() uint64                                         { return 0 }
func (d *zzC16DB) GetCommittedState(common.Address, common.Hash) common.Hash { return common.Hash{} }
func (d *zzC16DB) GetState(common.Address, common.Hash) common.Hash          { return common.Hash{} }
func (d *zzC16DB) SetState(common.Address, common.Hash, common.Hash)         { d.mut("SetState") }
func (d *zzC16DB) Suicide(common.Address) bool                               { d.mut("Suicide"); return true }
func (d *zzC16DB) HasSuicided(common.Address) bool                           { return false }
func (d *zzC16DB) Exist(common.Address) bool                                 { return d.exists }
func (d *zzC16DB) Empty(common.Address) bool                                 { return !d.exists }
func (d *zzC16DB) RevertToSnapshot(id int)                                   { d.events = append(d.events, zzC16Ev{"revert", id}) }
func (d *zzC16DB) Snapshot() int {
	id := d.nextSnap
	d.nextSnap++
	d.events = append(d.events, zzC16Ev{"snapshot", id})
	return id
}
func (d *zzC16DB) AddLog(*types.Log)                                                  { d.mut("AddLog") }
func (d *zzC16DB) AddPreimage(common.Hash, []byte)                                    {}
func (d *zzC16DB) ForEachStorage(common.Address, func(common.Hash, common.Hash) bool) {}
func (d *zzC16DB) GetValidatorsStat() (*state.ValidatorsStat, error)                  { return nil, nil }
func (d *zzC16DB) GetValidatorByMainAddr(common.Address) *state.Validator             { return nil }
func (d *zzC16DB) GetValidators() *state.Validators                                   { return nil }
func (d *zzC16DB) CreateValidator(name string, operator, coinbase common.Address, role params.ValidatorRole, mainPubKey, blsPubKey hexutil.Bytes, token, stake *big.Int, acceptDelegation, commissionRate, riskObligation uint16, status uint8) *state.Validator {
	d.mut("CreateValidator")
	return nil
}
func (d *zzC16DB) UpdateValidator(newVal, oldVal *state.Validator) bool {
	d.mut("UpdateValidator")
	return true
}
func (d *zzC16DB) RemoveValidator(common.Address) bool { d.mut("RemoveValidator"); return true }
func (d *zzC16DB) AddWithdrawRecord(*state.WithdrawRecord) bool {
	d.mut("AddWithdrawRecord")
	return true
}
func (d *zzC16DB) GetWithdrawQueue() *state.WithdrawQueue { return nil }
func (d *zzC16DB) RemoveWithdrawRecords([]int) bool       { d.mut("RemoveWithdrawRecords"); return true }

// ---- the callee: an arbitrary outcome (induction hypothesis for the frame below) ----

var (
	zzC16Other    = errors.New("some execution error")
	zzC16ReadOnly bool
	zzC16RunCalls int
	zzC16Oversize bool
)

func zzC16Run(evm *EVM, contract *Contract, input []byte, readOnly bool) ([]byte, error) {
	zzC16ReadOnly = readOnly
	zzC16RunCalls++
	zzC16Given = contract.Gas
	// the callee may change state through the journalled interface ...
	evm.StateDB.SetState(common.Address{9}, common.Hash{}, common.Hash{1})
	// ... and uses an arbitrary part of the gas it was given
	left := zzverif.U64("callee.gasLeft")
	zzverif.Assume(left <= contract.Gas)
	contract.Gas = left
	lens := []int{0, 1}
	if zzC16Oversize {
		lens = append(lens, 24577) // init code returning more than the code size limit (creation frames)
	}
	ret := make([]byte, lens[zzverif.Choose("callee.retLen", len(lens))])
	switch zzverif.Choose("callee.outcome", 3) {
	case 0:
		return ret, nil
	case 1:
		return ret, errExecutionReverted
	}
	return nil, zzC16Other
}

func zzC16CanTransfer(db StateDB, addr common.Address, amount *big.Int) bool {
	return db.GetBalance(addr).Cmp(amount) >= 0
}
func zzC16Transfer(db StateDB, sender, recipient common.Address, amount *big.Int) {
	db.SubBalance(sender, amount)
	db.AddBalance(recipient, amount)
}

func zzC16EVM() (*EVM, *zzC16DB) {
	db := &zzC16DB{bal: map[common.Address]*big.Int{}, nonce: map[common.Address]uint64{}, exists: zzverif.Bool("callee.exists")}
	db.bal[common.Address{1}] = zzverif.Big("caller.balance", 128)
	db.nextSnap = zzverif.Choose("snapshots.before", 3)
	evm := &EVM{StateDB: db, vmConfig: &Config{}}
	evm.Context.CanTransfer = zzC16CanTransfer
	evm.Context.Transfer = zzC16Transfer
	evm.vmConfig.NoRecursion = zzverif.Bool("noRecursion")
	d := zzverif.U16("depth")
	zzverif.Assume(d <= 1026)
	evm.depth = int(d)
	zzC16RunCalls = 0
	return evm, db
}

// zzC16Frame checks the event log of one frame.
func zzC16Frame(db *zzC16DB, started bool, err error, gas, left uint64) {
	zzverif.Assert(left <= gas, "gas returned never exceeds gas supplied")
	if !started {
		for _, e := range db.events {
			zzverif.Assert(e.kind == "snapshot" || e.kind == "revert", "a refused call makes no state mutation")
		}
		return
	}
	// the snapshot precedes every mutation of the frame
	snapAt, snapID := -1, -1
	for i, e := range db.events {
		if e.kind == "snapshot" && snapAt < 0 {
			snapAt, snapID = i, e.id
		}
		if len(e.kind) > 7 && e.kind[:7] == "mutate:" && e.kind != "mutate:SetNonce" {
			zzverif.Assert(snapAt >= 0 && snapAt < i, "the snapshot is taken before every balance/storage/code/log/account mutation of the frame")
		}
	}
	last := db.events[len(db.events)-1]
	if err != nil {
		zzverif.Reach("failed")
		zzverif.Assert(last.kind == "revert" && last.id == snapID, "a failed frame ends by reverting to the snapshot taken at its start")
		if err != errExecutionReverted {
			zzverif.Assert(left == 0, "a failure other than REVERT consumes all gas of the frame")
		}
	} else {
		zzverif.Reach("succeeded")
		for _, e := range db.events {
			zzverif.Assert(e.kind != "revert", "a successful frame is not reverted")
		}
	}
}

func zzH_C16_call() {
	evm, db := zzC16EVM()
	caller := AccountRef(common.Address{1})
	addr := common.Address{2}
	gas := zzverif.U64("gas")
	value := zzverif.Big("value", 128)
	kind := zzverif.Choose("kind", 4)
	var left uint64
	var err error
	switch kind {
	case 0:
		_, left, err = evm.Call(caller, addr, nil, gas, value)
	case 1:
		_, left, err = evm.CallCode(caller, addr, nil, gas, value)
	case 2:
		_, left, err = evm.DelegateCall(NewContract(caller, caller, value, gas), addr, nil, gas)
	case 3:
		_, left, err = evm.StaticCall(caller, addr, nil, gas)
	}
	started := zzC16RunCalls > 0
	if !started {
		zzverif.Reach("refused")
		zzverif.Assert(left == gas, "a refused call returns exactly the gas supplied")
		refusal := (evm.vmConfig.NoRecursion && evm.depth > 0) || evm.depth > int(params.CallCreateDepth) ||
			(kind <= 1 && db.GetBalance(common.Address{1}).Cmp(value) < 0)
		zzverif.Assert(refusal, "a call is refused only for depth, recursion ban or insufficient balance")
	} else {
		zzverif.Reach("started")
		zzverif.Assert(zzC16RunCalls == 1, "the callee runs once")
		zzverif.Assert(zzC16ReadOnly == (kind == 3), "exactly StaticCall runs the callee read-only")
	}
	zzC16Frame(db, started, err, gas, left)
	zzverif.Reach("end")
}

func zzH_C16_create() {
	zzC16Oversize = true
	evm, db := zzC16EVM()
	caller := AccountRef(common.Address{1})
	gas := zzverif.U64("gas")
	value := zzverif.Big("value", 128)
	db.nonce[common.Address{3}] = zzverif.U64("target.nonce")
	if zzverif.Bool("target.hasCode") {
		db.codeHash = common.Hash{7}
	}
	_, _, left, err := evm.create(caller, []byte{0}, gas, value, common.Address{3})
	started := zzC16RunCalls > 0
	if !started {
		zzverif.Reach("create-refused")
		if err == ErrContractAddressCollision {
			zzverif.Assert(left == 0, "an address collision consumes all gas (as specified)")
			for _, e := range db.events {
				zzverif.Assert(e.kind == "mutate:SetNonce", "before the frame starts only the creator's nonce is bumped")
			}
		} else if err != nil {
			zzverif.Assert(left == gas && len(db.events) == 0, "a refused create returns the gas supplied and touches nothing")
		}
	} else {
		zzverif.Reach("create-started")
		zzC16Frame(db, true, err, gas, left)
	}
	zzverif.Assert(left <= gas, "gas returned never exceeds gas supplied")
	zzverif.Reach("end")
}

// zzH_C16_readonly: for every opcode byte, the real interpreter loop in read-only mode
// rejects exactly the state-changing set, as recorded in the real jump table.
func zzH_C16_readonly() {
	db := &zzC16DB{bal: map[common.Address]*big.Int{}, nonce: map[common.Address]uint64{}}
	evm := &EVM{StateDB: db, vmConfig: &Config{}}
	evm.vmConfig.JumpTable = istanbulInstructionSet
	in := NewEVMInterpreter(evm, evm.vmConfig)
	op := OpCode(zzverif.Choose("opcode", 256))
	val := zzverif.U8("callValue")
	// seven pushes (the third item from the top is the CALL value), then the opcode under test
	code := []byte{byte(PUSH1), 0, byte(PUSH1), 0, byte(PUSH1), 0, byte(PUSH1), 0, byte(PUSH1), val, byte(PUSH1), 0, byte(PUSH1), 0, byte(op)}
	c := NewContract(AccountRef(common.Address{1}), AccountRef(common.Address{2}), new(big.Int), 7*GasFastestStep)
	c.Code = code
	_, err := in.Run(c, nil, true)
	changing := op == SSTORE || (op >= LOG0 && op <= LOG4) || op == CREATE || op == CREATE2 || op == SELFDESTRUCT || (op == CALL && val != 0)
	valid := istanbulInstructionSet[op].valid
	if valid {
		zzverif.Reach("valid-op")
		zzverif.Assert((err == errWriteProtection) == changing, "read-only mode rejects exactly SSTORE, LOG0-4, CREATE, CREATE2, SELFDESTRUCT and value-bearing CALL")
		zzverif.Assert(istanbulInstructionSet[op].writes == (changing && op != CALL), "the jump table's writes flag marks exactly the state-changing opcodes")
	}
	for _, e := range db.events {
		zzverif.Assert(e.kind != "mutate:SetState" && e.kind != "mutate:AddLog" && e.kind != "mutate:Suicide" && e.kind != "mutate:SetCode" && e.kind != "mutate:SubBalance", "no state mutation happens in read-only mode")
	}
	zzverif.Reach("end")
}

// ---- the CALL family's gas forwarding through the real interpreter loop ----

var zzC16Given uint64 // gas the callee frame was started with

// zzH_C16_opcall: one CALL / CALLCODE / DELEGATECALL / STATICCALL instruction executed by the
// real interpreter (opCall*, gasCall*, callGas, memory expansion 0) with a symbolic gas
// operand, value and caller gas, the callee an arbitrary outcome: gas is never created -
// the callee is started with at most what the caller still had (plus the stipend of a value
// transfer), and the caller ends with less than it started with.  (This chain's callGas hands
// out the gas operand uncapped when it is below the available gas; the all-but-one-64th rule
// only applies when the operand exceeds it - the statement does not ask for more.)
//
//verif:mode int
func zzH_C16_opcall() {
	evm, db := zzC16EVM()
	evm.depth = 0
	evm.vmConfig.NoRecursion = false
	evm.vmConfig.JumpTable = istanbulInstructionSet
	evm.LocalRecorder = local.FakeRecorder()
	in := NewEVMInterpreter(evm, evm.vmConfig)
	evm.interpreter = in
	ops := []OpCode{CALL, CALLCODE, DELEGATECALL, STATICCALL}
	op := ops[zzverif.Choose("opcode", 4)]
	val := zzverif.U8("callValue")
	req := zzverif.U64("gasOperand")
	var code []byte
	push1 := func(b byte) { code = append(code, byte(PUSH1), b) }
	// stack (top first): gas, addr, [value,] inOffset, inSize, retOffset, retSize
	push1(0)
	push1(0)
	push1(0)
	push1(0)
	npush := 6
	if op == CALL || op == CALLCODE {
		push1(val)
		npush = 7
	}
	push1(2) // callee address
	code = append(code, byte(PUSH8))
	for i := 7; i >= 0; i-- {
		code = append(code, byte(req>>(8*uint(i))))
	}
	code = append(code, byte(op))
	G := zzverif.U64("callerGas")
	zzverif.Assume(G < 1<<62)
	c := NewContract(AccountRef(common.Address{1}), AccountRef(common.Address{1}), new(big.Int), G)
	c.Code = code
	zzC16Given = 0
	_, err := in.Run(c, nil, false)
	before := uint64(npush) * GasFastestStep // the pushes
	if zzC16RunCalls > 0 {
		zzverif.Reach("callee-ran")
		stipend := uint64(0)
		if (op == CALL || op == CALLCODE) && val != 0 {
			stipend = params.CallStipend
		}
		avail := G - before - 700 // what the caller had left after the constant cost of the call
		zzverif.Assert(G >= before+700, "the call only runs when its constant cost is covered")
		zzverif.Assert(zzC16Given <= avail+stipend, "the callee is started with gas the caller had and paid for (plus the value-transfer stipend), never more")
	}
	zzverif.Assert(c.Gas <= G, "a frame never ends with more gas than it started with")
	if err == nil && zzC16RunCalls > 0 {
		zzverif.Assert(c.Gas+before+700 <= G, "the caller pays at least the constant cost of the call")
	}
	_ = db
	zzverif.Reach("end")
}

// zzH_C16_static_nesting: one interpreter frame is the inductive step over nesting depth of the
// static context: entered with the interpreter-wide read-only flag in either state and with
// either readOnly argument, the frame runs with flag = (flag before || argument) - observed at
// a state-changing opcode - and leaves the flag exactly as it found it, also when the frame ends
// in an error.  (So a static call nested in a static context does not lift the protection of
// the frames above it, and a static context ends with the frame that opened it.)
func zzH_C16_static_nesting() {
	db := &zzC16DB{bal: map[common.Address]*big.Int{}, nonce: map[common.Address]uint64{}}
	evm := &EVM{StateDB: db, vmConfig: &Config{}}
	evm.vmConfig.JumpTable = istanbulInstructionSet
	evm.LocalRecorder = local.FakeRecorder()
	in := NewEVMInterpreter(evm, evm.vmConfig)
	outer := zzverif.Bool("enclosingContextIsStatic")
	arg := zzverif.Bool("frameEnteredAsStatic")
	in.readOnly = outer
	var code []byte
	switch zzverif.Choose("frameBody", 3) {
	case 0: // a write
		code = []byte{byte(PUSH1), 1, byte(PUSH1), 0, byte(SSTORE), byte(STOP)}
	case 1: // ends in an error
		code = []byte{0xfe} // the designated invalid opcode
	case 2: // no code at all
	}
	c := NewContract(AccountRef(common.Address{1}), AccountRef(common.Address{2}), new(big.Int), 100000)
	c.Code = code
	_, err := in.Run(c, nil, arg)
	wrote := false
	for _, e := range db.events {
		if e.kind == "mutate:SetState" {
			wrote = true
		}
	}
	if len(code) == 6 {
		zzverif.Reach("write-attempted")
		zzverif.Assert(wrote == !(outer || arg), "a write goes through exactly when neither the enclosing context nor this frame is static")
		zzverif.Assert((err == errWriteProtection) == (outer || arg), "a write in a static context is refused")
	}
	zzverif.Assert(in.readOnly == outer, "a frame leaves the interpreter's static flag as it found it")
	zzverif.Reach("end")
}
