package core

// C12 — protocol version changes only by a quorum of block votes, at the
// announced round.  Inductive step over VerifyYouVersionState with a ghost
// state, builder-subset-of-verifier, and the 8-rounds-back version lookup.

import (
	"github.com/youchainhq/go-youchain/common"
	"math/big"

	"github.com/youchainhq/go-youchain/core/types"
	"github.com/youchainhq/go-youchain/params"
	"github.com/youchainhq/go-youchain/zzverif"
)

//verif:mode int

const zzC12MaxParam = 1 << 32 // stated bound: every round parameter < 2^32, block numbers < 2^40

type zzC12Params struct{ R, T, m, M, wait uint64 }

// zzC12Install installs a 3-version local table whose upgrade parameters are symbolic.
func zzC12Install() [4]zzC12Params {
	var ps [4]zzC12Params
	tbl := params.VersionsMap{}
	for v := 1; v <= 3; v++ {
		var yp params.YouParams
		p := zzC12Params{R: zzverif.U64("R"), T: zzverif.U64("T"), m: zzverif.U64("minWait"), M: zzverif.U64("maxWait"), wait: zzverif.U64("wait")}
		// validity predicate satisfied by every shipped table
		zzverif.Assume(p.R >= 1 && p.R < zzC12MaxParam)
		zzverif.Assume(p.T >= 1 && p.T <= p.R)
		zzverif.Assume(p.m >= 1 && p.m <= p.M && p.M < zzC12MaxParam)
		zzverif.Assume(p.wait < zzC12MaxParam)
		yp.Version = params.YouVersion(v)
		yp.UpgradeVoteRounds = p.R
		yp.UpgradeThreshold = p.T
		yp.MinUpgradeWaitRounds = p.m
		yp.MaxUpgradeWaitRounds = p.M
		yp.UpgradeWaitRounds = p.wait
		if v < 3 {
			// the locally approved upgrade target: none, or the next version
			if zzverif.Bool("approve") {
				yp.ApprovedUpgradeVersion = params.YouVersion(v + 1)
			}
		}
		tbl[yp.Version] = yp
		ps[v] = p
	}
	params.Versions = tbl
	return ps
}

type zzC12Ghost struct{ pr, vb0, naw uint64 }

func zzC12Header(tag string) (*types.Header, uint64) {
	n := zzverif.U64(tag + ".Number")
	zzverif.Assume(n < 1<<40)
	h := &types.Header{Number: new(big.Int).SetUint64(n)}
	h.CurrVersion = params.YouVersion(zzverif.U64(tag + ".CurrVersion"))
	h.NextVersion = params.YouVersion(zzverif.U64(tag + ".NextVersion"))
	h.NextApprovals = zzverif.U64(tag + ".NextApprovals")
	h.NextVoteBefore = zzverif.U64(tag + ".NextVoteBefore")
	h.NextSwitchOn = zzverif.U64(tag + ".NextSwitchOn")
	return h, n
}

// zzC12Inv is the representation invariant of a header accepted along a chain
// (Appendix B of DESIGN.md), over the header and the ghost state.
func zzC12Inv(h *types.Header, n uint64, g zzC12Ghost, p zzC12Params) bool {
	if h.NextVersion == 0 {
		return h.NextApprovals == 0 && h.NextVoteBefore == 0 && h.NextSwitchOn == 0
	}
	ok := g.pr >= 1 && g.pr <= n && g.vb0 == g.pr+p.R &&
		g.vb0+p.m <= h.NextSwitchOn && h.NextSwitchOn <= g.vb0+p.M && n < h.NextSwitchOn
	if n < g.vb0 {
		// window still open after block n
		ok = ok && h.NextApprovals == g.naw && g.naw >= 1 && g.naw <= n-g.pr+1
		if h.NextApprovals < p.T {
			ok = ok && h.NextVoteBefore == g.vb0
		}
	} else {
		// at most one approval per block since the proposal (keeps the counter far from wrapping)
		ok = ok && g.naw >= p.T && h.NextApprovals >= g.naw && g.naw <= p.R && h.NextApprovals <= n-g.pr+1
	}
	return ok
}

// zzC12Verify runs the real verifier; a logging.Crit (the client halts by design
// when the chain moves to a version it does not know) is reported as halted.
func zzC12Verify(prev, curr *types.Header) (err error, halted bool) {
	defer func() {
		if r := recover(); r != nil {
			halted = true
		}
	}()
	return VerifyYouVersionState(prev, curr), false
}

// zzH_C12_step: Inv(prev) ∧ Verify(prev,curr)=nil ⇒ Inv(curr) ∧ legitimate switch.
func zzH_C12_step() {
	ps := zzC12Install()
	prev, n := zzC12Header("prev")
	g := zzC12Ghost{pr: zzverif.U64("g.pr"), vb0: zzverif.U64("g.vb0"), naw: zzverif.U64("g.naw")}
	cv := zzverif.Choose("prev.version", 3) + 1
	zzverif.Assume(prev.CurrVersion == params.YouVersion(cv))
	p := ps[cv]
	zzverif.Assume(zzC12Inv(prev, n, g, p))

	curr, cn := zzC12Header("curr")
	zzverif.Assume(cn == n+1)
	err, halted := zzC12Verify(prev, curr)
	if halted {
		zzverif.Reach("halted")
		zzverif.Assert(cn == prev.NextSwitchOn && prev.NextVersion > 3, "the client halts only when the chain switches to a version it does not know")
		return
	}
	if err != nil {
		zzverif.Reach("rejected")
		return
	}
	zzverif.Reach("accepted")
	// at most one approval per block
	zzverif.Assert(curr.NextVersion == 0 || prev.NextVersion == 0 ||
		curr.NextApprovals == prev.NextApprovals || curr.NextApprovals == prev.NextApprovals+1, "at most one approval per block")
	if !(prev.NextVersion != 0 && cn == prev.NextSwitchOn) {
		zzverif.Assert(curr.CurrVersion == prev.CurrVersion, "version changes only at the announced round of a pending proposal")
	} else {
		zzverif.Reach("switched")
		zzverif.Assert(prev.NextVersion != 0 && curr.CurrVersion == prev.NextVersion, "switch only to the announced version")
		zzverif.Assert(cn == prev.NextSwitchOn, "switch only at the announced round")
		zzverif.Assert(g.naw >= p.T, "switch only with threshold approvals cast inside the voting window")
		zzverif.Assert(prev.NextSwitchOn >= g.vb0+p.m, "switch not before window end + minimum wait")
		zzverif.Assert(curr.NextVersion == 0 && curr.NextApprovals == 0, "upgrade state cleared on switch")
		return
	}
	// ghost step
	g2 := g
	switch {
	case curr.NextVersion == 0:
		g2 = zzC12Ghost{}
		if prev.NextVersion != 0 {
			zzverif.Reach("cleared")
			zzverif.Assert(cn == g.vb0 && g.naw < p.T, "a proposal is dropped only when its window closed below threshold")
		}
	case prev.NextVersion == 0:
		zzverif.Reach("proposed")
		g2 = zzC12Ghost{pr: cn, vb0: curr.NextVoteBefore, naw: 1}
	default:
		zzverif.Reach("ongoing")
		zzverif.Assert(curr.NextVersion == prev.NextVersion && curr.NextSwitchOn == prev.NextSwitchOn, "announced version and round are immutable")
		if cn < g.vb0 {
			g2.naw = g.naw + (curr.NextApprovals - prev.NextApprovals)
		}
	}
	// known finding C12-late-approval: the approval lifting threshold-1 to threshold is
	// accepted in the block *at* NextVoteBefore, i.e. after the window has closed.
	late := prev.NextVersion != 0 && cn == g.vb0 && prev.NextApprovals < p.T && curr.NextApprovals == prev.NextApprovals+1
	zzverif.AssertKF(zzC12Inv(curr, cn, g2, ps[cv]), "invariant preserved", "C12-late-approval", late)
	zzverif.Reach("end")
}

// zzH_C12_builder: every header the builder derives is accepted by the verifier.
func zzH_C12_builder() {
	ps := zzC12Install()
	prev, n := zzC12Header("prev")
	g := zzC12Ghost{pr: zzverif.U64("g.pr"), vb0: zzverif.U64("g.vb0"), naw: zzverif.U64("g.naw")}
	cv := zzverif.Choose("prev.version", 3) + 1
	zzverif.Assume(prev.CurrVersion == params.YouVersion(cv))
	zzverif.Assume(zzC12Inv(prev, n, g, ps[cv]))
	// the builder's client knows versions 1..3; the pending NextVersion may also be 4, a
	// version this client has not been upgraded to yet (it then abstains from approving, but
	// what it builds - the switch at the announced round included - must still be what
	// the verifier of an upgraded node demands; the client itself halts afterwards by design)
	zzverif.Assume(prev.NextVersion <= 4)

	curr := &types.Header{Number: new(big.Int).SetUint64(n + 1)}
	if err := ProcessYouVersionState(prev, curr); err != nil {
		zzverif.Reach("builder-refused")
		return
	}
	zzverif.Reach("built")
	// the verifying node knows version 4 as well
	params.Versions[4] = params.YouParams{Version: 4}
	zzverif.Assert(VerifyYouVersionState(prev, curr) == nil, "verifier accepts what the builder derives")
	zzverif.Reach("end")
}

// ---- chain-level harnesses ------------------------------------------------

var zzC12DB map[uint64]*types.Header // the canonical headers the stubbed database knows

//verif:replace (*$M/core.HeaderChain).GetHeaderByNumber zzC12GetHeaderByNumber
//verif:replace (*$M/core.BlockChain).HasBlock zzC12HasBlock
//verif:replace (*$M/core/types.Header).Hash zzC12HeaderHash

// batches overlap: any block of a batch may already be in the database
func zzC12HasBlock(bc *BlockChain, hash common.Hash, number uint64) bool {
	return zzverif.Bool("blockAlreadyKnown")
}

func zzC12HeaderHash(h *types.Header) common.Hash { return common.Hash{0xB1, byte(h.Number.Uint64())} }

func zzC12GetHeaderByNumber(hc *HeaderChain, number uint64) *types.Header { return zzC12DB[number] }

const zzC12ChainMax = 4

// zzH_C12_chain: no invariant assumed.  A chain of k headers starting right after a
// header with no pending proposal goes through the real chain-level entry
// (*BlockChain).VerifyYouVersionState2; the ghost (proposal round, window end,
// in-window approvals) is computed from the history itself, and every switch must be
// legitimate.  Also: the wrapper reports exactly the first pair the pairwise verifier rejects.
func zzH_C12_chain() {
	ps := zzC12Install()
	k := zzverif.Bound("chain length", 3, zzC12ChainMax)
	first, n0 := zzC12Header("h0")
	cv := zzverif.Choose("h0.version", 3) + 1
	zzverif.Assume(first.CurrVersion == params.YouVersion(cv))
	// start: no proposal pending (genesis, or any block after a switch / a dropped proposal)
	zzverif.Assume(first.NextVersion == 0 && first.NextApprovals == 0 && first.NextVoteBefore == 0 && first.NextSwitchOn == 0)
	zzverif.Assume(n0 >= 1)
	zzC12DB = map[uint64]*types.Header{n0: first}
	chain := make([]*types.Header, k)
	for i := range chain {
		h, n := zzC12Header("h" + string(rune('1'+i)))
		zzverif.Assume(n == n0+uint64(i)+1)
		chain[i] = h
	}
	bc := &BlockChain{hc: &HeaderChain{}}
	var idx int
	var err error
	halted := false
	func() {
		defer func() {
			if r := recover(); r != nil {
				halted = true
			}
		}()
		if zzverif.Bool("blocksEntry") {
			// the import path's entry (InsertChain) takes blocks; some of them may be known already
			blocks := make(types.Blocks, k)
			for i, h := range chain {
				blocks[i] = types.NewBlockWithHeader(h)
			}
			idx, err = bc.VerifyYouVersionState(blocks)
		} else {
			idx, err = bc.VerifyYouVersionState2(chain)
		}
	}()
	if halted {
		zzverif.Reach("halted")
		return
	}
	// replay the history pairwise with the ghost
	g := zzC12Ghost{}
	prev, n := first, n0
	late := false
	for i := 0; i < k; i++ {
		curr, cn := chain[i], n+1
		perr, ph := zzC12Verify(prev, curr)
		zzverif.Assert(!ph, "pairwise verifier halts only where the chain entry halted")
		if perr != nil {
			zzverif.Reach("chain-rejected")
			zzverif.Assert(err != nil && idx == i, "chain entry reports the first rejected header")
			return
		}
		p := ps[cv]
		if prev.NextVersion != 0 && cn == prev.NextSwitchOn {
			zzverif.Reach("chain-switched")
			zzverif.Assert(curr.CurrVersion == prev.NextVersion, "switch only to the announced version")
			zzverif.AssertKF(g.naw >= p.T, "switch only with threshold approvals cast inside the voting window", "C12-late-approval", late)
			zzverif.Assert(cn >= g.vb0+p.m, "switch not before window end + minimum wait")
			zzverif.Assert(g.vb0 == g.pr+p.R, "window length is the announced number of vote rounds")
			cv = zzverif.Choose("switched.version", 3) + 1
			zzverif.Assume(curr.CurrVersion == params.YouVersion(cv))
			g, late = zzC12Ghost{}, false
		} else {
			zzverif.Assert(curr.CurrVersion == prev.CurrVersion, "version changes only at the announced round of a pending proposal")
			switch {
			case curr.NextVersion == 0:
				if prev.NextVersion != 0 {
					zzverif.Reach("chain-cleared")
				}
				g, late = zzC12Ghost{}, false
			case prev.NextVersion == 0:
				zzverif.Reach("chain-proposed")
				g = zzC12Ghost{pr: cn, vb0: curr.NextVoteBefore, naw: 1}
			default:
				zzverif.Assert(curr.NextApprovals == prev.NextApprovals || curr.NextApprovals == prev.NextApprovals+1, "at most one approval per block")
				zzverif.Assert(curr.NextSwitchOn == prev.NextSwitchOn && curr.NextVersion == prev.NextVersion, "announced version and round are immutable")
				if cn < g.vb0 {
					g.naw += curr.NextApprovals - prev.NextApprovals
				} else if cn == g.vb0 && prev.NextApprovals < p.T && curr.NextApprovals == prev.NextApprovals+1 {
					late = true
				}
			}
		}
		prev, n = curr, cn
	}
	zzverif.Assert(err == nil, "chain entry accepts a chain whose every pair the verifier accepts")
	zzverif.Reach("chain-accepted")
}

// zzH_C12_lookback: the parameters used for round r are those of the header 8 rounds
// back (round 0 for r<=8), taken from the database or, failing that, from the batch of
// parents being verified together; the lookup never indexes outside the batch.
func zzH_C12_lookback() {
	zzC12Install()
	const back = 8
	np := int(zzverif.Choose("parents", 11)) // 0..10 parents, contiguous, ascending (the caller passes headers[:i])
	first := zzverif.U64("firstNum")
	zzverif.Assume(first >= 1 && first < 1<<40)
	parents := make([]*types.Header, np)
	for i := range parents {
		parents[i] = &types.Header{Number: new(big.Int).SetUint64(first + uint64(i)), CurrVersion: params.YouVersion(zzverif.U64("pv"))}
	}
	r := zzverif.U64("r")
	zzverif.Assume(r < 1<<40)
	if np > 0 {
		// caller contract (ucon.VerifyHeaders): the header being verified is the one right after the batch
		zzverif.Assume(r == first+uint64(np))
	}
	var pr uint64
	if r > back {
		pr = r - back
	}
	zzC12DB = map[uint64]*types.Header{}
	var want *types.Header
	if zzverif.Bool("inDB") {
		want = &types.Header{Number: new(big.Int).SetUint64(pr), CurrVersion: params.YouVersion(zzverif.U64("dbv"))}
		zzC12DB[pr] = want
	} else if np > 0 && pr >= first {
		want = parents[pr-first]
	}
	hc := &HeaderChain{}
	yp, err := hc.VersionForRoundWithParents(r, parents)
	if want == nil {
		zzverif.Reach("lookback-missing")
		zzverif.Assert(err != nil && yp == nil, "no header 8 rounds back: error")
		return
	}
	if want.CurrVersion < 1 || want.CurrVersion > 3 {
		zzverif.Reach("lookback-unknown-version")
		zzverif.Assert(err != nil, "unknown version 8 rounds back: error")
		return
	}
	zzverif.Reach("lookback-found")
	zzverif.Assert(err == nil && yp != nil && yp.Version == want.CurrVersion, "parameters of the version active 8 rounds back")
}

// ---- the import path ----

var zzC12Imported bool

//verif:replace (*$M/core.BlockChain).insertChain zzC12InsertChain
//verif:noop (*$M/core.BlockChain).PostChainEvents

func zzC12InsertChain(bc *BlockChain, chain types.Blocks) (int, []interface{}, []*types.Log, error) {
	zzC12Imported = true
	return 0, nil, nil, nil
}

// zzH_C12_import: the real InsertChain (sanity checks, version-state check, then the block
// import proper, here a recording stand-in) on a batch of one or two linked blocks with
// arbitrary version fields after an arbitrary known parent: the import proper starts only
// if the pure verifier accepts every consecutive pair of the batch - also when the batch
// carries its parent's version state over unchanged.
func zzH_C12_import() {
	zzC12Install()
	parent, n0 := zzC12Header("parent")
	cv := zzverif.Choose("parent.version", 3) + 1
	zzverif.Assume(parent.CurrVersion == params.YouVersion(cv) && n0 >= 1)
	zzC12DB = map[uint64]*types.Header{n0: parent}
	k := zzverif.Choose("batchLength", 2) + 1
	var blocks types.Blocks
	prevHash := zzC12HeaderHash(parent)
	headers := make([]*types.Header, k)
	for i := 0; i < k; i++ {
		h, n := zzC12Header("b" + string(rune('1'+i)))
		zzverif.Assume(n == n0+uint64(i)+1)
		h.ParentHash = prevHash
		prevHash = zzC12HeaderHash(h)
		headers[i] = h
		blocks = append(blocks, types.NewBlockWithHeader(h))
	}
	zzC12Imported = false
	bc := &BlockChain{hc: &HeaderChain{}}
	var err error
	halted := false
	func() {
		defer func() {
			if r := recover(); r != nil {
				halted = true
			}
		}()
		err = bc.InsertChain(blocks)
	}()
	if halted {
		zzverif.Reach("halted")
		return
	}
	if !zzC12Imported {
		zzverif.Assert(err != nil, "a batch that is not imported is reported as refused")
		zzverif.Reach("refused")
		return
	}
	zzverif.Reach("imported")
	prev := parent
	for i := 0; i < k; i++ {
		perr, ph := zzC12Verify(prev, headers[i])
		zzverif.Assert(perr == nil && !ph, "the import proper starts only if the pure verifier accepts every consecutive pair of the batch")
		prev = headers[i]
	}
	zzverif.Reach("end")
}
