package core

// C12 — protocol version changes only by a quorum of block votes, at the
// announced round.  Inductive step over VerifyYouVersionState with a ghost
// state, builder-subset-of-verifier, and the 8-rounds-back version lookup.

import (
	"math/big"

	"github.com/youchainhq/go-youchain/core/types"
	"github.com/youchainhq/go-youchain/params"
	"github.com/youchainhq/go-youchain/zzverif"
)

//verif:mode int

const zzC12MaxParam = 1 << 32 // stated bound: every round parameter < 2^32, block numbers < 2^40

type zzC12Params struct{ R, T, m, M, wait uint64 }

// zzC12Install installs a 3-version local table whose upgrade parameters are symbolic.
func zzC12Install() [4]zzC12Params {
	var ps [4]zzC12Params
	tbl := params.VersionsMap{}
	for v := 1; v <= 3; v++ {
		var yp params.YouParams
		p := zzC12Params{R: zzverif.U64("R"), T: zzverif.U64("T"), m: zzverif.U64("minWait"), M: zzverif.U64("maxWait"), wait: zzverif.U64("wait")}
		// validity predicate satisfied by every shipped table
		zzverif.Assume(p.R >= 1 && p.R < zzC12MaxParam)
		zzverif.Assume(p.T >= 1 && p.T <= p.R)
		zzverif.Assume(p.m >= 1 && p.m <= p.M && p.M < zzC12MaxParam)
		zzverif.Assume(p.wait < zzC12MaxParam)
		yp.Version = params.YouVersion(v)
		yp.UpgradeVoteRounds = p.R
		yp.UpgradeThreshold = p.T
		yp.MinUpgradeWaitRounds = p.m
		yp.MaxUpgradeWaitRounds = p.M
		yp.UpgradeWaitRounds = p.wait
		if v < 3 {
			// the locally approved upgrade target: none, or the next version
			if zzverif.Bool("approve") {
				yp.ApprovedUpgradeVersion = params.YouVersion(v + 1)
			}
		}
		tbl[yp.Version] = yp
		ps[v] = p
	}
	params.Versions = tbl
	return ps
}

type zzC12Ghost struct{ pr, vb0, naw uint64 }

func zzC12Header(tag string) (*types.Header, uint64) {
	n := zzverif.U64(tag + ".Number")
	zzverif.Assume(n < 1<<40)
	h := &types.Header{Number: new(big.Int).SetUint64(n)}
	h.CurrVersion = params.YouVersion(zzverif.U64(tag + ".CurrVersion"))
	h.NextVersion = params.YouVersion(zzverif.U64(tag + ".NextVersion"))
	h.NextApprovals = zzverif.U64(tag + ".NextApprovals")
	h.NextVoteBefore = zzverif.U64(tag + ".NextVoteBefore")
	h.NextSwitchOn = zzverif.U64(tag + ".NextSwitchOn")
	return h, n
}

// zzC12Inv is the representation invariant of a header accepted along a chain
// (Appendix B of DESIGN.md), over the header and the ghost state.
func zzC12Inv(h *types.Header, n uint64, g zzC12Ghost, p zzC12Params) bool {
	if h.NextVersion == 0 {
		return h.NextApprovals == 0 && h.NextVoteBefore == 0 && h.NextSwitchOn == 0
	}
	ok := g.pr >= 1 && g.pr <= n && g.vb0 == g.pr+p.R &&
		g.vb0+p.m <= h.NextSwitchOn && h.NextSwitchOn <= g.vb0+p.M && n < h.NextSwitchOn
	if n < g.vb0 {
		// window still open after block n
		ok = ok && h.NextApprovals == g.naw && g.naw >= 1 && g.naw <= n-g.pr+1
		if h.NextApprovals < p.T {
			ok = ok && h.NextVoteBefore == g.vb0
		}
	} else {
		// at most one approval per block since the proposal (keeps the counter far from wrapping)
		ok = ok && g.naw >= p.T && h.NextApprovals >= g.naw && g.naw <= p.R && h.NextApprovals <= n-g.pr+1
	}
	return ok
}

// zzC12Verify runs the real verifier; a logging.Crit (the client halts by design
// when the chain moves to a version it does not know) is reported as halted.
func zzC12Verify(prev, curr *types.Header) (err error, halted bool) {
	defer func() {
		if r := recover(); r != nil {
			halted = true
		}
	}()
	return VerifyYouVersionState(prev, curr), false
}

// zzH_C12_step: Inv(prev) ∧ Verify(prev,curr)=nil ⇒ Inv(curr) ∧ legitimate switch.
func zzH_C12_step() {
	ps := zzC12Install()
	prev, n := zzC12Header("prev")
	g := zzC12Ghost{pr: zzverif.U64("g.pr"), vb0: zzverif.U64("g.vb0"), naw: zzverif.U64("g.naw")}
	cv := zzverif.Choose("prev.version", 3) + 1
	zzverif.Assume(prev.CurrVersion == params.YouVersion(cv))
	p := ps[cv]
	zzverif.Assume(zzC12Inv(prev, n, g, p))

	curr, cn := zzC12Header("curr")
	zzverif.Assume(cn == n+1)
	err, halted := zzC12Verify(prev, curr)
	if halted {
		zzverif.Reach("halted")
		zzverif.Assert(cn == prev.NextSwitchOn && prev.NextVersion > 3, "the client halts only when the chain switches to a version it does not know")
		return
	}
	if err != nil {
		zzverif.Reach("rejected")
		return
	}
	zzverif.Reach("accepted")
	// at most one approval per block
	zzverif.Assert(curr.NextVersion == 0 || prev.NextVersion == 0 ||
		curr.NextApprovals == prev.NextApprovals || curr.NextApprovals == prev.NextApprovals+1, "at most one approval per block")
	if !(prev.NextVersion != 0 && cn == prev.NextSwitchOn) {
		zzverif.Assert(curr.CurrVersion == prev.CurrVersion, "version changes only at the announced round of a pending proposal")
	} else {
		zzverif.Reach("switched")
		zzverif.Assert(prev.NextVersion != 0 && curr.CurrVersion == prev.NextVersion, "switch only to the announced version")
		zzverif.Assert(cn == prev.NextSwitchOn, "switch only at the announced round")
		zzverif.Assert(g.naw >= p.T, "switch only with threshold approvals cast inside the voting window")
		zzverif.Assert(prev.NextSwitchOn >= g.vb0+p.m, "switch not before window end + minimum wait")
		zzverif.Assert(curr.NextVersion == 0 && curr.NextApprovals == 0, "upgrade state cleared on switch")
		return
	}
	// ghost step
	g2 := g
	switch {
	case curr.NextVersion == 0:
		g2 = zzC12Ghost{}
		if prev.NextVersion != 0 {
			zzverif.Reach("cleared")
			zzverif.Assert(cn == g.vb0 && g.naw < p.T, "a proposal is dropped only when its window closed below threshold")
		}
	case prev.NextVersion == 0:
		zzverif.Reach("proposed")
		g2 = zzC12Ghost{pr: cn, vb0: curr.NextVoteBefore, naw: 1}
	default:
		zzverif.Reach("ongoing")
		zzverif.Assert(curr.NextVersion == prev.NextVersion && curr.NextSwitchOn == prev.NextSwitchOn, "announced version and round are immutable")
		if cn < g.vb0 {
			g2.naw = g.naw + (curr.NextApprovals - prev.NextApprovals)
		}
	}
	// known finding C12-late-approval: the approval lifting threshold-1 to threshold is
	// accepted in the block *at* NextVoteBefore, i.e. after the window has closed.
	late := prev.NextVersion != 0 && cn == g.vb0 && prev.NextApprovals < p.T && curr.NextApprovals == prev.NextApprovals+1
	zzverif.AssertKF(zzC12Inv(curr, cn, g2, ps[cv]), "invariant preserved", "C12-late-approval", late)
	zzverif.Reach("end")
}

// zzH_C12_builder: every header the builder derives is accepted by the verifier.
func zzH_C12_builder() {
	ps := zzC12Install()
	prev, n := zzC12Header("prev")
	g := zzC12Ghost{pr: zzverif.U64("g.pr"), vb0: zzverif.U64("g.vb0"), naw: zzverif.U64("g.naw")}
	cv := zzverif.Choose("prev.version", 3) + 1
	zzverif.Assume(prev.CurrVersion == params.YouVersion(cv))
	zzverif.Assume(zzC12Inv(prev, n, g, ps[cv]))
	// the client halts by design when the chain switches to a version it does not know
	zzverif.Note("builder harness: a pending NextVersion is one of the locally known versions (otherwise the client stops with logging.Crit by design)")
	zzverif.Assume(prev.NextVersion <= 3)

	curr := &types.Header{Number: new(big.Int).SetUint64(n + 1)}
	if err := ProcessYouVersionState(prev, curr); err != nil {
		zzverif.Reach("builder-refused")
		return
	}
	zzverif.Reach("built")
	zzverif.Assert(VerifyYouVersionState(prev, curr) == nil, "verifier accepts what the builder derives")
	zzverif.Reach("end")
}
