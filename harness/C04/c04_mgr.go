package ucon

// C04 — the credential a node presents is the one for the current inputs.
// SortitionManager caches the step views (proof, seat count, priority) it computed per
// (round, round index, step) and drops the cache when the node's round changes.  The
// harness drives the real manager through an arbitrary short history of round changes
// (forward, backward, back again) and credential requests; the look-back seed, stake,
// total stake and threshold of every round are arbitrary and may all change whenever
// the node's round changes.  Every credential handed out must be the one VrfSortition
// gives for the seed / stake / threshold the look-back functions report NOW, i.e. the
// one the verifiers of c04.go / c04_server.go accept.

import (
	"math/big"

	"github.com/youchainhq/go-youchain/common"
	"github.com/youchainhq/go-youchain/crypto/vrf"
	"github.com/youchainhq/go-youchain/params"
	"github.com/youchainhq/go-youchain/zzverif"
)

//verif:mode bv W=264
//verif:replace $M/consensus/ucon.VrfSortition zzC04mSortition
//verif:replace $M/consensus/ucon.VrfComputePriority zzC04mPriority
//verif:replace $M/consensus/ucon.ComputeSeed zzC04mNextSeed

// hashes are 64-bit identities in the first eight bytes (the remaining bytes are zero)
func zzC04mH(x uint64) (h common.Hash) {
	for i := 0; i < 8; i++ {
		h[i] = byte(x >> (8 * uint(7-i)))
	}
	return h
}

func zzC04mID(h common.Hash) (x uint64) {
	for i := 0; i < 8; i++ {
		x = x<<8 | uint64(h[i])
	}
	return x
}

// an idealised VRF + choose: value, proof and seats are unknown functions of all inputs
func zzC04mSortition(sk vrf.PrivateKey, seed common.Hash, index uint32, role uint32, threshold uint64, stake, totalStake *big.Int) (common.Hash, []byte, uint32) {
	v := zzverif.UF("vrfValue", zzC04mID(seed), index, role)
	pr := zzC04mH(zzverif.UF("vrfProof", zzC04mID(seed), index, role))
	j := uint32(zzverif.UF("seats", v, threshold, stake.Uint64(), totalStake.Uint64()))
	return zzC04mH(v), pr[:4], j
}

func zzC04mPriority(hash common.Hash, j uint32) common.Hash {
	return zzC04mH(zzverif.UF("maxSeatHash", zzC04mID(hash), j))
}

func zzC04mNextSeed(sk vrf.PrivateKey, round *big.Int, roundIndex uint32, preSeed common.Hash) (common.Hash, []byte) {
	return zzC04mH(zzverif.UF("nextSeed", round.Uint64(), roundIndex, zzC04mID(preSeed))), nil
}

// the chain as the look-back functions see it: everything is a function of the epoch,
// which advances whenever the node's round changes
var zzC04mEpoch uint64

func zzC04mStake(round *big.Int, addr common.Address, isProposer bool, lbType params.LookBackType) (*big.Int, *big.Int, uint64, params.ValidatorKind, uint8, error) {
	r := round.Uint64()
	stake := zzverif.UF("lbStake", zzC04mEpoch, r, uint8(lbType)) & 0xffff
	total := zzverif.UF("lbTotal", zzC04mEpoch, r, uint8(lbType)) & 0xfffff
	th := zzverif.UF("lbThreshold", zzC04mEpoch, r, isProposer, uint8(lbType))
	kind := params.KindChamber
	if zzverif.UFBool("lbHouse", zzC04mEpoch, r) {
		kind = params.KindHouse
	}
	status := uint8(params.ValidatorOnline)
	if zzverif.UFBool("lbOffline", zzC04mEpoch, r) {
		status = params.ValidatorOffline
	}
	zzverif.Assume(total > 0 && stake <= total)
	return new(big.Int).SetUint64(stake), new(big.Int).SetUint64(total), th, kind, status, nil
}

func zzC04mSeed(round *big.Int, lbType params.LookBackType) (common.Hash, error) {
	return zzC04mH(zzverif.UF("lbSeed", zzC04mEpoch, round.Uint64(), uint8(params.TurnToSeedType(lbType)))), nil
}

type zzC04mRun struct {
	sm    *SortitionManager
	addr  common.Address
	cur   uint64
	asked int
}

func zzC04mNew() *zzC04mRun {
	zzC04mEpoch = 0
	addr := common.Address{0xA1}
	return &zzC04mRun{sm: NewSortitionManager(nil, zzC04mStake, zzC04mSeed, addr), addr: addr}
}

// the node enters a round (StartNewRound with newRound): any round, also a lower one
func (u *zzC04mRun) enter() {
	r := uint64(zzverif.U8("newRound"))
	zzverif.Assume(r >= 1 && r <= uint64(zzverif.Bound("mgrRounds", 3, 3)))
	if r != u.cur {
		zzC04mEpoch++ // head moved: look-back data may all be different
	}
	u.cur = r
	u.sm.ClearStepView(new(big.Int).SetUint64(r))
}

func (u *zzC04mRun) askVote() {
	sm, addr, cur := u.sm, u.addr, u.cur
	idx, step := uint32(zzverif.U8("index"))&1+1, uint32(UConStepPrevote)
	if zzverif.Bool("precommit") {
		step = UConStepPrecommit
	}
	round := new(big.Int).SetUint64(cur)
	ok, view := sm.isValidator(round, idx, step, params.LookBackPos)
	u.asked++
	stake, total, th, kind, status, _ := zzC04mStake(round, addr, false, params.LookBackPos)
	if status == params.ValidatorOffline || kind != params.KindChamber {
		zzverif.Assert(!ok && (view == nil || view.SubUsers == 0), "an offline or non-chamber validator holds no vote credential")
		return
	}
	seed, _ := zzC04mSeed(round, params.LookBackPos)
	v, proof, j := zzC04mSortition(nil, seed, idx, step, th, stake, total)
	zzverif.Assert(view != nil, "a chamber validator gets its step view")
	zzverif.Assert(ok == (j > 0) && view.SubUsers == j, "the seat count is the one sortition gives for the current seed, stake, total stake and threshold")
	zzverif.Assert(string(view.SortitionProof) == string(proof), "the proof is the one for the current seed, round index and step")
	zzverif.Assert(view.Priority == zzC04mPriority(v, j) && view.Threshold == th, "priority and threshold belong to the current inputs")
	zzverif.Reach("vote-credential")
}

func (u *zzC04mRun) askProposer() {
	sm, addr, cur := u.sm, u.addr, u.cur
	idx := uint32(zzverif.U8("index"))&1 + 1
	round := new(big.Int).SetUint64(cur)
	ok, view := sm.isProposer(round, idx)
	u.asked++
	stake, total, th, kind, _, _ := zzC04mStake(round, addr, true, params.LookBackStake)
	if kind != params.KindChamber {
		zzverif.Assert(!ok && view == nil, "a non-chamber validator is no proposer")
		return
	}
	seed, _ := zzC04mSeed(round, params.LookBackPos)
	v, proof, j := zzC04mSortition(nil, seed, idx, UConStepProposal, th, stake, total)
	zzverif.Assert(ok == (j > 0), "proposer exactly with at least one seat for the current inputs")
	if ok {
		zzverif.Assert(view != nil && view.SubUsers == j && string(view.SortitionProof) == string(proof), "seat count and proof for the current seed, stake and threshold")
		zzverif.Assert(view.Priority == zzC04mPriority(v, j), "the priority is the largest seat hash of the current VRF value")
		zzverif.Assert(view.SeedValue == zzC04mH(zzverif.UF("nextSeed", cur, idx, zzC04mID(seed))), "the proposed next seed derives from the current look-back seed")
		zzverif.Reach("proposer-credential")
	}
}

func (u *zzC04mRun) ask() {
	if zzverif.Bool("proposer") {
		u.askProposer()
	} else {
		u.askVote()
	}
}

// zzH_C04_mgr_rollback: enter a round, ask for a credential, move to one or two further
// rounds (any, also lower ones and back to the first), ask again.
func zzH_C04_mgr_rollback() {
	u := zzC04mNew()
	u.enter()
	u.ask()
	u.enter()
	if zzverif.Bool("thirdRound") {
		u.enter()
	}
	u.ask()
	zzverif.Reach("end")
}

// zzH_C04_mgr_history: every history of round changes and requests (thorough only).
func zzH_C04_mgr_history() {
	u := zzC04mNew()
	n := zzverif.Bound("mgrOps", 4, 4)
	for k := 0; k < n; k++ {
		switch zzverif.Choose("op", 3) {
		case 0:
			u.enter()
		case 1:
			if u.cur != 0 {
				u.askVote()
			}
		case 2:
			if u.cur != 0 {
				u.askProposer()
			}
		}
	}
	if u.asked >= 2 {
		zzverif.Reach("two-requests")
	}
	zzverif.Reach("end")
}
