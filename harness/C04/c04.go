package ucon

// C04 — sortition selects the binomial quantile and its proofs bind all inputs
// (control skeleton: the float64 binomial CDF is a monotone uninterpreted function).

import (
	"bytes"
	"errors"
	"math/big"

	"github.com/youchainhq/go-youchain/common"
	"github.com/youchainhq/go-youchain/zzverif"
	"gonum.org/v1/gonum/stat/distuv"
)

//verif:mode bv W=264
//verif:replace (gonum.org/v1/gonum/stat/distuv.Binomial).CDF zzC04CDF
//verif:replace (gonum.org/v1/gonum/stat/distuv.Binomial).Mean zzC04Mean

// the mean only selects between forward and binary search: an arbitrary value
func zzC04Mean(b distuv.Binomial) float64 { return zzverif.UFF64("binomialMean", b.N, b.P) }

// ---- the binomial CDF: an unknown non-decreasing function with F(n) = 1 ----

type zzC04Pt struct{ x, y float64 }

var zzC04Seen []zzC04Pt

func zzC04CDF(b distuv.Binomial, x float64) float64 {
	y := zzverif.UFF64("binomialCDF", b.N, b.P, x)
	zzverif.Assume(y >= 0 && y <= 1)
	if x >= b.N {
		zzverif.Assume(y == 1)
	}
	for _, p := range zzC04Seen {
		if p.x <= x {
			zzverif.Assume(p.y <= y)
		} else {
			zzverif.Assume(y <= p.y)
		}
	}
	zzC04Seen = append(zzC04Seen, zzC04Pt{x, y})
	return y
}

// zzH_C04_search: search(n, f) is the least i <= n with f(i), for every monotone f
// (a monotone predicate is a threshold t: f(h) = h >= t).
func zzH_C04_search() {
	maxN := int64(zzverif.Bound("searchN", 16, 64))
	n := zzverif.I64("n")
	t := zzverif.I64("t")
	zzverif.Assume(n >= 0 && n <= maxN && t >= 0 && t <= n)
	calls := 0
	got := search(n, func(h int64) bool {
		calls++
		zzverif.Assert(h >= 0 && h < n, "the predicate is only evaluated inside [0, n)")
		return h >= t
	})
	zzverif.Assert(got == t, "search returns the least index where the monotone predicate holds (n if none)")
	zzverif.Assert(calls <= 7, "logarithmically many evaluations")
	zzverif.Reach("end")
}

// zzH_C04_choose: under the CDF axioms, choose returns the least j with target <= F(j),
// 0 <= j <= stake, on the forward-search, binary-search and mirrored (> 0.99) branches.
func zzH_C04_choose() {
	zzC04Seen = nil
	w := int64(zzverif.Choose("stake", zzverif.Bound("stake", 3, 6)) + 1)
	var hash common.Hash
	copy(hash[:], zzverif.Bytes("vrfHash", 32))
	p := zzverif.F64("p")
	zzverif.Assume(p > 0 && p < 1)
	j := choose(hash, big.NewInt(w), p)
	zzverif.Reach("chosen")
	zzverif.Assert(j >= 0 && j <= w, "the seat count lies between 0 and the stake")
	hb := new(big.Int).SetBytes(hash[:])
	if hb.Sign() == 0 {
		zzverif.Reach("hash-zero")
		zzverif.Assert(j == 0, "VRF output 0 wins no seat")
		return
	}
	if hb.Cmp(maxVrfHashValue) == 0 {
		zzverif.Reach("hash-max")
		zzverif.Assert(j == w, "the largest VRF output wins every seat")
		return
	}
	// the target the implementation derived (same uninterpreted big.Float operations)
	bigValue := new(big.Float).Quo(new(big.Float).SetInt(hb), new(big.Float).SetInt(maxVrfHashValue))
	target, _ := bigValue.Float64()
	zzverif.Assume(target >= 0 && target <= 1)
	if target > 0.99 {
		zzverif.Reach("mirrored")
		// mirrored branch: with G the CDF of Binomial(n, 1-p) and v = 1 - target:
		// k least with v < G(k); the answer is n - k
		inv, _ := new(big.Float).Sub(big.NewFloat(1.0), bigValue).Float64()
		g := distuv.Binomial{N: float64(w), P: 1.0 - p}
		k := w - j
		zzverif.Assert(k == w || inv < zzC04CDF(g, float64(k)), "mirrored branch: 1-target < G(n-j)")
		zzverif.Assert(k == 0 || !(inv < zzC04CDF(g, float64(k-1))), "mirrored branch: n-j is the least such index")
		return
	}
	zzverif.Reach("direct")
	f := distuv.Binomial{N: float64(w), P: p}
	zzverif.Assert(target <= zzC04CDF(f, float64(j)), "target <= F(j)")
	zzverif.Assert(j == 0 || !(target <= zzC04CDF(f, float64(j-1))), "j is the least index with target <= F(j)")
	zzverif.Reach("end")
}

// zzH_C04_makeM: the VRF message binds seed, step and round index.
func zzH_C04_makeM() {
	var s1, s2 common.Hash
	copy(s1[:], zzverif.Bytes("seed1", 32))
	copy(s2[:], zzverif.Bytes("seed2", 32))
	r1, r2, i1, i2 := zzverif.U32("role1"), zzverif.U32("role2"), zzverif.U32("index1"), zzverif.U32("index2")
	m1, m2 := MakeM(s1, r1, i1), MakeM(s2, r2, i2)
	zzverif.Assert(len(m1) == 40 && len(m2) == 40, "40-byte message")
	same := true
	for i := range m1 {
		same = same && m1[i] == m2[i]
	}
	zzverif.Assert(same == (s1 == s2 && r1 == r2 && i1 == i2), "MakeM is injective in (seed, step, index)")
	zzverif.Reach("end")
}

// ---- idealised VRF: a proof is valid for exactly one (key, message) ----

type zzC04PK struct{ key byte }

func (k zzC04PK) ProofToHash(m, proof []byte) ([32]byte, error) {
	if len(proof) != 8 {
		return [32]byte{}, errors.New("bad proof")
	}
	var pv uint64
	for _, b := range proof {
		pv = pv<<8 | uint64(b)
	}
	if pv != zzverif.UF("vrfProof", k.key, m) {
		return [32]byte{}, errors.New("invalid proof")
	}
	return zzverif.UF32("vrfValue", k.key, m), nil
}

var (
	zzC04ChooseCalls int
	zzC04LastHash    common.Hash
	zzC04LastStake   int64
	zzC04LastP       float64
)

// choose as an uninterpreted seat function (its skeleton is the subject of zzH_C04_choose)
func zzC04Choose(hash common.Hash, w *big.Int, p float64) int64 {
	zzC04ChooseCalls++
	zzC04LastHash, zzC04LastStake, zzC04LastP = hash, w.Int64(), p
	j := int64(zzverif.UF("seats", hash, w.Int64(), p))
	zzverif.Assume(j >= 0 && j <= w.Int64())
	return j
}

// zzH_C04_verify: the verifier accepts a credential only for the exact key, seed, index,
// step and seat count: it recomputes the seat count with the VRF value of exactly this
// message, the validator's stake and the threshold/total ratio, and requires j > 0.
//
//verif:replace $M/consensus/ucon.choose zzC04Choose
func zzH_C04_verify() {
	var seed common.Hash
	copy(seed[:], zzverif.Bytes("seed", 32))
	index, role, sub := zzverif.U32("index"), zzverif.U32("role"), zzverif.U32("subUsers")
	threshold := zzverif.U64("threshold")
	stake := new(big.Int).SetUint64(uint64(zzverif.U32("stake")))
	total := new(big.Int).SetUint64(uint64(zzverif.U32("totalStake")))
	proof := zzverif.Bytes("proof", 8)
	pk := zzC04PK{key: 7}
	zzC04ChooseCalls = 0
	ok, err := VrfVerifySortition(pk, seed, index, role, proof, sub, threshold, stake, total)
	if !ok {
		zzverif.Reach("rejected")
		zzverif.Assert(err != nil, "a rejection carries an error")
		return
	}
	zzverif.Reach("accepted")
	m := MakeM(seed, role, index)
	_, perr := pk.ProofToHash(m, proof)
	zzverif.Assert(perr == nil, "the proof is the VRF proof of exactly MakeM(seed, step, index) under this key")
	zzverif.Assert(zzC04ChooseCalls == 1 && zzC04LastHash == common.Hash(zzverif.UF32("vrfValue", pk.key, m)) && zzC04LastStake == stake.Int64(), "seats are recomputed from the VRF value of this message and this validator's stake")
	pWant, _ := new(big.Float).Quo(new(big.Float).SetUint64(threshold), new(big.Float).SetInt(total)).Float64()
	zzverif.Assert(zzC04LastP == pWant || (zzC04LastP != zzC04LastP && pWant != pWant), "the probability is threshold / total stake")
	zzverif.Assert(sub > 0 && uint64(sub) == zzverif.UF("seats", zzC04LastHash, zzC04LastStake, zzC04LastP), "accepted only with the recomputed, non-zero seat count")
	zzverif.Reach("end")
}

// zzH_C04_priority: a proposer priority verifies only for the recomputed seat count, and
// is the largest hash over the winner's seats.
//
//verif:replace $M/consensus/ucon.choose zzC04Choose
func zzH_C04_priority() {
	var seed, prio common.Hash
	copy(seed[:], zzverif.Bytes("seed", 32))
	copy(prio[:], zzverif.Bytes("priority", 32))
	index, sub := zzverif.U32("index"), zzverif.U32("subUsers")
	zzverif.Assume(sub <= 2)
	stake := new(big.Int).SetUint64(uint64(zzverif.U32("stake")))
	total := new(big.Int).SetUint64(uint64(zzverif.U32("totalStake")))
	proof := zzverif.Bytes("proof", 8)
	pk := zzC04PK{key: 7}
	ok, _ := VrfVerifyPriority(pk, seed, index, UConStepProposal, proof, prio, sub, zzverif.U64("threshold"), stake, total)
	if !ok {
		zzverif.Reach("rejected")
		return
	}
	zzverif.Reach("accepted")
	hash := common.Hash(zzverif.UF32("vrfValue", pk.key, MakeM(seed, UConStepProposal, index)))
	zzverif.Assert(uint64(sub) == zzverif.UF("seats", zzC04LastHash, zzC04LastStake, zzC04LastP) && zzC04LastHash == hash, "accepted only with the recomputed seat count")
	// the priority is the maximum of keccak(hash || i) over i in [0, seats]
	isOne := false
	for i := uint32(0); i <= sub; i++ {
		c := append(append([]byte(nil), hash[:]...), new(big.Int).SetUint64(uint64(i)).Bytes()...)
		h := zzverif.Keccak(c)
		zzverif.Assert(new(big.Int).SetBytes(prio[:]).Cmp(new(big.Int).SetBytes(h[:])) >= 0, "the priority dominates every per-seat hash")
		if h == prio {
			isOne = true
		}
	}
	zzverif.Assert(isOne, "the priority is one of the per-seat hashes")
	// known finding: a proposer that won zero seats still passes (no j > 0 test as in VrfVerifySortition)
	zzverif.AssertKF(sub > 0, "a proposer credential needs at least one seat", "C04-zero-seat-proposer", sub == 0)
	zzverif.Reach("end")
}

// ---- every seat has its own hash input, for committee-sized seat counts ----

var zzC04Inputs [][]byte

// recording stand-in for keccak: an injective, concrete function of the seat suffix
func zzC04RecKeccak(data ...[]byte) common.Hash {
	var in []byte
	for _, d := range data {
		in = append(in, d...)
	}
	zzC04Inputs = append(zzC04Inputs, in)
	n := len(zzC04Inputs) - 1
	return common.Hash{byte((n * 37) % 251), byte(n >> 16), byte(n >> 8), byte(n)}
}

// zzH_C04_priority_seats: computePriority hashes value||i for exactly the seats i = 0..j, the
// seat index in its minimal big-endian form (so no two seats share an input), and returns the
// largest of those hashes - for seat counts up to committee size.
//
//verif:replace $M/crypto.Keccak256Hash zzC04RecKeccak
func zzH_C04_priority_seats() {
	zzC04Inputs = nil
	var value common.Hash
	copy(value[:], zzverif.Bytes("vrfValue", 32))
	js := []int64{0, 1, 255, 256, 257, 600}
	if zzverif.Thorough() {
		js = append(js, 65536, 70000)
	}
	j := js[zzverif.Choose("seats", len(js))]
	zzverif.Bound("seatsMax", 600, 70000)
	got := computePriority(value, big.NewInt(j))
	zzverif.Assert(int64(len(zzC04Inputs)) == j+1, "one hash per seat 0..j")
	var best common.Hash
	for i, in := range zzC04Inputs {
		want := append(append([]byte(nil), value[:]...), new(big.Int).SetUint64(uint64(i)).Bytes()...)
		zzverif.Assert(bytes.Equal(in, want), "seat i is hashed as value || minimal big-endian i (distinct seats, distinct inputs)")
		h := common.Hash{byte((i * 37) % 251), byte(i >> 16), byte(i >> 8), byte(i)}
		if new(big.Int).SetBytes(h[:]).Cmp(new(big.Int).SetBytes(best[:])) > 0 {
			best = h
		}
	}
	zzverif.Assert(got == best, "the priority is the largest per-seat hash")
	zzverif.Reach("end")
}
