package ucon

// C04 — node-level credential verification.  Server.verifyPriority and
// Server.verifySortition are the functions the proposal and vote handlers call; they
// gather the look-back seed and stake and delegate to VrfVerifyPriority /
// VrfVerifySortition (whose own binding is the subject of c04.go).  Here the two Vrf
// verifiers are recording stand-ins with an arbitrary outcome, and the assertion is
// that the node accepts a credential only when the verifier accepted it for exactly
// the fields of the message and the look-back data of its round.

import (
	"crypto/ecdsa"
	"errors"
	"math/big"

	"github.com/youchainhq/go-youchain/common"
	"github.com/youchainhq/go-youchain/consensus"
	"github.com/youchainhq/go-youchain/core/state"
	"github.com/youchainhq/go-youchain/core/types"
	"github.com/youchainhq/go-youchain/crypto/vrf"
	"github.com/youchainhq/go-youchain/params"
	"github.com/youchainhq/go-youchain/zzverif"
)

//verif:mode bv W=264
//verif:replace (*$M/consensus/ucon.Server).getLookBackSeed zzC04sSeed
//verif:replace (*$M/consensus/ucon.Server).getLookbackStakeInfo zzC04sStake
//verif:replace (*$M/consensus/ucon.Server).CurrentCaravelParams zzC04sParams
//verif:replace $M/crypto/vrf/secp256k1.NewVRFVerifier zzC04sVRF
//verif:replace $M/crypto.PubkeyToAddress zzC04sAddr
//verif:replace $M/consensus/ucon.VrfVerifyPriority zzC04sVerifyPriority
//verif:replace $M/consensus/ucon.VrfVerifySortition zzC04sVerifySortition

type zzC04sPK struct{ key byte }

func (k zzC04sPK) ProofToHash(m, proof []byte) ([32]byte, error) { return [32]byte{}, nil }

func zzC04sVRF(pubkey *ecdsa.PublicKey) (vrf.PublicKey, error) {
	return zzC04sPK{key: byte(pubkey.X.Int64())}, nil
}

func zzC04sAddr(p ecdsa.PublicKey) common.Address { return common.Address{0xA0, byte(p.X.Int64())} }

var (
	zzC04sCP        params.CaravelParams
	zzC04sSeedLb    params.LookBackType
	zzC04sSeedRound uint64
	zzC04sSeedCalls int
	zzC04sSeedVal   common.Hash
)

func zzC04sParams(s *Server) *params.CaravelParams { return &zzC04sCP }

func zzC04sSeed(s *Server, round *big.Int, lbType params.LookBackType) (common.Hash, error) {
	zzC04sSeedCalls++
	zzC04sSeedLb, zzC04sSeedRound = lbType, round.Uint64()
	if zzverif.Bool("seedLookupFails") {
		return common.Hash{}, errors.New("lookBackHeader not found")
	}
	copy(zzC04sSeedVal[:], zzverif.Bytes("lookBackSeed", 32))
	return zzC04sSeedVal, nil
}

type zzC04sStakeCall struct {
	round      uint64
	addr       common.Address
	isProposer bool
	lb         params.LookBackType
	stake      uint64
	total      uint64
	threshold  uint64
}

var zzC04sStakeCalls []zzC04sStakeCall

func zzC04sStake(s *Server, round *big.Int, addr common.Address, isProposer bool, lbType params.LookBackType) (*big.Int, *big.Int, uint64, params.ValidatorKind, uint8, error) {
	if zzverif.Bool("stakeLookupFails") {
		return big.NewInt(0), big.NewInt(0), 0, params.KindValidator, params.ValidatorOffline, errors.New("GetValidatorByMainAddr failed")
	}
	c := zzC04sStakeCall{round: round.Uint64(), addr: addr, isProposer: isProposer, lb: lbType,
		stake: uint64(zzverif.U32("stake")), total: uint64(zzverif.U32("totalStake")), threshold: zzverif.U64("lookBackThreshold")}
	zzC04sStakeCalls = append(zzC04sStakeCalls, c)
	return new(big.Int).SetUint64(c.stake), new(big.Int).SetUint64(c.total), c.threshold, params.KindChamber, params.ValidatorOnline, nil
}

// what the Vrf verifier was asked, and what it answered
type zzC04sAsk struct {
	key       byte
	seed      common.Hash
	index     uint32
	role      uint32
	proof     []byte
	priority  common.Hash
	sub       uint32
	threshold uint64
	stake     uint64
	total     uint64
	ok        bool
}

var zzC04sAsks []zzC04sAsk

// the verifier's contract: (true, nil), (false, error) or — for VrfVerifyPriority,
// whose last line is `return reflect.DeepEqual(p, priority), nil` — (false, nil)
func zzC04sOutcome(mayBeSilent bool) (bool, error) {
	if zzverif.Bool("credentialValid") {
		return true, nil
	}
	if mayBeSilent && zzverif.Bool("mismatchWithoutError") {
		return false, nil
	}
	return false, errors.New("verify failed")
}

func zzC04sVerifyPriority(pk vrf.PublicKey, seed common.Hash, index uint32, role uint32, proof []byte, priority common.Hash, subUsers uint32, threshold uint64, stake, totalStake *big.Int) (bool, error) {
	ok, err := zzC04sOutcome(true)
	zzC04sAsks = append(zzC04sAsks, zzC04sAsk{pk.(zzC04sPK).key, seed, index, role, proof, priority, subUsers, threshold, stake.Uint64(), totalStake.Uint64(), ok})
	return ok, err
}

func zzC04sVerifySortition(pk vrf.PublicKey, seed common.Hash, index uint32, role uint32, proof []byte, subUsers uint32, threshold uint64, stake, totalStake *big.Int) (bool, error) {
	ok, err := zzC04sOutcome(false)
	zzC04sAsks = append(zzC04sAsks, zzC04sAsk{pk.(zzC04sPK).key, seed, index, role, proof, common.Hash{}, subUsers, threshold, stake.Uint64(), totalStake.Uint64(), ok})
	return ok, err
}

func zzC04sReset() {
	zzC04sAsks, zzC04sStakeCalls, zzC04sSeedCalls = nil, nil, 0
	zzC04sCP = params.CaravelParams{ProposerThreshold: zzverif.U64("proposerThreshold"), ValidatorThreshold: zzverif.U64("validatorThreshold")}
}

// zzH_C04_server_priority: the proposal handlers' verifier accepts a (priority, proof,
// seat count) only when VrfVerifyPriority accepted exactly these fields under the
// sender's key, the round's look-back seed and stake and the proposer threshold.
func zzH_C04_server_priority() {
	zzC04sReset()
	s := &Server{currentRound: new(big.Int).SetUint64(uint64(zzverif.U32("currentRound"))), roundIndex: zzverif.U32("currentIndex")}
	key := zzverif.U8("senderKey")
	data := &ConsensusCommon{
		Round:          new(big.Int).SetUint64(uint64(zzverif.U32("round"))),
		RoundIndex:     zzverif.U32("index"),
		Step:           zzverif.U32("step"),
		SortitionProof: zzverif.Bytes("proof", 4),
		SubUsers:       zzverif.U32("subUsers"),
	}
	copy(data.Priority[:], zzverif.Bytes("priority", 32))
	err := s.verifyPriority(&ecdsa.PublicKey{X: big.NewInt(int64(key))}, data)
	if err != nil {
		zzverif.Reach("rejected")
		return
	}
	zzverif.Reach("accepted")
	zzverif.Assert(len(zzC04sAsks) == 1 && len(zzC04sStakeCalls) == 1 && zzC04sSeedCalls == 1, "one look-up of seed and stake and one verification per accepted credential")
	a, st := zzC04sAsks[0], zzC04sStakeCalls[0]
	zzverif.AssertKF(a.ok, "a proposer priority is accepted only if VrfVerifyPriority accepted it", "C04-priority-mismatch-accepted", !a.ok)
	zzverif.Assert(a.key == key && st.addr == (common.Address{0xA0, key}), "verified under the sender's key and the sender's look-back stake")
	zzverif.Assert(zzC04sSeedRound == data.Round.Uint64() && st.round == data.Round.Uint64() && st.isProposer, "seed and stake of the message's round, proposer role")
	zzverif.Assert(params.TurnToSeedType(zzC04sSeedLb) == params.LookBackSeed && params.TurnToStakeType(st.lb) == params.LookBackStake, "ordinary (non-certificate) look-back for proposals")
	zzverif.Assert(a.seed == zzC04sSeedVal, "the seed is the look-back seed")
	zzverif.Assert(a.index == data.RoundIndex && a.role == data.Step && a.sub == data.SubUsers && a.priority == data.Priority, "round index, step, seat count and priority are the message's")
	zzverif.Assert(string(a.proof) == string(data.SortitionProof), "the proof is the message's")
	zzverif.Assert(a.stake == st.stake && a.total == st.total && a.threshold == zzC04sCP.ProposerThreshold, "stake, total stake and proposer threshold of the look-back state")
	zzverif.Reach("end")
}

// zzH_C04_server_sortition: the vote handler's verifier, the same for a vote
// credential; the threshold is the one the look-back stake information names.
func zzH_C04_server_sortition() {
	zzC04sReset()
	s := &Server{currentRound: new(big.Int).SetUint64(uint64(zzverif.U32("currentRound"))), roundIndex: zzverif.U32("currentIndex")}
	key := zzverif.U8("senderKey")
	data := &SortitionData{
		Round:      new(big.Int).SetUint64(uint64(zzverif.U32("round"))),
		RoundIndex: zzverif.U32("index"),
		Step:       zzverif.U32("step"),
		Proof:      zzverif.Bytes("proof", 4),
		Votes:      zzverif.U32("votes"),
	}
	lb := params.LookBackPos
	if zzverif.Bool("certificateVote") {
		lb = params.LookBackCert
	}
	err := s.verifySortition(&ecdsa.PublicKey{X: big.NewInt(int64(key))}, data, lb)
	if err != nil {
		zzverif.Reach("rejected")
		return
	}
	zzverif.Reach("accepted")
	zzverif.Assert(len(zzC04sAsks) == 1 && len(zzC04sStakeCalls) == 1 && zzC04sSeedCalls == 1, "one look-up of seed and stake and one verification per accepted credential")
	a, st := zzC04sAsks[0], zzC04sStakeCalls[0]
	old := data.Round.Cmp(s.currentRound) < 0 || data.RoundIndex < s.roundIndex
	zzverif.AssertKF(a.ok, "a vote credential is accepted only if VrfVerifySortition accepted it", "C04-old-round-credential-not-verified", !a.ok && old)
	zzverif.Assert(a.key == key && st.addr == (common.Address{0xA0, key}), "verified under the sender's key and the sender's look-back stake")
	zzverif.Assert(zzC04sSeedRound == data.Round.Uint64() && st.round == data.Round.Uint64() && !st.isProposer, "seed and stake of the message's round, voter role")
	zzverif.Assert(zzC04sSeedLb == lb && st.lb == lb, "the look-back kind of the vote type")
	zzverif.Assert(a.seed == zzC04sSeedVal, "the seed is the look-back seed")
	zzverif.Assert(a.index == data.RoundIndex && a.role == data.Step && a.sub == data.Votes, "round index, step and seat count are the message's")
	zzverif.Assert(string(a.proof) == string(data.Proof), "the proof is the message's")
	zzverif.Assert(a.stake == st.stake && a.total == st.total && a.threshold == st.threshold, "stake, total stake and threshold of the look-back state")
	zzverif.Reach("end")
}

// ---- the look-back stake information both the prover and the verifier use ----

type zzC04sChain struct {
	consensus.ChainReader
	asked []uint64
}

func (c *zzC04sChain) GetHeaderByNumber(n uint64) *types.Header {
	c.asked = append(c.asked, n)
	return &types.Header{Number: new(big.Int).SetUint64(n), CurrVersion: params.YouCurrentVersion, ValRoot: common.Hash{0xEE, byte(n >> 8), byte(n)}}
}

type zzC04sReader struct {
	state.ValidatorReader
	v    *state.Validator
	stat *state.ValidatorsStat
}

func (r zzC04sReader) GetValidatorByMainAddr(a common.Address) *state.Validator { return r.v }
func (r zzC04sReader) GetValidatorsStat() (*state.ValidatorsStat, error)        { return r.stat, nil }

var zzC04sRootAsked []common.Hash
var zzC04sVld zzC04sReader

func (c *zzC04sChain) GetVldReader(root common.Hash) (state.ValidatorReader, error) {
	zzC04sRootAsked = append(zzC04sRootAsked, root)
	return zzC04sVld, nil
}

func zzC04sPubToAddr(pub []byte) common.Address { return common.Address{0xA0, pub[1]} }

// zzH_C04_stake_info: Server.getLookbackStakeInfo - the committee size ("threshold") a
// credential is issued and verified for is the proposer threshold for proposers, the
// certificate committee size of the look-back header's version for certificate votes
// (whichever certificate look-back kind the caller names) and the validator threshold
// otherwise; stake and total stake are read at the stake look-back height of the round.
//
//verif:real (*$M/consensus/ucon.Server).getLookbackStakeInfo
//verif:replace $M/core/state.PubToAddress zzC04sPubToAddr
func zzH_C04_stake_info() {
	zzC04sCP = params.CaravelParams{ProposerThreshold: zzverif.U64("proposerThreshold"), ValidatorThreshold: zzverif.U64("validatorThreshold"),
		StakeLookBack: uint64(zzverif.U16("stakeLookBack")), SeedLookBack: uint64(zzverif.U16("seedLookBack"))}
	chain := &zzC04sChain{}
	zzC04sRootAsked = nil
	pub := make([]byte, 33)
	pub[0], pub[1] = 2, 7
	v := state.NewValidator("v", common.Address{}, common.Address{}, params.RoleChancellor, pub, pub, new(big.Int), new(big.Int).SetUint64(uint64(zzverif.U32("stake"))), 0, 0, 0, params.ValidatorOnline)
	stat := state.NewValidatorsStat()
	stat.GetByKind(params.KindChamber).AddVal(v)
	zzC04sVld = zzC04sReader{v: v, stat: stat}
	s := &Server{chain: chain}
	round := uint64(zzverif.U32("round"))
	zzverif.Assume(round >= 1)
	lbs := []params.LookBackType{params.LookBackPos, params.LookBackStake, params.LookBackSeed, params.LookBackCert, params.LookBackCertStake, params.LookBackCertSeed}
	lb := lbs[zzverif.Choose("lookBackKind", len(lbs))]
	isProposer := zzverif.Bool("isProposer")
	stake, total, threshold, kind, status, err := s.getLookbackStakeInfo(new(big.Int).SetUint64(round), common.Address{0xA0, 7}, isProposer, lb)
	zzverif.Assert(err == nil && kind == params.KindChamber && status == params.ValidatorOnline, "an online chamber member's information is found")
	cert := lb == params.LookBackCert || lb == params.LookBackCertStake || lb == params.LookBackCertSeed
	want := zzC04sCP.ValidatorThreshold
	if isProposer {
		want = zzC04sCP.ProposerThreshold
	} else if cert {
		want = params.Versions[params.YouCurrentVersion].CertValThreshold
	}
	zzverif.Assert(threshold == want, "the committee size is the proposer threshold, the certificate committee size for certificate votes, the validator threshold otherwise")
	back := zzC04sCP.StakeLookBack
	if cert {
		back = 2 * params.ACoCHTFrequency
	}
	at := uint64(0)
	if round > back {
		at = round - back
	}
	zzverif.Assert(len(chain.asked) == 1 && chain.asked[0] == at && len(zzC04sRootAsked) == 1 && zzC04sRootAsked[0] == (common.Hash{0xEE, byte(at >> 8), byte(at)}), "stake and total stake are read in the validator set at the round's stake look-back height")
	zzverif.Assert(stake.Cmp(v.Stake) == 0 && total.Cmp(v.Stake) == 0, "stake and total chamber stake of that set")
	zzverif.Reach("end")
}
