package secp256k1VRF

// C04 (what a VRF proof commits to) — the sortition harnesses treat the VRF as an oracle whose
// proofs bind key, message and output.  This harness looks one level down: the real ProofToHash
// with the group and the hashes uninterpreted (an ideal group, random oracles): whenever a proof
// is accepted, the challenge hash was taken over a transcript that contains the message's curve
// point H1(m), the public key and the VRF point whose hash is the output - the Fiat-Shamir
// transcript covers the whole statement, so none of them can be swapped under the same proof.

import (
	"crypto/ecdsa"
	"crypto/elliptic"
	"math/big"

	"github.com/youchainhq/go-youchain/zzverif"
)

//verif:mode bv W=264
//verif:replace crypto/elliptic.Unmarshal zzVrfUnmarshal
//verif:replace crypto/elliptic.Marshal zzVrfMarshal
//verif:replace $M/crypto/vrf/secp256k1.H1 zzVrfH1
//verif:replace $M/crypto/vrf/secp256k1.H2 zzVrfH2
//verif:replace crypto/hmac.Equal zzVrfEqual
//verif:replace crypto/sha256.Sum256 zzVrfSum

type zzVrfCurve struct{}

func (zzVrfCurve) Params() *elliptic.CurveParams { return params }
func (zzVrfCurve) IsOnCurve(x, y *big.Int) bool  { return true }
func (zzVrfCurve) Add(x1, y1, x2, y2 *big.Int) (*big.Int, *big.Int) {
	return zzVrfPoint("add", x1, y1, x2, y2)
}
func (zzVrfCurve) Double(x1, y1 *big.Int) (*big.Int, *big.Int) { return zzVrfPoint("double", x1, y1) }
func (zzVrfCurve) ScalarMult(x1, y1 *big.Int, k []byte) (*big.Int, *big.Int) {
	return zzVrfPoint("mul", x1, y1, new(big.Int).SetBytes(k))
}
func (zzVrfCurve) ScalarBaseMult(k []byte) (*big.Int, *big.Int) {
	return zzVrfPoint("basemul", new(big.Int).SetBytes(k))
}

// a group operation: an uninterpreted function of its operands
func zzVrfPoint(op string, args ...*big.Int) (*big.Int, *big.Int) {
	var flat []interface{}
	for _, a := range args {
		flat = append(flat, a)
	}
	x := zzverif.UF32(op+".x", flat...)
	y := zzverif.UF32(op+".y", flat...)
	return new(big.Int).SetBytes(x[:]), new(big.Int).SetBytes(y[:])
}

func zzVrfUnmarshal(c elliptic.Curve, data []byte) (*big.Int, *big.Int) {
	if len(data) != 65 || data[0] != 4 {
		return nil, nil
	}
	return new(big.Int).SetBytes(data[1:33]), new(big.Int).SetBytes(data[33:65])
}

func zzVrf32(x *big.Int) []byte {
	out := make([]byte, 32)
	for i := 0; i < 32; i++ {
		out[i] = byte(new(big.Int).Rsh(x, uint(8*(31-i))).Uint64())
	}
	return out
}

func zzVrfMarshal(c elliptic.Curve, x, y *big.Int) []byte {
	return append(append([]byte{4}, zzVrf32(x)...), zzVrf32(y)...)
}

func zzVrfH1(m []byte) (*big.Int, *big.Int) {
	x, y := zzverif.UF32("H1.x", m), zzverif.UF32("H1.y", m)
	return new(big.Int).SetBytes(x[:]), new(big.Int).SetBytes(y[:])
}

var zzVrfTranscript []byte

func zzVrfH2(m []byte) *big.Int {
	zzVrfTranscript = append([]byte(nil), m...)
	h := zzverif.UF32("H2", m)
	return new(big.Int).SetBytes(h[:])
}

func zzVrfEqual(a, b []byte) bool {
	if len(a) != len(b) {
		return false
	}
	var eq []bool
	for i := range a {
		eq = append(eq, a[i] == b[i])
	}
	return zzverif.All(eq...)
}

func zzVrfSum(data []byte) [32]byte { return zzverif.UF32("sha256", data) }

func zzVrfContains(hay, needle []byte) bool {
	var at []bool
	for off := 0; off+len(needle) <= len(hay); off += 65 { // the transcript is a sequence of 65-byte points
		var eq []bool
		for i := range needle {
			eq = append(eq, hay[off+i] == needle[i])
		}
		at = append(at, zzverif.All(eq...))
	}
	return zzverif.Any(at...)
}

func zzH_C04_vrf_transcript() {
	curve = zzVrfCurve{}
	fieldP, _ := new(big.Int).SetString("fffffffffffffffffffffffffffffffffffffffffffffffffffffffefffffc2f", 16)
	params = &elliptic.CurveParams{P: fieldP, Gx: big.NewInt(7), Gy: big.NewInt(8), N: new(big.Int).Lsh(big.NewInt(1), 255), BitSize: 256}
	zzVrfTranscript = nil
	m := zzverif.Bytes("message", 4)
	proof := zzverif.Bytes("proof", 129)
	pkx, pky := new(big.Int).SetBytes(zzverif.Bytes("pk.x", 32)), new(big.Int).SetBytes(zzverif.Bytes("pk.y", 32))
	pk := &PublicKey{}
	pk.PublicKey = zzVrfKey(pkx, pky)
	_, err := pk.ProofToHash(m, proof)
	if err != nil {
		zzverif.Reach("rejected")
		return
	}
	zzverif.Reach("accepted")
	// the output is sha256 of these 65 bytes: a second accepted encoding of the same point would
	// be a second VRF output (seat count, priority) for the same key and message
	zzverif.Assert(proof[64] == 4, "an accepted proof carries its VRF point in the one canonical (uncompressed, tag 0x04) encoding")
	hx, hy := zzVrfH1(m)
	zzverif.Assert(zzVrfContains(zzVrfTranscript, proof[64:129]), "the challenge covers the VRF point the output is derived from")
	zzverif.Assert(zzVrfContains(zzVrfTranscript, zzVrfMarshal(nil, hx, hy)), "the challenge covers the message's curve point")
	zzverif.Assert(zzVrfContains(zzVrfTranscript, zzVrfMarshal(nil, pkx, pky)), "the challenge covers the public key")
	zzverif.Reach("end")
}

func zzVrfKey(x, y *big.Int) *ecdsa.PublicKey {
	return &ecdsa.PublicKey{Curve: zzVrfCurve{}, X: x, Y: y}
}
