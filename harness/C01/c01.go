package ucon

// C01 — a block header is accepted only with a protocol-sized quorum of valid
// precommits.  The real verifyConsensusFieldMain / verifyVotes run on an arbitrary
// decoded header (any thresholds, round index, vote list, aggregate) over a symbolic
// two-validator look-back set, with BLS / VRF / secp256k1 idealised by oracles.

import (
	"crypto/ecdsa"
	"errors"
	"math/big"

	"github.com/youchainhq/go-youchain/bls"
	"github.com/youchainhq/go-youchain/common"
	"github.com/youchainhq/go-youchain/core/state"
	"github.com/youchainhq/go-youchain/core/types"
	"github.com/youchainhq/go-youchain/crypto/vrf"
	"github.com/youchainhq/go-youchain/params"
	"github.com/youchainhq/go-youchain/zzverif"
)

//verif:mode bv W=264
//verif:replace $M/consensus/ucon.GetConsensusDataFromHeader zzC01ConsData
//verif:replace $M/consensus/ucon.ExtractUconValidators zzC01Extract
//verif:replace (*$M/consensus/ucon.BlockConsensusData).GetPublicKey zzC01ProposerKey
//verif:replace (*$M/consensus/ucon.BlsVerifier).RecoverSignerInfo zzC01Recover
//verif:replace $M/crypto/vrf/secp256k1.NewVRFVerifier zzC01VRF
//verif:replace $M/crypto.PubkeyToAddress zzC01Addr
//verif:replace $M/core/types.rlpHash zzC01RlpHash
//verif:replace $M/consensus/ucon.choose zzC04Choose
//verif:replace $M/consensus/ucon.OverThreshold zzC01Over
//verif:replace $M/core/state.PubToAddress zzC01PubToAddr

func zzC01PubToAddr(pub []byte) common.Address { return common.Address{0xA0, pub[1]} }

var (
	zzC01Seed, zzC01Hdr *types.Header
	zzC01SeedCon        *BlockConsensusData
	zzC01HdrCon         *BlockConsensusData
	zzC01UV             *UconValidators
	zzC01Proposer       byte
)

func zzC01ConsData(h *types.Header) (*BlockConsensusData, error) {
	if h == zzC01Seed {
		return zzC01SeedCon, nil
	}
	return zzC01HdrCon, nil
}

func zzC01Extract(h *types.Header, backType params.LookBackType) (*UconValidators, error) {
	return zzC01UV, nil
}

// keys are small identities carried in X
func zzC01Key(id byte) *ecdsa.PublicKey { return &ecdsa.PublicKey{X: big.NewInt(int64(id))} }

func zzC01ProposerKey(d *BlockConsensusData) (*ecdsa.PublicKey, error) {
	return zzC01Key(zzC01Proposer), nil
}

func zzC01VRF(pk *ecdsa.PublicKey) (vrf.PublicKey, error) {
	return zzC04PK{key: byte(pk.X.Uint64())}, nil
}

func zzC01Addr(p ecdsa.PublicKey) common.Address { return common.Address{0xA0, byte(p.X.Uint64())} }

func zzC01RlpHash(x interface{}) common.Hash { return common.Hash{0xBB} }

// quorum: an unknown function of (committee size, kind of quorum); the arithmetic of the
// real OverThreshold is the subject of C03's lemma
func zzC01Quorum(threshold uint64, isPos bool) uint32 {
	return uint32(zzverif.UF("quorum", threshold, isPos))
}
func zzC01Over(count uint32, threshold uint64, isPos bool) bool {
	return count >= zzC01Quorum(threshold, isPos)
}

type zzC01BlsPK struct{ id byte }

func (p *zzC01BlsPK) Verify(m bls.Message, s bls.Signature) error { return nil }
func (p *zzC01BlsPK) Aggregate(bls.PublicKey) error               { return nil }
func (p *zzC01BlsPK) Compress() (c bls.CompressedPublic)          { return }

func zzC01Recover(v *BlsVerifier, vs *state.Validators, vote *SingleVote) (*state.Validator, bls.PublicKey, *ecdsa.PublicKey, error) {
	signer, ok := vs.GetByIndex(int(vote.VoterIdx))
	if !ok {
		return nil, nil, nil, errors.New("invalid voter index")
	}
	id := signer.MainPubKey[1]
	return signer, &zzC01BlsPK{id: id}, zzC01Key(id), nil
}

// aggregate signature oracle: valid iff every listed key signed the payload
type zzC01Mgr struct{ bls.BlsManager }

func (zzC01Mgr) DecSignature(b []byte) (bls.Signature, error) { return &zzC05likeSig{}, nil }
func (zzC01Mgr) VerifyAggregatedOne(pubs []bls.PublicKey, m bls.Message, sig bls.Signature) error {
	for _, p := range pubs {
		if !zzC01Signed(p.(*zzC01BlsPK).id, m) {
			return errors.New("aggregate does not verify")
		}
	}
	return nil
}

type zzC05likeSig struct{}

func (*zzC05likeSig) Compress() (c bls.CompressedSignature) { return }

func zzC01Signed(id byte, payload []byte) bool { return zzverif.UFBool("signedPrecommit", id, payload) }

// zzC01ProofOK: the idealised VRF check as a term (no fork)
func zzC01ProofOK(key byte, m, proof []byte) bool {
	var pv uint64
	for _, b := range proof {
		pv = pv<<8 | uint64(b)
	}
	return pv == zzverif.UF("vrfProof", key, m)
}

type zzC01Reader struct {
	vals *state.Validators
	stat *state.ValidatorsStat
	list []*state.Validator
}

func (r zzC01Reader) GetValidatorsStat() (*state.ValidatorsStat, error) { return r.stat, nil }
func (r zzC01Reader) GetValidators() *state.Validators                  { return r.vals }
func (r zzC01Reader) GetValidatorByMainAddr(a common.Address) *state.Validator {
	for _, v := range r.list {
		if zzC01Addr(*zzC01Key(v.MainPubKey[1])) == a {
			return v
		}
	}
	return nil
}

func zzC01Pub(id byte) []byte {
	b := make([]byte, 33)
	b[0], b[1] = 2, id
	return b
}

// zzH_C01_header: whenever the real verifier accepts, the mathematical weight of distinct,
// eligible, really-signing validators with protocol-valid sortition reaches the quorum of the
// protocol's committee size, and the proposer credential was checked under the protocol's threshold.
func zzH_C01_header() { zzC01Run(true) }

// zzH_C01_votes: verifyVotes alone with two votes (duplicates, invalid-then-valid, ineligible
// signers) under the protocol's own threshold.
func zzH_C01_votes() { zzC01Run(false) }

// zzH_C01_votes3: three votes over the two validators (a vote repeated next to its original or
// with another vote in between); both validators eligible on the quick tier.
func zzH_C01_votes3() {
	zzC01Three = true
	zzC01Run(false)
}

var zzC01Three bool

// zzH_C01_votes_secp: the branch for protocol versions without BLS: every vote carries its own
// secp256k1 signature, the signer is whoever the signature recovers to.
//
//verif:replace $M/consensus/ucon.GetSignaturePublicKey zzC01Recovered
func zzH_C01_votes_secp() {
	zzC01NoBls = true
	zzC01Run(false)
}

var zzC01NoBls bool

// signature recovery: an arbitrary signature recovers to an arbitrary key (almost never a
// validator's), and that key did sign the payload - or recovery fails
func zzC01Recovered(data []byte, sig []byte) (*ecdsa.PublicKey, error) {
	if len(sig) != 2 || sig[1] != 0 {
		return nil, errors.New("invalid signature")
	}
	zzverif.Assume(zzC01Signed(sig[0], data))
	return zzC01Key(sig[0]), nil
}

func zzC01Run(whole bool) {
	// look-back validator set: two validators, symbolic role / status / stake (descending order fixed)
	var list []*state.Validator
	stat := state.NewValidatorsStat()
	for i := 0; i < 2; i++ {
		role := params.ValidatorRole(zzverif.U8("val.role"))
		zzverif.Assume(role >= 1 && role <= 3)
		status := zzverif.U8("val.status")
		zzverif.Assume(status <= 1)
		if (i == 0 || zzC01Three) && !zzverif.Thorough() {
			zzverif.Assume(role == params.RoleChancellor && status == params.ValidatorOnline) // quick tier: the larger validator is an online chancellor
		}
		stake := new(big.Int).SetUint64(uint64(zzverif.U32("val.stake")))
		zzverif.Assume(stake.Sign() > 0 && stake.Cmp(big.NewInt(1<<30)) < 0)
		v := state.NewValidator("v", common.Address{}, common.Address{}, role, zzC01Pub(byte(i+1)), zzC01Pub(byte(i+1)), new(big.Int), stake, 0, 0, 0, status)
		list = append(list, v)
		stat.GetByRole(role).AddVal(v)
		kind, _ := params.KindOfRole(role)
		stat.GetByKind(kind).AddVal(v)
		stat.GetByKind(params.KindValidator).AddVal(v)
	}
	zzverif.Assume(list[0].Stake.Cmp(list[1].Stake) > 0) // Validators are kept sorted by stake
	reader := zzC01Reader{vals: state.NewValidators(list), stat: stat, list: list}
	total := stat.GetStakeByKind(params.KindChamber)
	zzverif.Assume(total.Sign() > 0)

	cp := &params.CaravelParams{EnableBls: !zzC01NoBls, ProposerThreshold: uint64(zzverif.U16("cp.proposerThreshold")), ValidatorThreshold: uint64(zzverif.U16("cp.validatorThreshold"))}
	zzC01Seed, zzC01Hdr = &types.Header{Number: big.NewInt(4)}, &types.Header{Number: big.NewInt(9)}
	var seed, prio common.Hash
	copy(seed[:], zzverif.Bytes("seed", 32))
	copy(prio[:], zzverif.Bytes("priority", 32))
	zzC01SeedCon = &BlockConsensusData{Seed: seed}
	zzC01HdrCon = &BlockConsensusData{Round: big.NewInt(9), RoundIndex: zzverif.U32("hdr.roundIndex"), SortitionProof: zzverif.Bytes("hdr.proof", 8), Priority: prio,
		SubUsers: zzverif.U32("hdr.subUsers"), ProposerThreshold: zzverif.U64("hdr.proposerThreshold"), ValidatorThreshold: zzverif.U64("hdr.validatorThreshold")}
	zzverif.Assume(zzC01HdrCon.SubUsers <= 1)
	zzC01Proposer = zzverif.U8("hdr.proposerKey")
	if !zzverif.Thorough() {
		zzverif.Assume(zzC01Proposer == 1) // quick tier: the proposer is the first look-back validator (thorough: any key, incl. non-members)
		zzverif.Assume(zzC01HdrCon.SubUsers == 1)
	}
	nvotes := 2
	if zzC01Three {
		nvotes = 3
	}
	if whole {
		nvotes = zzverif.Choose("votes", 2) // the whole header path carries at most one vote; zzH_C01_votes has two
	}
	uv := &UconValidators{RoundIndex: zzverif.U32("uv.roundIndex"), SCAggrSig: []byte{1}}
	for k := 0; k < nvotes; k++ {
		sv := SingleVote{VoterIdx: zzverif.U32("vote.voterIdx"), Votes: zzverif.U32("vote.votes"), Proof: zzverif.Bytes("vote.proof", 8)}
		if zzC01NoBls {
			sv.Signature = zzverif.Bytes("vote.signature", 2)
		}
		uv.ChamberCommitters = append(uv.ChamberCommitters, sv)
	}
	zzC01UV = uv
	s := &Server{blsMgr: zzC01Mgr{}, blsVerifier: &BlsVerifier{}}
	var err error
	if whole {
		err = s.verifyConsensusFieldMain(cp, zzC01Seed, reader, nil, nil, zzC01Hdr)
	} else {
		zzC01HdrCon.ValidatorThreshold = cp.ValidatorThreshold
		cd := &commonData{cp: cp, lbVld: reader, headerHash: zzC01Hdr.Hash().Bytes(), seed: seed, round: big.NewInt(9), roundIndex: uv.RoundIndex, validatorThreshold: cp.ValidatorThreshold}
		err = s.verifyVotes(cd, uv.ChamberCommitters, uv.SCAggrSig, uint32(Precommit), params.KindChamber, true)
	}
	if err != nil {
		zzverif.Reach("rejected")
		return
	}
	zzverif.Reach("accepted")

	// ---- the specification ----
	payload := append(zzC01Hdr.Hash().Bytes(), append(big.NewInt(9).Bytes(), uint32ToBytes(uv.RoundIndex)...)...)
	pProto, _ := new(big.Float).Quo(new(big.Float).SetUint64(cp.ValidatorThreshold), new(big.Float).SetInt(total)).Float64()
	weight := uint64(0)
	ineligible := false
	m := MakeM(seed, uint32(Precommit), uv.RoundIndex)
	for i, val := range list {
		// validator i contributes (once) if some listed vote of it has a valid proof and the recomputed seat count
		id := val.MainPubKey[1]
		seats := zzverif.UF("seats", common.Hash(zzverif.UF32("vrfValue", id, m)), val.Stake.Int64(), pProto)
		var anyValid []bool
		for _, vt := range uv.ChamberCommitters {
			isVoter := vt.VoterIdx == uint32(i)
			if zzC01NoBls {
				isVoter = len(vt.Signature) == 2 && vt.Signature[1] == 0 && vt.Signature[0] == id
			}
			anyValid = append(anyValid, zzverif.All(isVoter, zzC01ProofOK(id, m, vt.Proof), uint64(vt.Votes) == seats, vt.Votes > 0))
		}
		counted := zzverif.All(zzverif.Any(anyValid...), zzC01Signed(id, payload))
		eligible := val.Kind() == params.KindChamber && val.IsOnline()
		if zzverif.All(counted, !eligible) {
			ineligible = true
		}
		weight += zzverif.IteU64(zzverif.All(counted, eligible), seats, 0)
	}
	enough := weight >= uint64(zzC01Quorum(cp.ValidatorThreshold, true))
	switch {
	case zzC01HdrCon.ValidatorThreshold != cp.ValidatorThreshold:
		zzverif.AssertKF(enough, "quorum of the protocol's committee size (header carries another validator threshold)", "C01-header-chosen-thresholds", true)
	case ineligible:
		zzverif.AssertKF(enough, "quorum from eligible voters only (an offline or non-chamber signer was counted)", "C01-voter-eligibility-not-checked", true)
	default:
		zzverif.Assert(enough, "distinct online chamber members with valid sortition and signature carry the protocol's quorum")
	}
	// proposer credential under the protocol's proposer threshold
	if !whole {
		zzverif.Reach("end")
		return
	}
	zzverif.AssertKF(zzC01HdrCon.ProposerThreshold == cp.ProposerThreshold, "the proposer credential is verified under the protocol's proposer threshold", "C01-header-chosen-thresholds", true)
	// ... and the credential itself verifies: proof under the proposer's key for (seed, round index,
	// proposal step), and the claimed priority is the largest hash over the seats claimed
	mP := MakeM(seed, uint32(UConStepProposal), zzC01HdrCon.RoundIndex)
	zzverif.Assert(zzC01ProofOK(zzC01Proposer, mP, zzC01HdrCon.SortitionProof), "the proposer's sortition proof verifies under its key for this seed, round index and the proposal step")
	value := common.Hash(zzverif.UF32("vrfValue", zzC01Proposer, mP))
	zzverif.Assert(zzC01HdrCon.Priority == VrfComputePriority(value, zzC01HdrCon.SubUsers), "the header's priority is the largest hash over the proposer's seats")
	zzverif.Reach("end")
}
