package staking

// Environment shared by the package-core harnesses (C07, C17): the real
// state.StateDB over an in-memory fake of state.Database / state.Trie.

import (
	"errors"
	"math/big"

	"github.com/youchainhq/go-youchain/common"
	"github.com/youchainhq/go-youchain/core/state"
	"github.com/youchainhq/go-youchain/params"
	"github.com/youchainhq/go-youchain/trie"
	"github.com/youchainhq/go-youchain/youdb"
	"github.com/youchainhq/go-youchain/zzverif"
)

type zzTrie struct{ m map[string][]byte }

func (t *zzTrie) TryGet(key []byte) ([]byte, error) { return t.m[string(key)], nil }
func (t *zzTrie) TryUpdate(key, value []byte) error {
	t.m[string(key)] = append([]byte(nil), value...)
	return nil
}
func (t *zzTrie) TryDelete(key []byte) error                      { delete(t.m, string(key)); return nil }
func (t *zzTrie) Commit(trie.LeafCallback) (common.Hash, error)   { return common.Hash{}, nil }
func (t *zzTrie) Hash() common.Hash                               { return common.Hash{} }
func (t *zzTrie) NodeIterator(startKey []byte) trie.NodeIterator  { return nil }
func (t *zzTrie) GetKey([]byte) []byte                            { return nil }
func (t *zzTrie) Prove(key []byte, l uint, db youdb.Putter) error { return nil }

type zzDB struct{}

func (zzDB) OpenTrie(root common.Hash) (state.Trie, error) {
	return &zzTrie{m: map[string][]byte{}}, nil
}
func (zzDB) OpenStorageTrie(a, root common.Hash) (state.Trie, error) {
	return &zzTrie{m: map[string][]byte{}}, nil
}
func (zzDB) CopyTrie(t state.Trie) state.Trie {
	n := &zzTrie{m: map[string][]byte{}}
	for k, v := range t.(*zzTrie).m {
		n.m[k] = v
	}
	return n
}
func (zzDB) ContractCode(a, h common.Hash) ([]byte, error)  { return nil, nil }
func (zzDB) ContractCodeSize(a, h common.Hash) (int, error) { return 0, nil }
func (zzDB) DelegationBytes(h common.Hash) ([]byte, error)  { return nil, errors.New("not found") }
func (zzDB) TrieDB() *trie.Database                         { return new(trie.Database) }

func zzNewState() *state.StateDB {
	s, err := state.New(common.Hash{}, common.Hash{}, common.Hash{}, zzDB{})
	if err != nil {
		panic(err)
	}
	return s
}

// zzPubToAddress stands in for state.PubToAddress: the 20 bytes after the format byte.
func zzPubToAddress(pubkey []byte) common.Address {
	var a common.Address
	if len(pubkey) == 33 {
		copy(a[:], pubkey[1:21])
	}
	return a
}

func zzPub(i int) []byte {
	b := make([]byte, 33)
	b[0] = 2
	b[1] = byte(0xA0 + i)
	return b
}

func zzValAddr(i int) common.Address { return zzPubToAddress(zzPub(i)) }

// zzStatsFollow: the validator statistics (kind "validator": everybody) are the
// recomputation from the records of validators 1..n — tokens, stakes and counts split by
// status.  (C08's invariant, for harnesses of the staking package.)
func zzStatsFollow(s *state.StateDB, n int) bool {
	onTok, offTok, onStake, offStake := new(big.Int), new(big.Int), new(big.Int), new(big.Int)
	var on, off uint64
	for i := 1; i <= n; i++ {
		v := s.GetValidatorByMainAddr(zzValAddr(i))
		if v == nil {
			continue
		}
		if v.Status == params.ValidatorOnline {
			onTok.Add(onTok, v.Token)
			onStake.Add(onStake, v.Stake)
			on++
		} else {
			offTok.Add(offTok, v.Token)
			offStake.Add(offStake, v.Stake)
			off++
		}
	}
	st, err := s.GetValidatorsStat()
	if err != nil {
		return false
	}
	k := st.GetByKind(params.KindValidator)
	return zzverif.All(k.GetOnlineToken().Cmp(onTok) == 0, k.GetOfflineToken().Cmp(offTok) == 0,
		k.GetOnlineStake().Cmp(onStake) == 0, k.GetOfflineStake().Cmp(offStake) == 0,
		k.GetCount() == on, k.GetOfflineCount() == off)
}
