package state

// Shared environment for the core/state harnesses (C08, C09, C10): the real
// StateDB linked against an in-memory fake of its own Database / Trie
// interfaces, and deterministic stand-ins for public-key hashing.

import (
	"errors"
	"math/big"

	"github.com/youchainhq/go-youchain/common"
	"github.com/youchainhq/go-youchain/common/hexutil"
	"github.com/youchainhq/go-youchain/params"
	"github.com/youchainhq/go-youchain/trie"
	"github.com/youchainhq/go-youchain/youdb"
	"github.com/youchainhq/go-youchain/zzverif"
)

type zzTrie struct{ m map[string][]byte }

func (t *zzTrie) TryGet(key []byte) ([]byte, error) { return t.m[string(key)], nil }
func (t *zzTrie) TryUpdate(key, value []byte) error {
	t.m[string(key)] = append([]byte(nil), value...)
	return nil
}
func (t *zzTrie) TryDelete(key []byte) error                        { delete(t.m, string(key)); return nil }
func (t *zzTrie) Commit(trie.LeafCallback) (common.Hash, error)     { return common.Hash{}, nil }
func (t *zzTrie) Hash() common.Hash                                 { return common.Hash{} }
func (t *zzTrie) NodeIterator(startKey []byte) trie.NodeIterator    { return nil }
func (t *zzTrie) GetKey([]byte) []byte                              { return nil }
func (t *zzTrie) Prove(key []byte, l uint, db youdb.Putter) error   { return nil }

type zzDB struct{}

func (zzDB) OpenTrie(root common.Hash) (Trie, error)                  { return &zzTrie{m: map[string][]byte{}}, nil }
func (zzDB) OpenStorageTrie(a, root common.Hash) (Trie, error)        { return &zzTrie{m: map[string][]byte{}}, nil }
func (zzDB) CopyTrie(t Trie) Trie {
	n := &zzTrie{m: map[string][]byte{}}
	for k, v := range t.(*zzTrie).m {
		n.m[k] = v
	}
	return n
}
func (zzDB) ContractCode(a, h common.Hash) ([]byte, error)  { return nil, nil }
func (zzDB) ContractCodeSize(a, h common.Hash) (int, error) { return 0, nil }
func (zzDB) DelegationBytes(h common.Hash) ([]byte, error)  { return nil, errors.New("not found") }
func (zzDB) TrieDB() *trie.Database                         { return nil }

func zzNewState() *StateDB {
	s, err := New(common.Hash{}, common.Hash{}, common.Hash{}, zzDB{})
	if err != nil {
		panic(err)
	}
	return s
}

// zzPubToAddress stands in for PubToAddress (secp256k1 decompression + keccak):
// the address is the 20 bytes after the format byte, so distinct harness keys
// give distinct addresses.
func zzPubToAddress(pubkey []byte) common.Address {
	var a common.Address
	if len(pubkey) == 33 {
		copy(a[:], pubkey[1:21])
	}
	return a
}

// zzPub builds the i-th harness public key.
func zzPub(i int) hexutil.Bytes {
	b := make([]byte, 33)
	b[0] = 2
	b[1] = byte(0xA0 + i)
	return b
}

func zzValAddr(i int) common.Address { return zzPubToAddress(zzPub(i)) }

func zzAddr(i int) common.Address { return common.Address{0x10 + byte(i)} }

var zzRoles = []params.ValidatorRole{params.RoleChancellor, params.RoleSenator, params.RoleHouse}

// zzSymValidator creates validator i with symbolic role, status, token and stake.
func zzSymValidator(s *StateDB, i int, tag string) *Validator {
	role := zzRoles[zzverif.Choose(tag+".role", 3)]
	status := zzverif.U8(tag + ".status")
	zzverif.Assume(status <= 1)
	token := zzverif.Big(tag+".token", 80)
	stake := zzverif.Big(tag+".stake", 40)
	return s.CreateValidator("v", zzAddr(i), zzAddr(i), role, zzPub(i), zzPub(i), token, stake, 1, uint16(zzverif.U16(tag+".commission")), uint16(zzverif.U16(tag+".risk")), status)
}

func zzBigEq(a, b *big.Int) bool { return a.Cmp(b) == 0 }

func zzEncodeStub(val interface{}) ([]byte, error) {
	switch v := val.(type) {
	case common.SortedAddresses:
		var out []byte
		for _, a := range v {
			out = append(out, a[:]...)
		}
		return out, nil
	}
	panic("zzEncodeStub: unexpected type")
}


// zzValState builds an arbitrary two-validator state; validator 1 carries one
// delegation from the delegator account when withDlg is chosen.
func zzValState() (*StateDB, common.Address) {
	s := zzNewState()
	d := zzAddr(7)
	s.SetBalance(d, zzverif.Big("dbal", 100))
	for i := 1; i <= 2; i++ {
		tag := "v1"
		if i == 2 {
			tag = "v2"
		}
		role := params.ValidatorRole(zzverif.U8(tag + ".role"))
		zzverif.Assume(role >= 1 && role <= 3)
		status := zzverif.U8(tag + ".status")
		zzverif.Assume(status <= 1)
		if i == 2 && !zzverif.Thorough() {
			// quick tier: the second validator is an online house member (its token stays symbolic)
			zzverif.Assume(role == params.RoleHouse && status == params.ValidatorOnline)
		}
		token := zzverif.Big(tag+".token", 90)
		s.CreateValidator("v", zzAddr(i), zzAddr(i), role, zzPub(i), zzPub(i), token, params.YOUToStake(token), 1, 0, 0, status)
	}
	if zzverif.Bool("withDelegation") {
		amt := zzverif.Big("dlg.token", 90)
		zzverif.Assume(amt.Sign() > 0)
		v1 := s.GetValidatorByMainAddr(zzValAddr(1))
		s.UpdateDelegation(d, v1, amt)
	}
	s.Finalise(false)
	return s, d
}

