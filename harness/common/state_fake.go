package state

// Shared environment for the core/state harnesses (C08, C09, C10): the real
// StateDB linked against an in-memory fake of its own Database / Trie
// interfaces, and deterministic stand-ins for public-key hashing.

import (
	"errors"
	"math/big"

	"github.com/youchainhq/go-youchain/common"
	"github.com/youchainhq/go-youchain/common/hexutil"
	"github.com/youchainhq/go-youchain/core/types"
	"github.com/youchainhq/go-youchain/params"
	"github.com/youchainhq/go-youchain/trie"
	"github.com/youchainhq/go-youchain/youdb"
	"github.com/youchainhq/go-youchain/zzverif"
)

type zzTrie struct{ m map[string][]byte }

func (t *zzTrie) TryGet(key []byte) ([]byte, error) { return t.m[string(key)], nil }
func (t *zzTrie) TryUpdate(key, value []byte) error {
	t.m[string(key)] = append([]byte(nil), value...)
	return nil
}
func (t *zzTrie) TryDelete(key []byte) error                      { delete(t.m, string(key)); return nil }
func (t *zzTrie) Commit(trie.LeafCallback) (common.Hash, error)   { return common.Hash{}, nil }
func (t *zzTrie) Hash() common.Hash                               { return common.Hash{} }
func (t *zzTrie) NodeIterator(startKey []byte) trie.NodeIterator  { return nil }
func (t *zzTrie) GetKey([]byte) []byte                            { return nil }
func (t *zzTrie) Prove(key []byte, l uint, db youdb.Putter) error { return nil }

type zzDB struct{}

func (zzDB) OpenTrie(root common.Hash) (Trie, error) { return &zzTrie{m: map[string][]byte{}}, nil }
func (zzDB) OpenStorageTrie(a, root common.Hash) (Trie, error) {
	return &zzTrie{m: map[string][]byte{}}, nil
}
func (zzDB) CopyTrie(t Trie) Trie {
	n := &zzTrie{m: map[string][]byte{}}
	for k, v := range t.(*zzTrie).m {
		n.m[k] = v
	}
	return n
}
func (zzDB) ContractCode(a, h common.Hash) ([]byte, error)  { return nil, nil }
func (zzDB) ContractCodeSize(a, h common.Hash) (int, error) { return 0, nil }
func (zzDB) DelegationBytes(h common.Hash) ([]byte, error)  { return nil, errors.New("not found") }
func (zzDB) TrieDB() *trie.Database                         { return new(trie.Database) }

func zzNewState() *StateDB {
	s, err := New(common.Hash{}, common.Hash{}, common.Hash{}, zzDB{})
	if err != nil {
		panic(err)
	}
	return s
}

// zzPubToAddress stands in for PubToAddress (secp256k1 decompression + keccak):
// the address is the 20 bytes after the format byte, so distinct harness keys
// give distinct addresses.
func zzPubToAddress(pubkey []byte) common.Address {
	var a common.Address
	if len(pubkey) == 33 {
		copy(a[:], pubkey[1:21])
	}
	return a
}

// zzPub builds the i-th harness public key.
func zzPub(i int) hexutil.Bytes {
	b := make([]byte, 33)
	b[0] = 2
	b[1] = byte(0xA0 + i)
	return b
}

func zzValAddr(i int) common.Address { return zzPubToAddress(zzPub(i)) }

func zzAddr(i int) common.Address { return common.Address{0x10 + byte(i)} }

var zzRoles = []params.ValidatorRole{params.RoleChancellor, params.RoleSenator, params.RoleHouse}

// zzSymValidator creates validator i with symbolic role, status, token and stake.
func zzSymValidator(s *StateDB, i int, tag string) *Validator {
	role := zzRoles[zzverif.Choose(tag+".role", 3)]
	status := zzverif.U8(tag + ".status")
	zzverif.Assume(status <= 1)
	token := zzverif.Big(tag+".token", 80)
	stake := zzverif.Big(tag+".stake", 40)
	return s.CreateValidator("v", zzAddr(i), zzAddr(i), role, zzPub(i), zzPub(i), token, stake, 1, uint16(zzverif.U16(tag+".commission")), uint16(zzverif.U16(tag+".risk")), status)
}

func zzBigEq(a, b *big.Int) bool { return a.Cmp(b) == 0 }

func zzEncodeStub(val interface{}) ([]byte, error) {
	switch v := val.(type) {
	case common.SortedAddresses:
		var out []byte
		for _, a := range v {
			out = append(out, a[:]...)
		}
		return out, nil
	}
	panic("zzEncodeStub: unexpected type")
}

// zzValState builds an arbitrary two-validator state; validator 1 carries one
// delegation from the delegator account when withDlg is chosen.
func zzValState() (*StateDB, common.Address) {
	s := zzNewState()
	d := zzAddr(7)
	s.SetBalance(d, zzverif.Big("dbal", 100))
	for i := 1; i <= 2; i++ {
		tag := "v1"
		if i == 2 {
			tag = "v2"
		}
		role := params.ValidatorRole(zzverif.U8(tag + ".role"))
		zzverif.Assume(role >= 1 && role <= 3)
		status := zzverif.U8(tag + ".status")
		zzverif.Assume(status <= 1)
		if i == 2 && !zzverif.Thorough() {
			// quick tier: the second validator is an online house member (its token stays symbolic)
			zzverif.Assume(role == params.RoleHouse && status == params.ValidatorOnline)
		}
		token := zzverif.Big(tag+".token", 90)
		s.CreateValidator("v", zzAddr(i), zzAddr(i), role, zzPub(i), zzPub(i), token, params.YOUToStake(token), 1, 0, 0, status)
	}
	if zzverif.Bool("withDelegation") {
		amt := zzverif.Big("dlg.token", 90)
		zzverif.Assume(amt.Sign() > 0)
		v1 := s.GetValidatorByMainAddr(zzValAddr(1))
		s.UpdateDelegation(d, v1, amt)
		if zzValTwoDlg && zzverif.Bool("withSecondDelegation") {
			// the delegator's list then has two entries (validator 1 sorts first)
			s.UpdateDelegation(d, s.GetValidatorByMainAddr(zzValAddr(2)), big.NewInt(7))
		}
	}
	s.Finalise(false)
	return s, d
}

// zzValTwoDlg lets zzValState give the delegator a second delegation (to validator 2).
var zzValTwoDlg bool

// ---- observers shared by C09 / C10 ----

type zzC09Obs struct {
	bal, dlgBal    [2]*big.Int
	nonce          [2]uint64
	exist, suicide [2]bool
	code           [2][]byte
	slot           [2]common.Hash
	refund         uint64
	nlogs          int
	preimg         int
}

func zzC09Observe(s *StateDB, key common.Hash) zzC09Obs {
	var o zzC09Obs
	for i := 0; i < 2; i++ {
		a := zzAddr(i)
		o.bal[i] = new(big.Int).Set(s.GetBalance(a))
		o.nonce[i] = s.GetNonce(a)
		o.exist[i] = s.Exist(a)
		o.suicide[i] = s.HasSuicided(a)
		o.code[i] = append([]byte(nil), s.GetCode(a)...)
		o.slot[i] = s.GetState(a, key)
	}
	o.refund = s.GetRefund()
	o.nlogs = len(s.Logs())
	o.preimg = len(s.Preimages())
	return o
}

func zzC09Same(x, y zzC09Obs) bool {
	ok := x.refund == y.refund && x.nlogs == y.nlogs && x.preimg == y.preimg
	for i := 0; i < 2; i++ {
		ok = ok && x.bal[i].Cmp(y.bal[i]) == 0 && x.nonce[i] == y.nonce[i] && x.exist[i] == y.exist[i] &&
			x.suicide[i] == y.suicide[i] && x.slot[i] == y.slot[i] && len(x.code[i]) == len(y.code[i])
		if len(x.code[i]) == len(y.code[i]) {
			for j := range x.code[i] {
				ok = ok && x.code[i][j] == y.code[i][j]
			}
		}
	}
	return ok
}

type zzC09ValObs struct {
	present                            bool
	role                               uint8
	status                             uint8
	token, stake, selfToken, selfStake *big.Int
	ndlg                               int
	dlgToken, dlgStake                 *big.Int // of the harness delegator, if listed first
	dlgListed                          bool
	// the rest of the record
	expelled                               bool
	expelExpired, lastInactive, lastActive uint64
	rewardsDist, rewardsTotal              *big.Int
	rewardsLastSettled                     uint64
	commission, risk, accept               uint16
	operator, coinbase                     common.Address
}

type zzC09VObs struct {
	v        [4]zzC09ValObs
	stats    [6][4]*big.Int
	counts   [6][2]uint64
	qlen     int
	qnonce   [3]uint64
	dBal     *big.Int
	dCount   int
	dList    [3]common.Address // the delegator account's own list of validators
	indexLen int
}

func zzC09ObserveVal(s *StateDB, d common.Address) zzC09VObs {
	var o zzC09VObs
	for i := 1; i <= 3; i++ {
		v := s.GetValidatorByMainAddr(zzValAddr(i))
		if v == nil {
			continue
		}
		vo := zzC09ValObs{present: true, role: uint8(v.Role), status: v.Status, token: new(big.Int).Set(v.Token), stake: new(big.Int).Set(v.Stake),
			selfToken: new(big.Int).Set(v.SelfToken), selfStake: new(big.Int).Set(v.SelfStake), ndlg: len(v.Delegations),
			expelled: v.Expelled, expelExpired: v.ExpelExpired, lastInactive: v.LastInactive, lastActive: v.LastActive(),
			rewardsDist: new(big.Int).Set(v.RewardsDistributable), rewardsTotal: new(big.Int).Set(v.RewardsTotal), rewardsLastSettled: v.RewardsLastSettled,
			commission: v.CommissionRate, risk: v.RiskObligation, accept: v.AcceptDelegation, operator: v.OperatorAddress, coinbase: v.Coinbase}
		if len(v.Delegations) > 0 && v.Delegations[0] != nil {
			vo.dlgListed = v.Delegations[0].Delegator == d
			vo.dlgToken = new(big.Int).Set(v.Delegations[0].Token)
			vo.dlgStake = new(big.Int).Set(v.Delegations[0].Stake)
		}
		o.v[i] = vo
	}
	stat, _ := s.GetValidatorsStat()
	ks := []*ValKindStat{stat.GetByRole(params.RoleChancellor), stat.GetByRole(params.RoleSenator), stat.GetByRole(params.RoleHouse),
		stat.GetByKind(params.KindValidator), stat.GetByKind(params.KindChamber), stat.GetByKind(params.KindHouse)}
	for i, k := range ks {
		o.stats[i] = [4]*big.Int{k.GetOnlineStake(), k.GetOnlineToken(), k.GetOfflineStake(), k.GetOfflineToken()}
		o.counts[i] = [2]uint64{k.GetCount(), k.GetOfflineCount()}
	}
	q := s.GetWithdrawQueue()
	o.qlen = q.Len()
	for i := 0; i < q.Len() && i < 3; i++ {
		o.qnonce[i] = q.Records[i].Nonce
	}
	if obj := s.getStateObject(d); obj != nil {
		o.dBal = new(big.Int).Set(obj.DelegationBalance())
		o.dCount = obj.GetDelegationsCount()
		for i, a := range obj.Delegations() {
			if i < len(o.dList) {
				o.dList[i] = a
			}
		}
	}
	o.indexLen = len(s.validatorIndex.List())
	return o
}

func zzC09BigSame(a, b *big.Int) bool {
	if a == nil || b == nil {
		return a == nil && b == nil
	}
	return a.Cmp(b) == 0
}

func zzC09SameVal(x, y zzC09VObs) bool {
	var oks []bool
	for i := 1; i <= 3; i++ {
		a, b := x.v[i], y.v[i]
		oks = append(oks, a.present == b.present)
		if a.present && b.present {
			oks = append(oks, a.role == b.role, a.status == b.status, zzC09BigSame(a.token, b.token), zzC09BigSame(a.stake, b.stake),
				zzC09BigSame(a.selfToken, b.selfToken), zzC09BigSame(a.selfStake, b.selfStake), a.ndlg == b.ndlg,
				a.dlgListed == b.dlgListed, zzC09BigSame(a.dlgToken, b.dlgToken), zzC09BigSame(a.dlgStake, b.dlgStake),
				a.expelled == b.expelled, a.expelExpired == b.expelExpired, a.lastInactive == b.lastInactive, a.lastActive == b.lastActive,
				zzC09BigSame(a.rewardsDist, b.rewardsDist), zzC09BigSame(a.rewardsTotal, b.rewardsTotal), a.rewardsLastSettled == b.rewardsLastSettled,
				a.commission == b.commission, a.risk == b.risk, a.accept == b.accept, a.operator == b.operator, a.coinbase == b.coinbase)
		}
	}
	for i := range x.stats {
		for j := range x.stats[i] {
			oks = append(oks, zzC09BigSame(x.stats[i][j], y.stats[i][j]))
		}
		oks = append(oks, x.counts[i] == y.counts[i])
	}
	oks = append(oks, x.qlen == y.qlen, x.qnonce == y.qnonce, zzC09BigSame(x.dBal, y.dBal), x.dCount == y.dCount, x.dList == y.dList, x.indexLen == y.indexLen)
	return zzverif.All(oks...)
}

var _ = types.Log{}
