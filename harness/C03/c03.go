package ucon

// C03 — votes escalate and blocks commit only on a counted quorum.
// (a) tally step over the real VoteSta, (b) escalation step of judgeVoteCount,
// (c) the floating-point quorum test against its rational meaning.

import (
	"math/big"

	"github.com/youchainhq/go-youchain/common"
	"github.com/youchainhq/go-youchain/core/types"
	"github.com/youchainhq/go-youchain/event"
	"github.com/youchainhq/go-youchain/params"
	"github.com/youchainhq/go-youchain/zzverif"
)

//verif:mode bv W=264

type zzC03Msg struct {
	addr  common.Address
	hash  common.Hash
	votes uint32
}

// zzH_C03_tally: after any sequence of votes from symbolic senders for symbolic blocks,
// the tally of every block is the sum of the first votes of the senders that never
// equivocated; an equivocating sender contributes nothing to either block.
func zzH_C03_tally() {
	n := zzverif.Bound("voteMessages", 3, 4)
	kind := Prevote
	if zzverif.Bool("precommit") {
		kind = Precommit
	}
	sta := NewVoteSta(kind)
	var msgs []zzC03Msg
	for i := 0; i < n; i++ {
		m := zzC03Msg{votes: uint32(zzverif.U16("votes"))}
		m.addr[0] = zzverif.U8("sender")
		m.hash[0] = zzverif.U8("block")
		zzverif.Assume(m.addr[0] < 3 && m.hash[0] < 3)
		// exactly what processVoteMsg does with a verified vote
		t, _ := sta.addrVoteInfo(m.addr, m.hash)
		if t == addrNotVoted {
			sta.newVote(m.addr, common.Hash{}, m.hash, &SingleVote{Votes: m.votes})
		}
		msgs = append(msgs, m)
	}
	zzverif.Reach("processed")
	for b := byte(0); b < 3; b++ {
		var h common.Hash
		h[0] = b
		want := uint32(0)
		for i, m := range msgs {
			first := true
			for _, e := range msgs[:i] {
				if e.addr == m.addr {
					first = false
				}
			}
			double := false
			firstHash := m.hash
			for _, e := range msgs {
				if e.addr == m.addr && e.hash != firstHash && first {
					double = true
				}
			}
			// the first vote of the sender counts for its block unless the sender equivocated later or earlier
			eq := false
			for _, e := range msgs {
				if e.addr == m.addr && e.hash != m.hash {
					eq = true
				}
			}
			_ = double
			want += uint32(zzverif.IteU64(zzverif.All(first, m.hash == h, !eq), uint64(m.votes), 0))
		}
		_, got := sta.getVotesInfo(h)
		zzverif.Assert(got == want, "the tally of a block is the weight of its non-equivocating first voters")
	}
	zzverif.Reach("end")
}

// zzH_C03_quorum: the float64 quorum test is the rational 0.685 / 0.585 fraction of the
// committee size, rounded down.
func zzH_C03_quorum() {
	maxT := uint64(zzverif.Bound("committee", 255, 4096))
	t := uint64(zzverif.U16("threshold"))
	zzverif.Assume(t <= maxT)
	count := zzverif.U32("count")
	pos := zzverif.Bool("isPos")
	got := OverThreshold(count, t, pos)
	num := uint64(585)
	if pos {
		num = 685
	}
	// (the float64 product can land just below an exact integer: for T = 3400 and 0.585 it is
	// 1988.9999999999998, so the float quorum is 1988 where the rational one is 1989)
	zzverif.Assert(!(uint64(count)*1000 >= t*num) || got, "a count that reaches the rational fraction 0.685 T (0.585 T for certificates) passes the test")
	zzverif.Assert(!got || uint64(count)*1000+1000 >= t*num, "a count that passes the test is less than one vote below the rational fraction")
	zzverif.Reach("end")
}

// ---- escalation step ----

// the quorum test as an unknown predicate (its arithmetic is zzH_C03_quorum's subject)
func zzC03Over(count uint32, threshold uint64, isPos bool) bool {
	return zzverif.UFBool("overThreshold", count, threshold, isPos)
}

var zzC03Log []string

func zzC03Vote(v *Voter, voteType VoteType, blockHash common.Hash, priority common.Hash) error {
	zzC03Log = append(zzC03Log, "vote:"+VoteTypeToString(voteType))
	if zzverif.Bool("voteFails") {
		return errAlready
	}
	return nil
}

var errAlready = &zzC03Err{}

type zzC03Err struct{}

func (*zzC03Err) Error() string { return "already voted" }

func zzC03Commit(v *Voter, blockHash common.Hash, priority common.Hash) {
	zzC03Log = append(zzC03Log, "commit")
}

func zzC03Mark(v *Voter, blockHash common.Hash, priority common.Hash) {}

// zzH_C03_escalate: from an arbitrary voter state, one tally report makes the voter
// precommit only on a prevote quorum, certificate-vote only on a precommit quorum in a
// certificate round, and commit only when every required quorum for that block is in.
//
//verif:replace (*$M/consensus/ucon.Voter).vote zzC03Vote
//verif:replace (*$M/consensus/ucon.Voter).commit zzC03Commit
//verif:replace (*$M/consensus/ucon.Voter).setMarkedBlock zzC03Mark
//verif:replace $M/consensus/ucon.OverThreshold zzC03Over
func zzH_C03_escalate() {
	zzC03Log = nil
	var b common.Hash
	b[0] = 1
	v := &Voter{round: big.NewInt(5), roundIndex: 1, voteOver: map[common.Hash]*VoteStatus{}}
	v.precommitted, v.committed, v.certificated, v.shouldCert = zzverif.Bool("precommitted"), zzverif.Bool("committed"), zzverif.Bool("certificated"), zzverif.Bool("shouldCert")
	// what was already over for this block (only ever set by an earlier over-quorum report)
	hadPrecommit, hadCert := zzverif.Bool("over.precommit"), zzverif.Bool("over.certificate")
	st := &VoteStatus{}
	if hadPrecommit {
		st.update(Precommit, params.KindChamber)
	}
	if hadCert {
		st.update(Certificate, params.KindChamber)
	}
	v.voteOver[b] = st
	vt := VoteType(zzverif.Choose("kind", 3) + int(Prevote))
	if vt == NextIndex {
		vt = Certificate
	}
	kind := params.ValidatorKind(zzverif.Choose("validatorKind", 2) + 1)
	count, threshold := zzverif.U32("count"), uint64(zzverif.U16("threshold"))
	over := zzC03Over(count, threshold, vt != Certificate)
	v.judgeVoteCount(vt, count, threshold, b, common.Hash{}, kind)
	zzverif.Reach("judged")
	for _, ev := range zzC03Log {
		zzverif.Assert(over && kind == params.KindChamber, "nothing escalates without a chamber quorum in this report")
		switch ev {
		case "vote:Precommit":
			zzverif.Reach("precommit")
			zzverif.Assert(vt == Prevote, "a precommit is cast only on a prevote quorum for exactly that block")
		case "vote:Certificate":
			zzverif.Assert(vt == Precommit && v.shouldCert, "a certificate vote is cast only on a precommit quorum in a certificate round")
		case "commit":
			zzverif.Reach("commit")
			precommitIn := vt == Precommit || hadPrecommit
			certIn := vt == Certificate || hadCert
			zzverif.Assert(precommitIn && (!v.shouldCert || certIn || vt == Certificate), "a commit needs the precommit quorum, and in a certificate round also the certificate quorum")
		}
	}
	zzverif.Reach("end")
}

// ---- (d) the vote set attached to a commit carries the quorums ----

var zzC03Commits []CommitEvent

func zzC03Post(mux *event.TypeMux, ev interface{}) error {
	if ce, ok := ev.(CommitEvent); ok {
		zzC03Commits = append(zzC03Commits, ce)
	}
	return nil
}

// the quorum test idealised in integers (the float64 original is at most one vote laxer: zzH_C03_quorum)
func zzC03OverInt(count uint32, threshold uint64, isPos bool) bool {
	num := uint64(585)
	if isPos {
		num = 685
	}
	return uint64(count) >= threshold*num/1000
}

func zzC03Weight(v VotesInfoForBlockHash) uint64 {
	w := uint64(0)
	for _, sv := range v {
		w += uint64(sv.Votes)
	}
	return w
}

// zzH_C03_commit: over any sequence of verified precommit / certificate votes from three
// senders for two blocks (equivocation included), every CommitEvent the voter posts carries
// precommits — and in a certificate round certificate votes — that reach their quorums.
//
//verif:replace (*$M/consensus/ucon.Voter).vote zzC03Vote
//verif:replace (*$M/consensus/ucon.Voter).setMarkedBlock zzC03Mark
//verif:replace $M/consensus/ucon.OverThreshold zzC03OverInt
//verif:replace (*$M/event.TypeMux).AsyncPost zzC03Post
func zzH_C03_commit() { zzC03CommitRun(true) }

// the same in a round without certificate votes
//
//verif:replace (*$M/consensus/ucon.Voter).vote zzC03Vote
//verif:replace (*$M/consensus/ucon.Voter).setMarkedBlock zzC03Mark
//verif:replace $M/consensus/ucon.OverThreshold zzC03OverInt
//verif:replace (*$M/event.TypeMux).AsyncPost zzC03Post
func zzH_C03_commit_plain() { zzC03CommitRun(false) }

func zzC03CommitRun(cert bool) { zzC03CommitHist(cert, false) }

// zzH_C03_commit_ri: the same history with one real updateContext to the next round index
// of the same round at a symbolic position: quorum flags of the previous round index must
// not let a commit through whose own round index has no quorum.
//
//verif:replace (*$M/consensus/ucon.Voter).vote zzC03Vote
//verif:replace (*$M/consensus/ucon.Voter).setMarkedBlock zzC03Mark
//verif:replace $M/consensus/ucon.OverThreshold zzC03OverInt
//verif:replace (*$M/event.TypeMux).AsyncPost zzC03Post
//verif:noop (*$M/consensus/ucon.VoteDB).UpdateContext
func zzH_C03_commit_ri() { zzC03CommitHist(true, true) }

func zzC03CommitHist(cert, ctxChange bool) {
	zzC03Log, zzC03Commits = nil, nil
	n := zzverif.Bound("commitMessages", 4, 4)
	if ctxChange {
		n = zzverif.Bound("commitMessages (with a round-index change)", 3, 4)
	}
	round := big.NewInt(5)
	blk := types.NewBlockWithHeader(&types.Header{Number: big.NewInt(5)})
	v := &Voter{round: round, roundIndex: 1, voteOver: map[common.Hash]*VoteStatus{}, votesWrappers: NewVotesWrapperList()}
	v.shouldCert = cert
	v.blockInCacheFn = func(h, p common.Hash) *types.Block { return blk }
	v.votesMgr = v.votesWrappers.NewWrapper(round, 1)
	tPos, tCert := uint64(zzverif.U16("threshold.precommit")), uint64(zzverif.U16("threshold.certificate"))
	zzverif.Assume(tPos >= 10 && tPos <= 4096 && tCert >= 10 && tCert <= 4096)
	changeAt := -1
	if ctxChange {
		changeAt = 1 + zzverif.Choose("roundIndexChangesBeforeMessage", n-1)
	}
	// equivocation seen in the current round index, per step (the known finding needs one)
	eqPre, eqCert := false, false
	seen := 0
	for i := 0; i < n; i++ {
		if i == changeAt {
			zzverif.Reach("round-index-changed")
			v.updateContext(ContextChangeEvent{Round: round, RoundIndex: 2, Step: UConStepPrecommit, Certificate: cert})
			eqPre, eqCert = false, false
		}
		vt := Precommit
		th := tPos
		if zzverif.Bool("isCertificateVote") {
			vt, th = Certificate, tCert
		}
		var addr common.Address
		var hash common.Hash
		addr[0], hash[0] = zzverif.U8("sender"), zzverif.U8("block")
		zzverif.Assume(addr[0] < 3 && hash[0] >= 1 && hash[0] <= 2)
		sv := &SingleVote{Votes: uint32(zzverif.U16("votes"))}
		// the counted part of processVoteMsg for a verified vote of the current round and index
		w := v.votesMgr
		res, _ := w.addrVoteInfo(round, v.roundIndex, vt, addr, hash, params.KindChamber)
		if res == addrNotVoted {
			if add, total := w.newVote(round, v.roundIndex, vt, addr, common.Hash{}, hash, sv, params.KindChamber); add {
				v.judgeVoteCount(vt, total, th, hash, common.Hash{}, params.KindChamber)
			}
		} else if res == addrDifferentVote {
			if vt == Precommit {
				eqPre = true
			} else {
				eqCert = true
			}
		}
		// commits posted by this message are judged against the state right now
		for ; seen < len(zzC03Commits); seen++ {
			ce := zzC03Commits[seen]
			zzverif.Reach("committed")
			pre := zzC03Weight(ce.ChamberPrecommits)
			// known finding: in a certificate round a quorum is latched when it is first reached; a
			// contributor that equivocates afterwards is removed from the set, and the later commit
			// packs the reduced set
			zzverif.AssertKF(pre >= tPos*685/1000, "the precommits attached to a commit reach the precommit quorum", "C03-commit-packs-reduced-votes", v.shouldCert && eqPre)
			if v.shouldCert {
				zzverif.AssertKF(zzC03Weight(ce.ChamberCerts) >= tCert*585/1000, "the certificate votes attached to a commit reach the certificate quorum", "C03-commit-packs-reduced-votes", eqCert)
			}
			zzverif.Assert(ce.RoundIndex == v.roundIndex, "a commit is announced for the current round index")
		}
	}
	zzverif.Reach("processed")
	zzverif.Reach("end")
}
