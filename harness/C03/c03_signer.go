package ucon

// C03 (whose vote is counted) — the signer check every incoming vote passes first
// (VoteBLSMgr.getAddrFromVote, with the BlsVerifier's process-wide caches in between):
// a vote is attributed to the look-back validator at its voter index only if ITS
// signature verifies under THAT validator's BLS key over THIS payload — for every
// history of votes seen before (the caches never change an answer).  BLS is idealised
// behind the repo's own interfaces: keys and signatures are identities, validity is an
// unknown relation valid(key, payload, signature).

import (
	"crypto/ecdsa"
	"errors"
	"math/big"

	lru "github.com/hashicorp/golang-lru"
	"github.com/youchainhq/go-youchain/bls"
	"github.com/youchainhq/go-youchain/common"
	"github.com/youchainhq/go-youchain/core/state"
	"github.com/youchainhq/go-youchain/params"
	"github.com/youchainhq/go-youchain/zzverif"
)

//verif:mode bv W=264
//verif:replace (*github.com/hashicorp/golang-lru.Cache).Add zzC03sAdd
//verif:replace (*github.com/hashicorp/golang-lru.Cache).Get zzC03sGet
//verif:replace (*github.com/hashicorp/golang-lru.Cache).Contains zzC03sContains
//verif:replace $M/common/hexutil.Encode zzC03sHex
//verif:replace $M/crypto.DecompressPubkey zzC03sDecompress
//verif:replace $M/core/state.PubToAddress zzC03sPubToAddr

func zzC03sPubToAddr(pub []byte) common.Address { return common.Address{0xA0, pub[1]} }

type zzC03sEntry struct {
	c   *lru.Cache
	key string
	val interface{}
}

var zzC03sCache []zzC03sEntry

func zzC03sHex(b []byte) string { return string(b) }

func zzC03sAdd(c *lru.Cache, key, value interface{}) bool {
	k := key.(string)
	for i := range zzC03sCache {
		if zzC03sCache[i].c == c && zzC03sCache[i].key == k {
			zzC03sCache[i].val = value
			return false
		}
	}
	zzC03sCache = append(zzC03sCache, zzC03sEntry{c, k, value})
	return false
}

// an LRU may have evicted any entry
func zzC03sGet(c *lru.Cache, key interface{}) (interface{}, bool) {
	k := key.(string)
	for i := range zzC03sCache {
		if zzC03sCache[i].c == c && zzC03sCache[i].key == k {
			if zzverif.Bool("evicted") {
				return nil, false
			}
			return zzC03sCache[i].val, true
		}
	}
	return nil, false
}

func zzC03sContains(c *lru.Cache, key interface{}) bool {
	_, ok := zzC03sGet(c, key)
	return ok
}

func zzC03sDecompress(pub []byte) (*ecdsa.PublicKey, error) {
	return &ecdsa.PublicKey{X: big.NewInt(int64(pub[1]))}, nil
}

type zzC03sPK struct{ id byte }
type zzC03sSig struct{ id byte }

func (s zzC03sSig) Compress() (c bls.CompressedSignature) { return }

func zzC03sValid(key byte, payload []byte, sig byte) bool {
	return zzverif.UFBool("blsValid", key, payload[0], sig)
}

func (p *zzC03sPK) Verify(m bls.Message, s bls.Signature) error {
	if zzC03sValid(p.id, m, s.(zzC03sSig).id) {
		return nil
	}
	return errors.New("signature mismatch")
}
func (p *zzC03sPK) Aggregate(bls.PublicKey) error      { return nil }
func (p *zzC03sPK) Compress() (c bls.CompressedPublic) { return }

type zzC03sMgr struct{ bls.BlsManager }

func (zzC03sMgr) DecPublicKey(b []byte) (bls.PublicKey, error) { return &zzC03sPK{id: b[1]}, nil }
func (zzC03sMgr) DecSignature(b []byte) (bls.Signature, error) {
	if len(b) != 2 {
		return nil, errors.New("bad signature encoding")
	}
	return zzC03sSig{id: b[1]}, nil
}

type zzC03sReader struct {
	state.ValidatorReader
	vals *state.Validators
}

func (r zzC03sReader) GetValidators() *state.Validators { return r.vals }

func zzC03sPub(tag, id byte) []byte {
	b := make([]byte, 33)
	b[0], b[1] = tag, id
	return b
}

// zzH_C03_signer_check: a look-back set of two validators, 2 (thorough 3) incoming votes
// with arbitrary voter index, signature (out of two byte strings) and payload (out of
// two).
func zzH_C03_signer_check() {
	zzC03sCache = nil
	var list []*state.Validator
	for i := byte(1); i <= 2; i++ {
		v := state.NewValidator("v", common.Address{}, common.Address{}, params.RoleChancellor, zzC03sPub(2, i), zzC03sPub(0xB0, i), new(big.Int), big.NewInt(int64(10-i)), 0, 0, 0, params.ValidatorOnline)
		list = append(list, v)
	}
	vals := state.NewValidators(list)
	vb := &VoteBLSMgr{
		Verifier:  &BlsVerifier{blsMgr: zzC03sMgr{}, blsPubKeyCache: &lru.Cache{}, blsSigCache: &lru.Cache{}, vrfPkCache: &lru.Cache{}},
		lbVld:     zzC03sReader{vals: vals},
		currRound: big.NewInt(9),
	}
	n := zzverif.Bound("incomingVotes", 2, 3)
	accepted := 0
	for k := 0; k < n; k++ {
		vote := &SingleVote{VoterIdx: zzverif.U32("vote.voterIdx"), Votes: 1, Signature: []byte{0x51, zzverif.U8("vote.signature") & 1}}
		payload := []byte{zzverif.U8("vote.payload") & 1}
		vrfpk, err := vb.getAddrFromVote(Prevote, big.NewInt(9), payload, vote)
		if err != nil {
			continue
		}
		accepted++
		signer, ok := vals.GetByIndex(int(vote.VoterIdx))
		zzverif.Assert(ok && signer != nil, "an accepted vote names a member of the look-back set")
		if !ok {
			continue
		}
		zzverif.Assert(zzC03sValid(signer.BlsPubKey[1], payload, vote.Signature[1]), "an accepted vote's signature verifies under the named validator's BLS key over exactly this payload")
		zzverif.Assert(vrfpk != nil && vrfpk.X.Int64() == int64(signer.MainPubKey[1]), "the vote is attributed to the named validator's main key")
	}
	if accepted == n {
		zzverif.Reach("all-accepted")
	}
	zzverif.Reach("end")
}
