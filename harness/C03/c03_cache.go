package ucon

// C03 (which block a commit carries) — Voter.commit and setMarkedBlock fetch the block body
// for the hash the quorum was counted for through PriorityManager.getBlockInCache.  After
// any short history of proposal / priority messages (two blocks, possibly of one proposer
// with one priority, bodies present or not) the cache answers a request for hash h with
// the body whose hash is h, or with nothing - never with another block.

import (
	"math/big"

	"github.com/youchainhq/go-youchain/common"
	"github.com/youchainhq/go-youchain/core/types"
	"github.com/youchainhq/go-youchain/zzverif"
)

//verif:mode bv
//verif:replace (*$M/core/types.Block).Hash zzC03cBlockHash
//verif:replace (*$M/core/types.Header).Hash zzC03cHeaderHash

// a block's hash is an injective function of its (harness) number
func zzC03cHeaderHash(h *types.Header) common.Hash { return common.Hash{0xB7, byte(h.Number.Uint64())} }
func zzC03cBlockHash(b *types.Block) common.Hash   { return zzC03cHeaderHash(b.Header()) }

func zzH_C03_block_cache() {
	pm := NewPriorityMgr()
	blocks := []*types.Block{types.NewBlockWithHeader(&types.Header{Number: big.NewInt(1)}), types.NewBlockWithHeader(&types.Header{Number: big.NewInt(2)})}
	n := zzverif.Bound("proposalMessages", 3, 4)
	round := big.NewInt(9)
	for k := 0; k < n; k++ {
		i := zzverif.Choose("block", 2)
		prio := common.Hash{0xF0, zzverif.U8("priority") & 1} // two blocks may carry one priority (same proposer)
		var body *types.Block
		if zzverif.Bool("withBody") {
			body = blocks[i]
		}
		pm.update(body, zzC03cBlockHash(blocks[i]), prio, round, uint32(zzverif.U8("roundIndex")&1)+1)
	}
	want := zzC03cBlockHash(blocks[zzverif.Choose("requested", 2)])
	got := pm.getBlockInCache(want, common.Hash{0xF0, zzverif.U8("requestPriority") & 1})
	if got != nil {
		zzverif.Assert(zzC03cBlockHash(got) == want, "the block handed to a commit is the block with the requested hash, never another one")
		zzverif.Reach("found")
	} else {
		zzverif.Reach("absent")
	}
	zzverif.Reach("end")
}
