package vm

// C15 — every computational opcode computes its specified 256-bit function.
// Each opcode's real implementation (fetched through the real Istanbul jump
// table) is executed symbolically on arbitrary 256-bit operands over a stack
// with a sentinel and a shared integer pool.

import (
	"math/big"

	"github.com/youchainhq/go-youchain/zzverif"
)

//verif:mode bv W=520

type zzC15Op struct {
	code  OpCode
	name  string // BV256 oracle name (bv mode)
	arity int
	gas   uint64
	swap  bool // oracle takes (second popped, first popped)
}

var zzC15BvOps = []zzC15Op{
	{ADD, "add", 2, GasFastestStep, false},
	{SUB, "sub", 2, GasFastestStep, false},
	{MUL, "mul", 2, GasFastStep, false},
	{LT, "ult", 2, GasFastestStep, false},
	{GT, "ugt", 2, GasFastestStep, false},
	{SLT, "slt", 2, GasFastestStep, false},
	{SGT, "sgt", 2, GasFastestStep, false},
	{EQ, "eq", 2, GasFastestStep, false},
	{ISZERO, "iszero", 1, GasFastestStep, false},
	{AND, "and", 2, GasFastestStep, false},
	{OR, "or", 2, GasFastestStep, false},
	{XOR, "xor", 2, GasFastestStep, false},
	{NOT, "not", 1, GasFastestStep, false},
	{BYTE, "byte", 2, GasFastestStep, false},
	{SHL, "shl", 2, GasFastestStep, true},
	{SHR, "lshr", 2, GasFastestStep, true},
	{SAR, "ashr", 2, GasFastestStep, true},
	{SIGNEXTEND, "signextend", 2, GasFastStep, false},
}

var zzC15Two256 = new(big.Int).Lsh(big.NewInt(1), 256)

type zzC15Env struct {
	in       *EVMInterpreter
	st       *Stack
	sentinel *big.Int
	sval     *big.Int
}

func zzC15New() *zzC15Env {
	e := &zzC15Env{in: &EVMInterpreter{intPool: newIntPool()}, st: newstack()}
	e.sval = zzverif.Big("sentinel", 256)
	e.sentinel = new(big.Int).Set(e.sval)
	e.st.push(e.sentinel)
	return e
}

// run pushes the operands (a is popped first), executes the opcode through the
// real jump table and returns the result word.
func (e *zzC15Env) run(code OpCode, arity int, a, b, c *big.Int) *big.Int {
	op := istanbulInstructionSet[code]
	zzverif.Assert(op.valid && op.execute != nil, "opcode present in the Istanbul table")
	if arity >= 3 {
		e.st.push(c)
	}
	if arity >= 2 {
		e.st.push(b)
	}
	e.st.push(a)
	before := e.st.len()
	zzverif.Assert(op.minStack == arity && op.maxStack == 1024+arity-1, "stack requirements in the table match the opcode's arity")
	var pc uint64
	_, err := op.execute(&pc, e.in, nil, nil, e.st)
	zzverif.Assert(err == nil, "computational opcode does not fail")
	zzverif.Assert(e.st.len() == before-arity+1, "stack height changes by pops/pushes of the opcode")
	zzverif.Assert(e.st.data[0] == e.sentinel && e.sentinel.Cmp(e.sval) == 0, "items below the operands are untouched")
	res := e.st.peek()
	zzverif.Assert(res.Sign() >= 0 && res.Cmp(zzC15Two256) < 0, "result is a 256-bit word")
	e.noAlias()
	return res
}

// noAlias: no big.Int object is on the stack twice or both on the stack and in the pool.
func (e *zzC15Env) noAlias() {
	sd := e.st.data
	pd := e.in.intPool.pool.data
	for i := range sd {
		for j := i + 1; j < len(sd); j++ {
			zzverif.Assert(sd[i] != sd[j], "no stack word is shared by two stack slots")
		}
		for j := range pd {
			zzverif.Assert(sd[i] != pd[j], "no live stack word is also in the integer pool")
		}
	}
	for i := range pd {
		for j := i + 1; j < len(pd); j++ {
			zzverif.Assert(pd[i] != pd[j], "no integer is in the pool twice")
		}
	}
}

func zzC15Oracle(o zzC15Op, x, y *big.Int) *big.Int {
	if o.arity == 1 {
		return zzverif.BV256(o.name, x, nil)
	}
	if o.swap {
		return zzverif.BV256(o.name, y, x)
	}
	return zzverif.BV256(o.name, x, y)
}

// zzH_C15_bv: one opcode, arbitrary operands, oracle = SMT-LIB 256-bit theory.
func zzH_C15_bv() {
	k := zzverif.Choose("op", len(zzC15BvOps))
	o := zzC15BvOps[k]
	e := zzC15New()
	x0, y0 := zzverif.Big("x", 256), zzverif.Big("y", 256)
	want := zzC15Oracle(o, x0, y0)
	x, y := new(big.Int).Set(x0), new(big.Int).Set(y0)
	res := e.run(o.code, o.arity, x, y, nil)
	zzverif.Assert(res.Cmp(want) == 0, "result equals the EVM specification (SMT-LIB bit-vector semantics)")
	zzverif.Assert(istanbulInstructionSet[o.code].constantGas == o.gas && istanbulInstructionSet[o.code].dynamicGas == nil, "gas equals the specified tier")
	zzverif.Reach("end")
}

// zzH_C15_pairs: two opcodes in sequence on a shared pool, the second consuming
// the first's result (integer-pool reuse / aliasing scenario).
func zzH_C15_pairs() {
	n := len(zzC15BvOps)
	var k1, k2 int
	if zzverif.Thorough() {
		k1, k2 = zzverif.Choose("op1", n), zzverif.Choose("op2", n)
	} else {
		// quick: a fixed diagonal of 18 pairs
		k1 = zzverif.Choose("op1", n)
		k2 = (k1*7 + 3) % n
	}
	o1, o2 := zzC15BvOps[k1], zzC15BvOps[k2]
	e := zzC15New()
	x0, y0, z0 := zzverif.Big("x", 256), zzverif.Big("y", 256), zzverif.Big("z", 256)
	r1want := zzC15Oracle(o1, x0, y0)
	r1 := e.run(o1.code, o1.arity, new(big.Int).Set(x0), new(big.Int).Set(y0), nil)
	zzverif.Assert(r1.Cmp(r1want) == 0, "first result equals the specification")
	// The first result was shown to be a correct 256-bit word; generalise it to an
	// arbitrary word held by the same object (keeps the aliasing structure, decouples the arithmetic).
	r1v := zzverif.Big("r1", 256)
	r1.Set(r1v)
	r1want = r1v
	// second op: first-popped operand is a fresh word taken from the pool as the interpreter's PUSH would
	a := e.in.intPool.get().Set(z0)
	var r2want *big.Int
	if o2.arity == 1 {
		r2want = zzC15Oracle(o2, r1want, nil)
		e.st.pop()
		r2 := e.run(o2.code, 1, r1, nil, nil)
		zzverif.Assert(r2.Cmp(r2want) == 0, "second result equals the specification")
	} else {
		r2want = zzC15Oracle(o2, z0, r1want)
		e.st.pop()
		r2 := e.run(o2.code, 2, a, r1, nil)
		zzverif.Assert(r2.Cmp(r2want) == 0, "second result equals the specification")
	}
	zzverif.Reach("end")
}

// ---- integer-definition opcodes (int mode) ----

func zzC15S(x *big.Int) *big.Int {
	if x.Cmp(new(big.Int).Lsh(big.NewInt(1), 255)) >= 0 {
		return new(big.Int).Sub(x, zzC15Two256)
	}
	return new(big.Int).Set(x)
}

func zzC15Mod256(x *big.Int) *big.Int { return new(big.Int).Mod(x, zzC15Two256) }

func zzC15Sgn(x *big.Int) *big.Int { return big.NewInt(int64(x.Sign())) }

// zzH_C15_int: DIV SDIV MOD SMOD ADDMOD MULMOD against the Yellow-Paper integer definitions.
//
//verif:mode int
func zzH_C15_int() {
	k := zzverif.Choose("op", 6)
	e := zzC15New()
	x0, y0, z0 := zzverif.Big("x", 256), zzverif.Big("y", 256), zzverif.Big("z", 256)
	x, y, z := new(big.Int).Set(x0), new(big.Int).Set(y0), new(big.Int).Set(z0)
	var want, res *big.Int
	var gas uint64
	var code OpCode
	switch k {
	case 0: // DIV: 0 if y = 0 else floor(x / y)
		code, gas = DIV, GasFastStep
		want = new(big.Int)
		if y0.Sign() != 0 {
			want.Quo(x0, y0)
		}
		res = e.run(DIV, 2, x, y, nil)
	case 1: // SDIV: 0 if y = 0; sgn(x/y) * floor(|x| / |y|) on the signed readings (-2^255/-1 wraps)
		code, gas = SDIV, GasFastStep
		want = new(big.Int)
		sx, sy := zzC15S(x0), zzC15S(y0)
		if sy.Sign() != 0 {
			q := new(big.Int).Quo(new(big.Int).Abs(sx), new(big.Int).Abs(sy))
			q.Mul(q, zzC15Sgn(sx))
			q.Mul(q, zzC15Sgn(sy))
			want = zzC15Mod256(q)
		}
		res = e.run(SDIV, 2, x, y, nil)
	case 2: // MOD
		code, gas = MOD, GasFastStep
		want = new(big.Int)
		if y0.Sign() != 0 {
			want.Rem(x0, y0)
		}
		res = e.run(MOD, 2, x, y, nil)
	case 3: // SMOD: sgn(x) * (|x| mod |y|)
		code, gas = SMOD, GasFastStep
		want = new(big.Int)
		sx, sy := zzC15S(x0), zzC15S(y0)
		if sy.Sign() != 0 {
			m := new(big.Int).Rem(new(big.Int).Abs(sx), new(big.Int).Abs(sy))
			m.Mul(m, zzC15Sgn(sx))
			want = zzC15Mod256(m)
		}
		res = e.run(SMOD, 2, x, y, nil)
	case 4: // ADDMOD: 0 if z = 0 else (x + y) mod z, no intermediate wrap
		code, gas = ADDMOD, GasMidStep
		want = new(big.Int)
		if z0.Sign() != 0 {
			want.Rem(new(big.Int).Add(x0, y0), z0)
		}
		res = e.run(ADDMOD, 3, x, y, z)
	case 5: // MULMOD
		code, gas = MULMOD, GasMidStep
		want = new(big.Int)
		if z0.Sign() != 0 {
			want.Rem(new(big.Int).Mul(x0, y0), z0)
		}
		res = e.run(MULMOD, 3, x, y, z)
	}
	zzverif.Assert(res.Cmp(want) == 0, "result equals the Yellow-Paper integer definition")
	zzverif.Assert(istanbulInstructionSet[code].constantGas == gas && istanbulInstructionSet[code].dynamicGas == nil, "gas equals the specified tier")
	zzverif.Reach("end")
}

// zzH_C15_exp: EXP for every base and every exponent up to the bound.
//
//verif:mode int
func zzH_C15_exp() {
	maxE := zzverif.Bound("maxExponent", 7, 15)
	e := zzC15New()
	b0 := zzverif.Big("base", 256)
	ex := zzverif.Choose("exponent", maxE+1)
	want := big.NewInt(1)
	for i := 0; i < ex; i++ {
		want.Mul(want, b0)
	}
	want = zzC15Mod256(want)
	res := e.run(EXP, 2, new(big.Int).Set(b0), big.NewInt(int64(ex)), nil)
	zzverif.Assert(res.Cmp(want) == 0, "EXP equals base^exponent mod 2^256")
	zzverif.Reach("end")
}

// zzH_C15_exp_low: EXP over multi-limb exponents.  The full-width product chain of a long
// exponent is out of the solver's reach, so (1) the exponent ranges over the sparse multi-limb
// values sum_i a_i * 2^(64 i) with every a_i < 8 (2 limbs quick, 3 limbs thorough; zero limbs
// included), and (2) the obligation is the ring projection mod 2^8: for every 256-bit base the
// low byte of EXP equals the low byte of base^exponent.  (x mod 2^k is a ring homomorphism, so
// this is implied by the full property and can never alarm on a correct EXP.)
//
//verif:mode bv W=520
func zzH_C15_exp_low() {
	limbs := zzverif.Bound("exponentLimbs", 2, 3)
	e := zzC15New()
	b0 := zzverif.Big("base", 256)
	ex := new(big.Int)
	var small []uint8
	for i := 0; i < limbs; i++ {
		a := uint8(zzverif.Choose("exponent.limb", 8))
		small = append(small, a)
		t := new(big.Int).Lsh(new(big.Int).SetUint64(uint64(a)), uint(64*i))
		ex.Add(ex, t)
	}
	// reference: LSB-first square-and-multiply in Z/256
	b, r := uint8(b0.Uint64()), uint8(1)
	for i := 0; i < limbs; i++ {
		for j := 0; j < 64; j++ {
			if j < 3 {
				r = uint8(zzverif.IteU64((small[i]>>uint(j))&1 == 1, uint64(r*b), uint64(r)))
			}
			b = b * b
		}
	}
	res := e.run(EXP, 2, new(big.Int).Set(b0), ex, nil)
	zzverif.Assert(uint8(res.Uint64()) == r, "EXP agrees with base^exponent modulo 2^8")
	zzverif.Reach("end")
}

// zzH_C15_exp_gas: EXP is charged 10 + 50 per significant byte of the EXPONENT (EIP-160), for
// every base and exponent; the charge comes from the jump table's own gas functions.
//
//verif:mode int
func zzH_C15_exp_gas() {
	base, exp := zzverif.Big("base", 256), zzverif.Big("exponent", 256)
	st := newstack()
	st.push(new(big.Int).Set(exp))
	st.push(new(big.Int).Set(base)) // EXP pops the base first
	op := istanbulInstructionSet[EXP]
	zzverif.Assert(op.dynamicGas != nil, "EXP has a dynamic gas component")
	dyn, err := op.dynamicGas(nil, nil, st, nil, 0)
	zzverif.Assert(err == nil, "the EXP gas computation does not fail")
	// significant bytes of the exponent, by comparison against powers of 256
	n := uint64(0)
	for k := 1; k <= 32; k++ {
		if exp.Cmp(new(big.Int).Lsh(big.NewInt(1), uint(8*(k-1)))) >= 0 {
			n = uint64(k)
		}
	}
	zzverif.Assert(op.constantGas+dyn == 10+50*n, "EXP costs 10 + 50 per significant exponent byte")
	zzverif.Reach("end")
}
