package vm

// C15 — storage opcodes read back what was written.  SSTORE and SLOAD run through their
// real jump-table entries against a plain key/value model behind the vm.StateDB
// interface: a store is addressed to the executing contract and the given slot with the
// given word, a load returns the last word stored there (or the slot's initial content),
// other slots and other accounts are untouched.  Words are hi·2^248 + lo with arbitrary
// top and bottom bytes (big.Int.Bytes forks on the length, so the 30 middle bytes are 0).

import (
	"math/big"

	"github.com/youchainhq/go-youchain/common"
	"github.com/youchainhq/go-youchain/zzverif"
)

//verif:mode bv W=520

type zzC15sSlot struct {
	addr common.Address
	key  common.Hash
	val  common.Hash
}

type zzC15sDB struct {
	StateDB
	slots []zzC15sSlot
}

func zzC15sInitial(a common.Address, k common.Hash) common.Hash {
	return common.Hash(zzverif.UF32("initialSlot", a, k))
}

func (d *zzC15sDB) GetState(a common.Address, k common.Hash) common.Hash {
	res := zzC15sInitial(a, k)
	for _, s := range d.slots {
		if s.addr == a && s.key == k {
			res = s.val
		}
	}
	return res
}

func (d *zzC15sDB) SetState(a common.Address, k, v common.Hash) {
	d.slots = append(d.slots, zzC15sSlot{a, k, v})
}

func zzC15sWord(tag string) *big.Int {
	w := new(big.Int).Lsh(new(big.Int).SetUint64(uint64(zzverif.U8(tag+".hi"))), 248)
	return w.Or(w, new(big.Int).SetUint64(uint64(zzverif.U8(tag+".lo"))))
}

func zzC15sHash(w *big.Int) (h common.Hash) {
	h[0] = byte(new(big.Int).Rsh(w, 248).Uint64())
	h[31] = byte(w.Uint64())
	return h
}

func zzH_C15_storage() {
	db := &zzC15sDB{}
	self := common.Address{0xC1}
	in := &EVMInterpreter{intPool: newIntPool(), evm: &EVM{StateDB: db}}
	contract := &Contract{self: AccountRef(self)}
	st := newstack()
	model := map[common.Hash]common.Hash{}
	n := zzverif.Bound("storageOps", 2, 3)
	for k := 0; k < n; k++ {
		key := zzC15sWord("slot")
		kh := zzC15sHash(key)
		var pc uint64
		if zzverif.Bool("store") {
			val := zzC15sWord("word")
			op := istanbulInstructionSet[SSTORE]
			zzverif.Assert(op.valid && op.writes && op.minStack == 2, "SSTORE is a writing opcode popping two words")
			st.push(new(big.Int).Set(val))
			st.push(new(big.Int).Set(key))
			before := len(db.slots)
			_, err := op.execute(&pc, in, contract, nil, st)
			zzverif.Assert(err == nil && st.len() == 0, "SSTORE pops its operands")
			zzverif.Assert(len(db.slots) == before+1 && db.slots[before].addr == self && db.slots[before].key == kh && db.slots[before].val == zzC15sHash(val), "SSTORE writes the word to the slot of the executing contract, and nothing else")
			model[kh] = zzC15sHash(val)
			zzverif.Reach("stored")
		} else {
			op := istanbulInstructionSet[SLOAD]
			zzverif.Assert(op.valid && !op.writes && op.minStack == 1, "SLOAD is a reading opcode replacing one word")
			st.push(new(big.Int).Set(key))
			before := len(db.slots)
			_, err := op.execute(&pc, in, contract, nil, st)
			zzverif.Assert(err == nil && st.len() == 1 && len(db.slots) == before, "SLOAD leaves one word and writes nothing")
			want, ok := model[kh]
			if !ok {
				want = zzC15sInitial(self, kh)
			}
			got := st.pop()
			zzverif.Assert(got.Cmp(new(big.Int).SetBytes(want[:])) == 0, "SLOAD returns the last word stored in the slot (its initial content if none)")
			zzverif.Reach("loaded")
		}
	}
	zzverif.Reach("end")
}
