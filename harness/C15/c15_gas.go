package vm

// C15 — "charges the specified gas", observed where the charge happens: the real
// interpreter loop (EVMInterpreter.Run) executes PUSH1 x, PUSH1 y (, PUSH1 z), OP for every
// computational opcode with exactly the specified gas — the run must succeed with nothing
// left — and with one unit less — it must stop with out-of-gas.

import (
	"math/big"

	"github.com/youchainhq/go-youchain/common"
	"github.com/youchainhq/go-youchain/zzverif"
)

//verif:mode bv W=520

var zzC15gExtra = []zzC15Op{
	{DIV, "", 2, GasFastStep, false}, {SDIV, "", 2, GasFastStep, false}, {MOD, "", 2, GasFastStep, false}, {SMOD, "", 2, GasFastStep, false},
	{ADDMOD, "", 3, GasMidStep, false}, {MULMOD, "", 3, GasMidStep, false},
}

func zzH_C15_exact_gas() {
	ops := append(append([]zzC15Op{}, zzC15BvOps...), zzC15gExtra...)
	o := ops[zzverif.Choose("op", len(ops))]
	var code []byte
	for i := 0; i < o.arity; i++ {
		code = append(code, byte(PUSH1), zzverif.U8("operand"))
	}
	code = append(code, byte(o.code))
	spec := uint64(o.arity)*GasFastestStep + o.gas
	short := zzverif.Bool("oneUnitShort")
	gas := spec
	if short {
		gas = spec - 1
	}
	evm := &EVM{vmConfig: &Config{}}
	evm.vmConfig.JumpTable = istanbulInstructionSet
	in := NewEVMInterpreter(evm, evm.vmConfig)
	c := NewContract(AccountRef(common.Address{1}), AccountRef(common.Address{2}), new(big.Int), gas)
	c.Code = code
	_, err := in.Run(c, nil, false)
	if short {
		zzverif.Assert(err == ErrOutOfGas, "one unit less than the specified gas runs out of gas")
		zzverif.Reach("short")
	} else {
		zzverif.Assert(err == nil && c.Gas == 0, "exactly the specified gas suffices and is used up")
		zzverif.Reach("exact")
	}
	zzverif.Reach("end")
}
