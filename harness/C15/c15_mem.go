package vm

// C15 — memory opcodes read back what was written.  MSTORE, MSTORE8 and MLOAD run
// through the real Istanbul jump table entries (memory-size function, dynamic gas,
// execute) with the interpreter's expansion step in between, on a memory with arbitrary
// content, against a plain byte-array model.

import (
	"math/big"

	"github.com/youchainhq/go-youchain/common/math"
	"github.com/youchainhq/go-youchain/zzverif"
)

//verif:mode bv W=520

type zzC15mEnv struct {
	in    *EVMInterpreter
	st    *Stack
	mem   *Memory
	model []byte
}

var zzC15mOffsets = []uint64{0, 1, 31, 33, 64, 70}

func zzC15mCost(words uint64) uint64 { return words*3 + words*words/512 }

func (e *zzC15mEnv) step() {
	code := []OpCode{MSTORE, MSTORE8, MLOAD}[zzverif.Choose("memOp", 3)]
	off := zzC15mOffsets[zzverif.Choose("offset", len(zzC15mOffsets))]
	val0 := zzverif.Big("word", 256)
	op := istanbulInstructionSet[code]
	zzverif.Assert(op.valid && op.execute != nil && op.memorySize != nil && op.dynamicGas != nil, "memory opcode present in the Istanbul table with a size and a gas function")
	width := uint64(32)
	if code == MSTORE8 {
		width = 1
	}
	if code != MLOAD {
		e.st.push(new(big.Int).Set(val0))
	}
	e.st.push(new(big.Int).SetUint64(off))
	before := e.st.len()

	// the interpreter's expansion step (interpreter.go Run)
	memSize, overflow := bigUint64(op.memorySize(e.st))
	zzverif.Assert(!overflow && memSize == off+width, "the opcode's memory requirement is offset + width")
	size, ov := math.SafeMul(toWordSize(memSize), 32)
	zzverif.Assert(!ov && size >= memSize && size < memSize+32 && size%32 == 0, "expansion rounds up to whole words")
	oldWords := uint64(e.mem.Len()) / 32
	cost, err := op.dynamicGas(nil, nil, e.st, e.mem, size)
	wantCost := uint64(0)
	if size/32 > oldWords {
		wantCost = zzC15mCost(size/32) - zzC15mCost(oldWords)
	}
	zzverif.Assert(err == nil && cost == wantCost && op.constantGas == GasFastestStep, "gas is the fastest tier plus the quadratic cost of newly touched words only")
	if size > 0 {
		e.mem.Resize(size)
	}
	for uint64(len(e.model)) < size {
		e.model = append(e.model, 0)
	}

	var pc uint64
	_, err = op.execute(&pc, e.in, nil, e.mem, e.st)
	zzverif.Assert(err == nil, "memory opcode does not fail")
	switch code {
	case MSTORE:
		for i := 0; i < 32; i++ {
			e.model[off+uint64(i)] = byte(new(big.Int).Rsh(val0, uint(8*(31-i))).Uint64())
		}
		zzverif.Assert(e.st.len() == before-2, "MSTORE pops two words")
	case MSTORE8:
		e.model[off] = byte(val0.Uint64())
		zzverif.Assert(e.st.len() == before-2, "MSTORE8 pops two words")
	case MLOAD:
		zzverif.Assert(e.st.len() == before, "MLOAD replaces the offset by the word")
		want := new(big.Int)
		for i := 0; i < 32; i++ {
			want.Lsh(want, 8)
			want.Or(want, new(big.Int).SetUint64(uint64(e.model[off+uint64(i)])))
		}
		zzverif.Assert(e.st.pop().Cmp(want) == 0, "MLOAD returns the 32 bytes at the offset, big endian")
	}
	zzverif.Assert(e.mem.Len() == len(e.model), "memory length is the largest touched word boundary")
	for i := range e.model {
		zzverif.Assert(e.mem.store[i] == e.model[i], "memory holds exactly what was written, bytes outside the written range are untouched")
	}
}

// zzH_C15_memory: a 64-byte memory with arbitrary content, then 1 (thorough 2) memory
// opcodes with any of the offsets 0, 1, 31, 33, 64, 70 and any word, then an MLOAD-able
// comparison of the whole memory with the model.
func zzH_C15_memory() {
	e := &zzC15mEnv{in: &EVMInterpreter{intPool: newIntPool()}, st: newstack(), mem: NewMemory()}
	init := zzverif.Bytes("initialMemory", 64)
	e.mem.Resize(64)
	e.mem.Set(0, 64, init)
	e.mem.lastGasCost = zzC15mCost(2) // what expanding to two words has cost
	e.model = append([]byte(nil), init...)
	n := zzverif.Bound("memOps", 1, 2)
	for k := 0; k < n; k++ {
		e.step()
	}
	// read everything back through MLOAD at an arbitrary offset
	off := zzC15mOffsets[zzverif.Choose("readOffset", 4)]
	zzverif.Assume(off+32 <= uint64(len(e.model)))
	e.st.push(new(big.Int).SetUint64(off))
	var pc uint64
	istanbulInstructionSet[MLOAD].execute(&pc, e.in, nil, e.mem, e.st)
	want := new(big.Int)
	for i := 0; i < 32; i++ {
		want.Lsh(want, 8)
		want.Or(want, new(big.Int).SetUint64(uint64(e.model[off+uint64(i)])))
	}
	zzverif.Assert(e.st.pop().Cmp(want) == 0, "a later MLOAD reads back what was written")
	zzverif.Reach("end")
}
