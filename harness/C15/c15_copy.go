package vm

// C15 — the copy opcodes write what they read.  CALLDATALOAD, CALLDATACOPY, CODECOPY and
// RETURNDATACOPY through their real jump-table entries (memory-size function, dynamic
// gas, execute; expansion step as in c15_mem.go) over a 5-byte arbitrary source and a
// 64-byte arbitrary memory: bytes past the end of the source read as zero (RETURNDATACOPY
// refuses instead), exactly the addressed memory range changes.

import (
	"math/big"

	"github.com/youchainhq/go-youchain/common/math"
	"github.com/youchainhq/go-youchain/zzverif"
)

//verif:mode bv W=520

var (
	zzC15cMemOffsets  = []uint64{0, 3, 40, 62}
	zzC15cLengths     = []uint64{0, 1, 4, 33}
	zzC15cDataOffsets = []*big.Int{big.NewInt(0), big.NewInt(2), big.NewInt(5), big.NewInt(7), new(big.Int).Add(new(big.Int).Lsh(big.NewInt(1), 64), big.NewInt(1)), new(big.Int).Lsh(big.NewInt(1), 255)}
)

func zzC15cSrc(src []byte, off *big.Int, i uint64) byte {
	if !off.IsUint64() || off.Uint64()+i >= uint64(len(src)) {
		return 0
	}
	return src[off.Uint64()+i]
}

func zzH_C15_copy() {
	src := zzverif.Bytes("source", 5)
	e := &zzC15mEnv{in: &EVMInterpreter{intPool: newIntPool()}, st: newstack(), mem: NewMemory()}
	init := zzverif.Bytes("initialMemory", 64)
	e.mem.Resize(64)
	e.mem.Set(0, 64, init)
	e.mem.lastGasCost = zzC15mCost(2)
	e.model = append([]byte(nil), init...)
	contract := &Contract{Input: src, Code: src}
	e.in.returnData = src
	dataOff := zzC15cDataOffsets[zzverif.Choose("dataOffset", len(zzC15cDataOffsets))]
	var pc uint64
	if zzverif.Bool("load") {
		e.st.push(new(big.Int).Set(dataOff))
		op := istanbulInstructionSet[CALLDATALOAD]
		zzverif.Assert(op.valid && op.memorySize == nil && op.dynamicGas == nil && op.constantGas == GasFastestStep, "CALLDATALOAD touches no memory and costs the fastest tier")
		_, err := op.execute(&pc, e.in, contract, e.mem, e.st)
		want := new(big.Int)
		for i := uint64(0); i < 32; i++ {
			want.Lsh(want, 8)
			want.Or(want, new(big.Int).SetUint64(uint64(zzC15cSrc(src, dataOff, i))))
		}
		zzverif.Assert(err == nil && e.st.len() == 1 && e.st.pop().Cmp(want) == 0, "CALLDATALOAD returns the 32 bytes at the offset, zero past the end of the call data")
		zzverif.Reach("loaded")
		zzverif.Reach("end")
		return
	}
	code := []OpCode{CALLDATACOPY, CODECOPY, RETURNDATACOPY}[zzverif.Choose("copyOp", 3)]
	memOff := zzC15cMemOffsets[zzverif.Choose("memOffset", len(zzC15cMemOffsets))]
	length := zzC15cLengths[zzverif.Choose("length", len(zzC15cLengths))]
	op := istanbulInstructionSet[code]
	zzverif.Assert(op.valid && op.memorySize != nil && op.dynamicGas != nil && op.constantGas == GasFastestStep && op.minStack == 3, "copy opcode present with a size and a gas function, popping three words")
	e.st.push(new(big.Int).SetUint64(length))
	e.st.push(new(big.Int).Set(dataOff))
	e.st.push(new(big.Int).SetUint64(memOff))
	memSize, overflow := bigUint64(op.memorySize(e.st))
	wantSize := uint64(0)
	if length > 0 {
		wantSize = memOff + length
	}
	zzverif.Assert(!overflow && memSize == wantSize, "the memory requirement is offset + length (nothing for an empty copy)")
	size, _ := math.SafeMul(toWordSize(memSize), 32)
	oldWords := uint64(e.mem.Len()) / 32
	cost, err := op.dynamicGas(nil, nil, e.st, e.mem, size)
	wantCost := 3 * ((length + 31) / 32)
	if size/32 > oldWords {
		wantCost += zzC15mCost(size/32) - zzC15mCost(oldWords)
	}
	zzverif.Assert(err == nil && cost == wantCost, "gas is 3 per copied word plus the quadratic cost of newly touched memory words")
	if size > 0 {
		e.mem.Resize(size)
	}
	for uint64(len(e.model)) < size {
		e.model = append(e.model, 0)
	}
	_, err = op.execute(&pc, e.in, contract, e.mem, e.st)
	if code == RETURNDATACOPY && (!dataOff.IsUint64() || dataOff.Uint64()+length > uint64(len(src))) {
		zzverif.Assert(err != nil, "RETURNDATACOPY past the end of the return data fails")
		zzverif.Reach("refused")
	} else {
		zzverif.Assert(err == nil && e.st.len() == 0, "a copy pops its three operands")
		for i := uint64(0); i < length; i++ {
			e.model[memOff+i] = zzC15cSrc(src, dataOff, i)
		}
		zzverif.Reach("copied")
	}
	zzverif.Assert(e.mem.Len() == len(e.model), "memory length is the largest touched word boundary")
	for i := range e.model {
		zzverif.Assert(e.mem.store[i] == e.model[i], "exactly the addressed range holds the source bytes (zero past its end), everything else is untouched")
	}
	zzverif.Reach("end")
}
