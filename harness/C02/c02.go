package ucon

// C02 — an honest validator never signs two conflicting votes, even across
// restarts.  Bounded symbolic history over the real VoteDB (NewVoteDB incl. the
// restore closure, UpdateContext, UpdateVoteData, alreadyVoted) on a fake
// key-value database: k operations, each a context change, a vote attempt, or a
// crash+restart on the same database.

import (
	"bytes"
	"crypto/ecdsa"
	"errors"
	"github.com/youchainhq/go-youchain/event"
	"github.com/youchainhq/go-youchain/params"
	"io"
	"math/big"

	"github.com/youchainhq/go-youchain/common"
	"github.com/youchainhq/go-youchain/crypto"
	"github.com/youchainhq/go-youchain/youdb"
	"github.com/youchainhq/go-youchain/zzverif"
)

//verif:mode bv W=72
//verif:replace $M/crypto.PubkeyToAddress zzC02Addr
//verif:replace $M/consensus/ucon.Sign zzC02Sign
//verif:replace $M/consensus/ucon.VerifySignature zzC02Verify
//verif:replace $M/rlp.EncodeToBytes zzC02Encode
//verif:replace $M/rlp.Decode zzC02Decode

// ---- environment stubs (each is part of the claim) ----

func zzC02Addr(p ecdsa.PublicKey) common.Address { return common.Address{0xaa} }

// Sign: an opaque signature; own records verify.
func zzC02Sign(key *ecdsa.PrivateKey, data []byte) ([]byte, error) { return []byte{0x51}, nil }
func zzC02Verify(vote *VoteItem, address common.Address) bool      { return true }

// RLP of a VoteItem: an opaque blob that decodes back to the same value.
func zzC02Encode(val interface{}) ([]byte, error) {
	v := val.(*VoteItem)
	r := v.Round.Uint64()
	return []byte{byte(v.VoteType), byte(r >> 8), byte(r), byte(v.RoundIndex >> 8), byte(v.RoundIndex)}, nil
}

func zzC02Decode(r io.Reader, val interface{}) error {
	br := r.(*bytes.Reader)
	b := make([]byte, 5)
	if n, _ := br.Read(b); n != 5 {
		return errors.New("short blob")
	}
	v := val.(*VoteItem)
	v.VoteType = VoteType(b[0])
	v.Round = new(big.Int).SetUint64(uint64(b[1])<<8 | uint64(b[2]))
	v.RoundIndex = uint32(b[3])<<8 | uint32(b[4])
	return nil
}

// fake youdb.Database: Put/Get are the crash-point granularity.
type zzC02DB struct {
	m         map[string][]byte
	crashable bool // the process may be killed at any write, before the write is durable
}

type zzC02Crash struct{}

func (d *zzC02DB) Put(k, v []byte) error {
	if d.crashable && zzverif.Bool("killedAtThisWrite") {
		panic(zzC02Crash{})
	}
	d.m[string(k)] = append([]byte(nil), v...)
	return nil
}
func (d *zzC02DB) Get(k []byte) ([]byte, error) { return d.m[string(k)], nil }
func (d *zzC02DB) Has(k []byte) (bool, error)   { _, ok := d.m[string(k)]; return ok, nil }
func (d *zzC02DB) Delete(k []byte) error        { delete(d.m, string(k)); return nil }
func (d *zzC02DB) Close()                       {}
func (d *zzC02DB) NewBatch() youdb.Batch        { return nil }

func zzC02Key() *ecdsa.PrivateKey {
	if zzverif.Symbolic() {
		return &ecdsa.PrivateKey{}
	}
	k, _ := crypto.HexToECDSA("b71c71a67e1177ad4e901695e1b4b9ee17ae16c6668d313eac2f96dbcda3f291")
	return k
}

type zzC02Vote struct {
	t    VoteType
	r, i uint64
}

// zzH_C02_history: at most one successful signing per (kind, round, index) over
// any history of vote attempts (each in a context that only moves forward within a
// process lifetime) and crash/restarts (two for next-index votes).  Kind, round and
// index of every attempt are symbolic.
func zzH_C02_history() {
	k := zzverif.Bound("ops", 4, 5)
	db := &zzC02DB{m: map[string][]byte{}}
	sk := zzC02Key()
	v := NewVoteDB(db, sk)
	var cr, ci uint64    // context of the running process (0 = none yet)
	var lastRound uint64 // rounds never go back, even across restarts (the chain head is persistent)
	var signed []zzC02Vote
	for step := 0; step < k; step++ {
		if zzverif.Choose("op", 2) == 1 {
			// crash and restart on the same database (also models "killed after Put, before the in-memory mark")
			zzverif.Reach("restart")
			v = NewVoteDB(db, sk)
			cr, ci = 0, 0
			continue
		}
		// the voter enters context (r,i) (possibly the current one) and attempts a vote of kind t
		r, i := uint64(zzverif.U16("round")), uint64(zzverif.U16("index"))
		t := VoteType(zzverif.U8("kind"))
		zzverif.Assume(r >= 1 && r < 250 && i >= 1 && i < 250 && r >= lastRound)
		zzverif.Assume(t == Prevote || t == Precommit || t == NextIndex || t == Certificate)
		if cr != 0 {
			zzverif.Assume(r > cr || (r == cr && i >= ci))
		}
		cr, ci, lastRound = r, i, r
		v.UpdateContext(new(big.Int).SetUint64(r), uint32(i))
		err := v.UpdateVoteData(t, new(big.Int).SetUint64(r), uint32(i))
		if err != nil {
			zzverif.Reach("refused")
			continue
		}
		zzverif.Reach("signed")
		same := 0
		for _, s := range signed {
			if s.t == t && s.r == r && s.i == i {
				same++
			}
		}
		if t == NextIndex {
			zzverif.Assert(same <= 1, "at most two signed next-index votes per round and index")
		} else {
			zzverif.Assert(same == 0, "at most one signed vote per kind, round and index")
		}
		signed = append(signed, zzC02Vote{t, r, i})
	}
	zzverif.Reach("end")
}

// zzH_C02_key: the database key separates kind and slot.
func zzH_C02_key() {
	var a common.Address
	copy(a[:], zzverif.Bytes("addr", 20))
	t1, t2 := VoteType(zzverif.U8("t1")), VoteType(zzverif.U8("t2"))
	i1, i2 := zzverif.U8("i1"), zzverif.U8("i2")
	k1, k2 := AddrTypeKey(a, t1, i1), AddrTypeKey(a, t2, i2)
	zzverif.Assert(bytes.Equal(k1, k2) == (t1 == t2 && i1 == i2), "AddrTypeKey is injective in (kind, slot)")
	zzverif.Reach("end")
}

// ---- the voter around the vote database: nothing leaves the node before it is durable ----

var zzC02Sent []VoteType

func zzC02Post(mux *event.TypeMux, ev interface{}) error {
	if m, ok := ev.(SendMessageEvent); ok {
		switch m.Code {
		case msgPrevote:
			zzC02Sent = append(zzC02Sent, Prevote)
		case msgPrecommit:
			zzC02Sent = append(zzC02Sent, Precommit)
		case msgNext:
			zzC02Sent = append(zzC02Sent, NextIndex)
		case msgCertificate:
			zzC02Sent = append(zzC02Sent, Certificate)
		}
	}
	return nil
}

func zzC02SignVote(v *Voter, voteType VoteType, blockHash common.Hash, stepView *StepView) (*SingleVote, error) {
	return &SingleVote{Votes: 1}, nil
}

func zzC02EncodeMsg(val interface{}) ([]byte, error) { return []byte{1}, nil }

// zzH_C02_voter: the real Voter.vote over the real VoteDB on a database whose every write may
// be the moment the process is killed (the write is then not durable).  Across any number of
// such lifetimes on one database, in one round and index, the node emits at most one vote of
// a kind (two next-index votes): a vote is handed to the network only after its record is durable.
//
//verif:replace (*$M/event.TypeMux).AsyncPost zzC02Post
//verif:replace (*$M/consensus/ucon.Voter).signVote zzC02SignVote
//verif:replace $M/consensus/ucon.Encode zzC02EncodeMsg
//verif:noop (*$M/consensus/ucon.Voter).judgeVoteCount
func zzH_C02_voter() {
	zzC02Sent = nil
	lives := zzverif.Bound("lifetimes", 2, 3)
	db := &zzC02DB{m: map[string][]byte{}, crashable: true}
	sk := zzC02Key()
	round := big.NewInt(7)
	t := VoteType(zzverif.U8("kind"))
	zzverif.Assume(t == Prevote || t == Precommit || t == NextIndex || t == Certificate)
	for life := 0; life < lives; life++ {
		func() {
			defer func() {
				if r := recover(); r != nil {
					if _, ok := r.(zzC02Crash); !ok {
						panic(r)
					}
					zzverif.Reach("killed")
				}
			}()
			v := &Voter{round: round, roundIndex: 1, rawSk: sk, voteOver: map[common.Hash]*VoteStatus{}, eventMux: new(event.TypeMux)}
			v.voteCache = NewVoteDB(db, sk)
			v.voteCache.UpdateContext(round, 1)
			w := NewVotesWrapper()
			w.clearVotesInfo(round, 1)
			v.votesMgr = w
			v.isValidatorFn = func(r *big.Int, ri uint32, step uint32, lb params.LookBackType) (bool, *StepView) {
				return true, &StepView{SubUsers: 1, Threshold: 1000, ValidatorType: params.KindChamber}
			}
			// what the node wants to vote for may differ from lifetime to lifetime (a better proposal arrived)
			n := 1 + zzverif.Choose("votesThisLifetime", 2)
			for k := 0; k < n; k++ {
				var h common.Hash
				h[0] = byte(1 + life*2 + k)
				if v.vote(t, h, common.Hash{}) == nil {
					zzverif.Reach("voted")
				}
			}
		}()
	}
	same := 0
	for _, s := range zzC02Sent {
		if s == t {
			same++
		}
	}
	if t == NextIndex {
		zzverif.Assert(same <= 2, "at most two next-index votes leave the node per round and index")
	} else {
		zzverif.Assert(same <= 1, "at most one vote of a kind leaves the node per round and index, whatever write the process is killed at")
	}
	zzverif.Reach("end")
}
