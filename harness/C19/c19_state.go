package state

// C19 (state sync leaf callback) — for every account leaf the state sync schedules everything
// the account references: its storage trie, its code, its delegations blob.  The real callback
// built by NewStateSync runs on an arbitrary decoded account; the scheduler's AddSubTrie /
// AddRawEntry (whose dependency handling is decided at the trie level) record what they are asked.

import (
	"io"

	"github.com/youchainhq/go-youchain/common"
	"github.com/youchainhq/go-youchain/trie"
	"github.com/youchainhq/go-youchain/zzverif"
)

//verif:mode bv
//verif:replace $M/rlp.Decode zzC19sDecode
//verif:replace $M/trie.NewSync zzC19sNewSync
//verif:replace (*$M/trie.Sync).AddSubTrie zzC19sSubTrie
//verif:replace (*$M/trie.Sync).AddRawEntry zzC19sRaw

var (
	zzC19sAcc      Account
	zzC19sCallback trie.LeafCallback
	zzC19sTries    []common.Hash
	zzC19sRaws     []common.Hash
)

func zzC19sDecode(r io.Reader, val interface{}) error {
	*(val.(*Account)) = zzC19sAcc
	return nil
}

func zzC19sNewSync(root common.Hash, database trie.DatabaseReader, callback trie.LeafCallback) *trie.Sync {
	zzC19sCallback = callback
	return new(trie.Sync)
}

func zzC19sSubTrie(s *trie.Sync, root common.Hash, depth int, parent common.Hash, callback trie.LeafCallback) {
	zzC19sTries = append(zzC19sTries, root)
}

func zzC19sRaw(s *trie.Sync, hash common.Hash, depth int, parent common.Hash) {
	zzC19sRaws = append(zzC19sRaws, hash)
}

func zzC19sHas(l []common.Hash, h common.Hash) bool {
	for _, x := range l {
		if x == h {
			return true
		}
	}
	return false
}

func zzH_C19_state_leaf() {
	zzC19sTries, zzC19sRaws = nil, nil
	storage, code, dlg := common.Hash{0x51}, common.Hash{0x52}, common.Hash{0x53}
	acc := Account{Root: emptyRoot, CodeHash: emptyCodeHash}
	hasStorage, hasCode, hasDlg := zzverif.Bool("account.hasStorage"), zzverif.Bool("account.hasCode"), zzverif.Bool("account.hasDelegations")
	if hasStorage {
		acc.Root = storage
	}
	if hasCode {
		acc.CodeHash = code[:]
	}
	if hasDlg {
		acc.DelegationsHash = dlg[:]
	}
	zzC19sAcc = acc
	NewStateSync(common.Hash{1}, nil)
	zzverif.Assert(zzC19sCallback != nil, "the state sync installs a leaf callback")
	err := zzC19sCallback([]byte{1}, common.Hash{9})
	zzverif.Assert(err == nil, "a decodable account leaf is accepted")
	zzverif.Assert(!hasStorage || zzC19sHas(zzC19sTries, storage), "the account's storage trie is scheduled")
	zzverif.Assert(!hasCode || zzC19sHas(zzC19sRaws, code), "the account's code is scheduled")
	zzverif.Assert(!hasDlg || zzC19sHas(zzC19sRaws, dlg), "the account's delegations blob is scheduled")
	zzverif.Reach("end")
}
