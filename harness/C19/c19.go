package trie

// C19 — trie sync reproduces the source or reports incompleteness: every shape of a
// small source DAG (symbolic child table), every order, repetition and unsolicited
// delivery of responses through the real trie.Sync scheduler (NewSync, Missing, Process,
// schedule, children, commit, Pending) and the real priority queue.

import (
	"errors"

	"github.com/youchainhq/go-youchain/common"
	"github.com/youchainhq/go-youchain/zzverif"
)

//verif:mode bv
//verif:replace $M/trie.decodeNode zzC19Decode

const zzC19Max = 6

// abstract source DAG: node i (1..total) has hash {i}, blob {i} and up to two children
// zzC19Kid[i][0..1] (0 = none); children have larger ids (acyclic); node 1 is the root.
var (
	zzC19Kid   [zzC19Max][2]byte
	zzC19Total int
	// a leaf may reference one of two raw entries (contract code / sub-trie roots added by the
	// state sync's leaf callback): zzC19Raw[i] in {0 = none, 1, 2}; two leaves may share one
	zzC19Raw  [zzC19Max]byte
	zzC19Sync *Sync
)

func zzC19RawHash(r byte) common.Hash { return common.Hash{0x80 + r} }

// the leaf callback of the state sync: the account leaf references code that must be fetched too
func zzC19Leaf(leaf []byte, parent common.Hash) error {
	if len(leaf) == 1 && leaf[0] != 0 {
		zzC19Sync.AddRawEntry(zzC19RawHash(leaf[0]), 64, parent)
	}
	return nil
}

func zzC19Hash(i byte) common.Hash { return common.Hash{i} }

// decodeNode: lookup in the DAG table (the byte-level decoder is C13's subject)
func zzC19Decode(hash, buf []byte, cachegen uint16) (node, error) {
	if len(buf) != 1 || buf[0] == 0 || int(buf[0]) > zzC19Total {
		return nil, errors.New("unknown blob")
	}
	n := &fullNode{}
	leaf := true
	for k := 0; k < 2; k++ {
		if c := zzC19Kid[buf[0]][k]; c != 0 {
			h := zzC19Hash(c)
			n.Children[k] = hashNode(h[:])
			leaf = false
		}
	}
	if leaf {
		n.Children[16] = valueNode([]byte{zzC19Raw[buf[0]]})
	}
	return n, nil
}

type zzC19DB struct{}

func (zzC19DB) Get(key []byte) ([]byte, error) { return nil, errors.New("not found") }
func (zzC19DB) Has(key []byte) (bool, error)   { return false, nil }

func zzC19In(list []common.Hash, h common.Hash) bool {
	var hit []bool
	for _, x := range list {
		hit = append(hit, x == h)
	}
	return zzverif.Any(hit...)
}

// zzC19Reach: node j is reachable from the root in the DAG (fixed-point over the small table)
func zzC19Reach() [zzC19Max]bool {
	var r [zzC19Max]bool
	r[1] = true
	for i := 1; i <= zzC19Total; i++ { // ids are topologically ordered
		for k := 0; k < 2; k++ {
			for j := i + 1; j <= zzC19Total; j++ {
				r[j] = zzverif.Any(r[j], zzverif.All(r[i], zzC19Kid[i][k] == byte(j)))
			}
		}
	}
	return r
}

func zzH_C19_sync() { zzC19Run(false, zzverif.Bound("nodes", 3, 4)) }

// the same with leaves that reference raw entries (code / storage roots) through the leaf callback
//
//verif:replace $M/trie.decodeNode zzC19Decode
func zzH_C19_sync_raw() { zzC19Run(true, zzverif.Bound("nodesWithRawEntries", 3, 3)) }

var zzC19Sub bool

// the same source scheduled the way the state sync schedules a storage trie (AddSubTrie at
// depth 64, no leaf callback)
//
//verif:replace $M/trie.decodeNode zzC19Decode
func zzH_C19_sync_subtrie() {
	zzC19Sub = true
	zzC19Run(false, zzverif.Bound("subtrieNodes", 3, 4))
}

func zzC19Run(withRaw bool, total int) {
	zzC19Total = total
	for i := 1; i <= zzC19Total; i++ {
		for k := 0; k < 2; k++ {
			c := zzverif.U8("child")
			zzverif.Assume(c == 0 || (int(c) > i && int(c) <= zzC19Total))
			zzC19Kid[i][k] = c
		}
	}
	for i := 1; i <= zzC19Total; i++ {
		zzC19Raw[i] = 0
		if withRaw {
			r := zzverif.U8("leaf.raw")
			zzverif.Assume(r <= 2)
			if !zzverif.Thorough() {
				zzverif.Assume(r <= 1) // quick tier: one raw entry, possibly shared by several leaves
			}
			zzC19Raw[i] = r
		}
	}
	reach := zzC19Reach()
	// raw entry r is part of the source iff a reachable leaf references it
	var rawNeeded [3]bool
	for i := 1; i <= zzC19Total; i++ {
		isLeaf := zzC19Kid[i][0] == 0 && zzC19Kid[i][1] == 0
		for r := byte(1); r <= 2; r++ {
			rawNeeded[r] = zzverif.Any(rawNeeded[r], zzverif.All(reach[i], isLeaf, zzC19Raw[i] == r))
		}
	}
	s := NewSync(zzC19Hash(1), zzC19DB{}, zzC19Leaf)
	if zzC19Sub {
		// the whole source as a storage trie: scheduled below the account level, without a leaf callback
		s = NewSync(emptyRoot, zzC19DB{}, nil)
		s.AddSubTrie(zzC19Hash(1), 64, common.Hash{}, nil)
	}
	zzC19Sync = s
	var asked, delivered []common.Hash
	refusals := 0
	maxSteps := zzC19Total
	if withRaw {
		maxSteps += 2
	}
	for step := 0; step <= maxSteps && s.Pending() > 0; step++ {
		asked = append(asked, s.Missing(0)...)
		// the responder answers with any node id or raw entry: one it was asked for (possibly again) or not
		id := zzverif.U8("response")
		zzverif.Assume((id >= 1 && int(id) <= zzC19Total) || (withRaw && (id == 0x81 || (id == 0x82 && zzverif.Thorough()))))
		h := zzC19Hash(id)
		before := s.Pending()
		req := s.requests[h]
		wasPending := req != nil && req.data == nil
		_, _, err := s.Process([]SyncResult{{Hash: h, Data: []byte{id}}})
		if wasPending {
			zzverif.Reach("accepted")
			zzverif.Assert(err == nil, "a requested node is accepted")
			zzverif.Assert(zzC19In(asked, h), "only nodes handed out by Missing are ever pending")
			delivered = append(delivered, h)
		} else {
			refusals++
			if refusals > 1 {
				zzverif.Assume(false) // bound: at most one useless response per history
			}
			zzverif.Reach("refused")
			zzverif.Assert(err == ErrNotRequested || err == ErrAlreadyProcessed, "an unrequested or repeated node is refused")
			zzverif.Assert(s.Pending() == before, "a refused response changes nothing")
		}
		for _, r := range s.requests {
			zzverif.Assert(r.deps >= 0, "dependency counters never go negative")
		}
		order := s.membatch.order
		for pos, hh := range order {
			if hh[0] >= 0x80 {
				continue // a raw entry has no dependencies
			}
			for k := 0; k < 2; k++ {
				c := zzC19Kid[hh[0]][k]
				zzverif.Assert(c == 0 || zzC19In(order[:pos], zzC19Hash(c)), "a node is completed only after all of its children (a flushed prefix never holds a parent without its subtree)")
			}
			if zzC19Kid[hh[0]][0] == 0 && zzC19Kid[hh[0]][1] == 0 && zzC19Raw[hh[0]] != 0 {
				zzverif.Assert(zzC19In(order[:pos], zzC19RawHash(zzC19Raw[hh[0]])), "a leaf is completed only after the raw entry it references (code, storage root), also when another leaf asked for it first")
			}
		}
		var all []bool
		for j := 1; j <= zzC19Total; j++ {
			all = append(all, zzverif.Any(!reach[j], zzC19In(order, zzC19Hash(byte(j)))))
		}
		for r := byte(1); r <= 2; r++ {
			all = append(all, zzverif.Any(!rawNeeded[r], zzC19In(order, zzC19RawHash(r))))
		}
		zzverif.Assert((s.Pending() == 0) == zzverif.All(all...), "sync reports completion exactly when every reachable node of the source is stored")
		var got []bool
		for j := 1; j <= zzC19Total; j++ {
			got = append(got, zzverif.Any(!reach[j], zzC19In(delivered, zzC19Hash(byte(j)))))
		}
		for r := byte(1); r <= 2; r++ {
			got = append(got, zzverif.Any(!rawNeeded[r], zzC19In(delivered, zzC19RawHash(r))))
		}
		zzverif.Assert(!zzverif.All(got...) || s.Pending() == 0, "once every node of the source has been delivered the sync is complete (no request is left waiting)")
		for i, a := range order {
			for _, b := range order[i+1:] {
				zzverif.Assert(a != b, "no node is stored twice")
			}
		}
	}
	if s.Pending() == 0 {
		zzverif.Reach("complete")
	}
	zzverif.Reach("end")
}

// ---- flushing completed nodes: Commit against a writer that can fail ----

type zzC19Putter struct {
	failAt  int // refuse the failAt-th Put (0-based) once; -1 = never
	puts    int
	written []common.Hash
}

func (p *zzC19Putter) Put(key, value []byte) error {
	n := p.puts
	p.puts++
	if n == p.failAt {
		return errors.New("disk full")
	}
	var h common.Hash
	copy(h[:], key)
	p.written = append(p.written, h)
	return nil
}

// zzH_C19_commit: three completed nodes wait in the flush list (children first).  The writer
// refuses any one Put once; the caller retries Commit.  At every moment the destination holds
// a children-first prefix of the completion order, and after the successful Commit it holds
// every completed node - none is dropped because its write was refused.
func zzH_C19_commit() {
	s := NewSync(zzC19Hash(1), zzC19DB{}, nil)
	order := []common.Hash{zzC19Hash(3), zzC19Hash(2), zzC19Hash(1)}
	for _, h := range order {
		s.membatch.batch[h] = []byte{h[0]}
		s.membatch.order = append(s.membatch.order, h)
	}
	p := &zzC19Putter{failAt: zzverif.Choose("refusedWrite", 4) - 1}
	n, err := s.Commit(p)
	if p.failAt >= 0 {
		zzverif.Assert(err != nil && n == p.failAt, "a refused write is reported with the number of entries written before it")
		zzverif.Reach("refused")
		n2, err2 := s.Commit(p) // the caller retries
		zzverif.Assert(err2 == nil && n2 >= 0, "the retried flush succeeds")
	} else {
		zzverif.Assert(err == nil && n == 3, "a flush to a working writer writes everything")
	}
	// every prefix of the write sequence is children-first: position of a node's first write
	first := func(h common.Hash) int {
		for i, w := range p.written {
			if w == h {
				return i
			}
		}
		return -1
	}
	for i, h := range order {
		zzverif.Assert(first(h) >= 0, "every completed node reaches the destination, also the one whose write was refused")
		if i > 0 {
			zzverif.Assert(first(order[i-1]) >= 0 && first(order[i-1]) < first(h), "nodes reach the destination in completion order (children first)")
		}
	}
	zzverif.Assert(len(s.membatch.order) == 0 && len(s.membatch.batch) == 0, "a successful flush empties the flush list")
	zzverif.Reach("end")
}
