package downloader

// C19 (delivery) — what the downloader hands to the sync scheduler.  trieSync.process is
// the only place a peer's response meets trie.Sync.Process, which trusts the hash it is
// given (it looks the request up by that hash).  For every response to a two-item request
// (any number of blobs up to three, any content, any order) every blob is injected under
// the hash OF ITS OWN CONTENT, and every requested item that did not come back goes back
// into the retry queue.  keccak is an unknown function behind hash.Hash; the scheduler's
// answer to each injection is arbitrary.

import (
	"errors"
	"hash"

	"github.com/youchainhq/go-youchain/common"
	"github.com/youchainhq/go-youchain/core/types"
	"github.com/youchainhq/go-youchain/trie"
	"github.com/youchainhq/go-youchain/zzverif"
)

//verif:mode bv
//verif:replace (*$M/trie.Sync).Process zzC19dProcess
//verif:replace (*$M/you/downloader.PeerSet).Len zzC19dPeers
//verif:noop (*$M/you/downloader.trieSync).updateStats

func zzC19dPeers(ps *PeerSet) int { return 3 }

type zzC19dHash struct {
	hash.Hash
	buf []byte
}

func (h *zzC19dHash) Reset()                      { h.buf = nil }
func (h *zzC19dHash) Write(p []byte) (int, error) { h.buf = append(h.buf, p...); return len(p), nil }
func (h *zzC19dHash) Sum(b []byte) []byte {
	d := zzC19dKeccak(h.buf)
	return append(b, d[:]...)
}

func zzC19dKeccak(b []byte) common.Hash { return common.Hash(zzverif.UF32("keccak", b)) }

var zzC19dInjected []trie.SyncResult

func zzC19dProcess(s *trie.Sync, results []trie.SyncResult) (bool, int, error) {
	for _, r := range results {
		zzC19dInjected = append(zzC19dInjected, trie.SyncResult{Hash: r.Hash, Data: append([]byte(nil), r.Data...)})
	}
	switch zzverif.Choose("schedulerAnswer", 4) {
	case 1:
		return false, 0, trie.ErrNotRequested
	case 2:
		return false, 0, trie.ErrAlreadyProcessed
	case 3:
		return false, 0, errors.New("invalid node")
	}
	return true, 0, nil
}

func zzH_C19_delivery() {
	zzC19dInjected = nil
	s := &trieSync{d: &Downloader{}, kind: types.KindState, sched: &trie.Sync{}, keccak: &zzC19dHash{}, tasks: map[common.Hash]*trieTask{}}
	// the request: two items, the hashes of two different one-byte nodes
	want := [][]byte{{zzverif.U8("node1")}, {zzverif.U8("node2")}}
	h1, h2 := zzC19dKeccak(want[0]), zzC19dKeccak(want[1])
	zzverif.Assume(h1 != h2)
	peer := &peerConnection{id: "p"}
	req := &trieReq{items: []common.Hash{h1, h2}, peer: peer, tasks: map[common.Hash]*trieTask{
		h1: {attempts: map[string]struct{}{"p": {}}},
		h2: {attempts: map[string]struct{}{"p": {}}},
	}}
	n := zzverif.Choose("responseBlobs", 4)
	for i := 0; i < n; i++ {
		req.response = append(req.response, []byte{zzverif.U8("blob")})
	}
	if n == 0 && zzverif.Bool("emptyNotTimeout") {
		req.response = [][]byte{}
	}
	_, err := s.process(req)
	for _, r := range zzC19dInjected {
		zzverif.Assert(r.Hash == zzC19dKeccak(r.Data), "every delivered blob is injected under the hash of its own content")
	}
	zzverif.Assert(len(zzC19dInjected) <= n, "nothing but the delivered blobs is injected")
	if err == nil {
		zzverif.Assert(len(zzC19dInjected) == n, "every delivered blob is injected")
		for k, h := range []common.Hash{h1, h2} {
			delivered := false
			for _, b := range req.response {
				if zzC19dKeccak(b) == h {
					delivered = true
				}
			}
			_, queued := s.tasks[h]
			_ = k
			zzverif.Assert(delivered || queued, "a requested item that did not come back is queued for retry")
			zzverif.Assert(!(delivered && queued), "an item that came back is not requested again")
		}
		zzverif.Reach("processed")
	}
	zzverif.Reach("end")
}
