package state

// C08 — validator-set totals, indexes and delegation links always match the
// records.  Inductive step: from an arbitrary state with two validators (and a
// delegation) whose statistics equal the recomputation, any one mutation (and its
// journal revert) keeps statistics = recomputation, index = live set, and the
// per-validator sums.

import (
	"math/big"

	"github.com/youchainhq/go-youchain/common"
	"github.com/youchainhq/go-youchain/params"
	"github.com/youchainhq/go-youchain/zzverif"
)

//verif:mode int
//verif:replace $M/core/state.PubToAddress zzPubToAddress
//verif:replace $M/rlp.EncodeToBytes zzEncodeStub

type zzC08Sum struct {
	stake, token, ostake, otoken *big.Int
	count, ocount                uint64
}

func zzC08NewSum() *zzC08Sum {
	return &zzC08Sum{stake: new(big.Int), token: new(big.Int), ostake: new(big.Int), otoken: new(big.Int)}
}

var zzZero = new(big.Int)

// add accumulates v when sel holds (as terms, without forking).
func (s *zzC08Sum) add(sel bool, v *Validator) {
	on := zzverif.All(sel, v.Status == params.ValidatorOnline)
	off := zzverif.All(sel, v.Status != params.ValidatorOnline)
	s.stake.Add(s.stake, zzverif.IteBig(on, v.Stake, zzZero))
	s.token.Add(s.token, zzverif.IteBig(on, v.Token, zzZero))
	s.count += zzverif.IteU64(on, 1, 0)
	s.ostake.Add(s.ostake, zzverif.IteBig(off, v.Stake, zzZero))
	s.otoken.Add(s.otoken, zzverif.IteBig(off, v.Token, zzZero))
	s.ocount += zzverif.IteU64(off, 1, 0)
}

func (s *zzC08Sum) matches(k *ValKindStat) bool {
	return zzverif.All(k.onlineStake.Cmp(s.stake) == 0, k.onlineToken.Cmp(s.token) == 0, k.onlineCount == s.count,
		k.offlineStake.Cmp(s.ostake) == 0, k.offlineToken.Cmp(s.otoken) == 0, k.offlineCount == s.ocount)
}

// zzC08Consistent recomputes every statistic from the live validator records.
func zzC08Consistent(s *StateDB, n int) bool {
	stat, err := s.GetValidatorsStat()
	if err != nil {
		return false
	}
	var oks []bool
	for _, role := range zzRoles {
		sum := zzC08NewSum()
		for i := 1; i <= n; i++ {
			if v := s.GetValidatorByMainAddr(zzValAddr(i)); v != nil {
				sum.add(v.Role == role, v)
			}
		}
		oks = append(oks, sum.matches(stat.GetByRole(role)))
	}
	for _, kind := range []params.ValidatorKind{params.KindValidator, params.KindChamber, params.KindHouse} {
		sum := zzC08NewSum()
		for i := 1; i <= n; i++ {
			if v := s.GetValidatorByMainAddr(zzValAddr(i)); v != nil {
				isChamber := zzverif.Any(v.Role == params.RoleChancellor, v.Role == params.RoleSenator)
				sel := zzverif.Any(kind == params.KindValidator, zzverif.All(kind == params.KindChamber, isChamber), zzverif.All(kind == params.KindHouse, !isChamber))
				sum.add(sel, v)
			}
		}
		oks = append(oks, sum.matches(stat.GetByKind(kind)))
	}
	return zzverif.All(oks...)
}

// zzC08Index: the address index lists exactly the live validators among 1..n.
func zzC08Index(s *StateDB, n int) bool {
	list := s.validatorIndex.List()
	live := 0
	ok := true
	for i := 1; i <= n; i++ {
		v := s.GetValidatorByMainAddr(zzValAddr(i))
		in := false
		for _, a := range list {
			if a == zzValAddr(i) {
				in = true
			}
		}
		if v != nil {
			live++
		}
		ok = ok && (in == (v != nil))
	}
	return ok && len(list) == live
}

// zzC08Links: per-validator sums and delegator-side links for delegator d.
func zzC08Links(s *StateDB, n int, d common.Address) bool {
	ok := true
	total := new(big.Int)
	cnt := 0
	for i := 1; i <= n; i++ {
		v := s.GetValidatorByMainAddr(zzValAddr(i))
		if v == nil {
			continue
		}
		tok, stk := new(big.Int).Set(v.SelfToken), new(big.Int).Set(v.SelfStake)
		has := false
		for _, df := range v.Delegations {
			ok = ok && df != nil
			if df == nil {
				continue
			}
			tok.Add(tok, df.Token)
			stk.Add(stk, df.Stake)
			ok = zzverif.All(ok, df.Stake.Cmp(params.YOUToStake(df.Token)) == 0)
			if df.Delegator == d {
				has = true
				total.Add(total, df.Token)
				cnt++
			}
		}
		ok = zzverif.All(ok, v.Token.Cmp(tok) == 0, v.Stake.Cmp(stk) == 0)
		// delegator account lists v  <=>  v lists the delegator
		listed := false
		if obj := s.getStateObject(d); obj != nil {
			for _, a := range obj.Delegations() {
				if a == zzValAddr(i) {
					listed = true
				}
			}
		}
		ok = ok && listed == has
	}
	if obj := s.getStateObject(d); obj != nil {
		ok = zzverif.All(ok, obj.DelegationBalance().Cmp(total) == 0, obj.GetDelegationsCount() == cnt)
	}
	return ok
}

func zzH_C08_step() {
	zzValTwoDlg = true
	s, d := zzValState()
	zzverif.Assume(zzC08Consistent(s, 2) && zzC08Index(s, 2) && zzC08Links(s, 2, d)) // holds by construction; kept as a guard
	zzverif.Reach("pre")
	id := s.Snapshot()
	n := 2
	removed := false
	switch zzverif.Choose("op", 6) {
	case 5: // remove the second validator (StateDB.RemoveValidator: exposed through vm.StateDB, no production caller)
		if s.GetValidatorByMainAddr(zzValAddr(2)) == nil || len(s.GetValidatorByMainAddr(zzValAddr(2)).Delegations) > 0 {
			zzverif.Assume(false)
		}
		s.RemoveValidator(zzValAddr(2))
		removed = true
		zzverif.Reach("removed")
	case 4: // in-place update, as teDelegationSub / recoverFromExpiredExpelling / rewardsToPool do:
		// the live record is modified and passed as newVal together with a pre-modification copy
		cur := s.GetValidatorByMainAddr(zzValAddr(1))
		old := cur.PartialCopy()
		cur.Status = 1 - cur.Status
		cur.Expelled = !cur.Expelled
		zzverif.Assert(s.UpdateValidator(cur, old), "in-place update accepted")
		zzverif.Reach("updated-in-place")
	case 0: // create a third validator
		role := params.ValidatorRole(zzverif.U8("n.role"))
		zzverif.Assume(role >= 1 && role <= 3)
		st := zzverif.U8("n.status")
		zzverif.Assume(st <= 1)
		tok := zzverif.Big("n.token", 90)
		s.CreateValidator("n", zzAddr(3), zzAddr(3), role, zzPub(3), zzPub(3), tok, params.YOUToStake(tok), 1, 0, 0, st)
		n = 3
		zzverif.Reach("created")
	case 1: // update validator 1 with arbitrary role / status / self token changes, as the staking handlers do
		cur := s.GetValidatorByMainAddr(zzValAddr(1))
		nv := cur.PartialCopy()
		role := params.ValidatorRole(zzverif.U8("u.role"))
		zzverif.Assume(role >= 1 && role <= 3)
		nv.Role = role
		st := zzverif.U8("u.status")
		zzverif.Assume(st <= 1)
		nv.Status = st
		add := zzverif.Big("u.add", 90)
		nv.SelfToken.Add(nv.SelfToken, add)
		nv.Token.Add(nv.Token, add)
		ns := params.YOUToStake(nv.SelfToken)
		nv.Stake.Add(nv.Stake, new(big.Int).Sub(ns, nv.SelfStake))
		nv.SelfStake.Set(ns)
		zzverif.Assert(s.UpdateValidator(nv, cur), "update accepted")
		zzverif.Reach("updated")
	case 2: // change the delegation to validator 1 by an arbitrary signed amount
		cur := s.GetValidatorByMainAddr(zzValAddr(1))
		delta := zzverif.Big("d.delta", 90)
		if zzverif.Bool("d.negative") {
			delta.Neg(delta)
			// the handlers never take out more than is delegated
			df := cur.GetDelegationFrom(d)
			if df == nil {
				zzverif.Assume(false)
			}
			zzverif.Assume(new(big.Int).Add(df.Token, delta).Sign() >= 0)
		}
		s.UpdateDelegation(d, cur, delta)
		zzverif.Reach("delegated")
	case 3: // delegate to the second validator as well
		cur := s.GetValidatorByMainAddr(zzValAddr(2))
		amt := zzverif.Big("d2.amount", 90)
		s.UpdateDelegation(d, cur, amt)
		zzverif.Reach("delegated2")
	}
	zzverif.Assert(zzC08Consistent(s, n), "statistics equal the recomputation from the validator records")
	// known finding: RemoveValidator leaves the removed validator in the address index until the next flush
	zzverif.AssertKF(zzC08Index(s, n), "the address index lists exactly the live validators", "C08-removevalidator-keeps-index-entry", removed)
	zzverif.Assert(zzC08Links(s, n, d), "validator totals = self + delegations, stake = token / unit, both sides agree on delegations")
	if zzverif.Bool("revert") {
		s.RevertToSnapshot(id)
		zzverif.Reach("reverted")
		zzverif.Assert(zzC08Consistent(s, 3), "statistics equal the recomputation after the revert")
		zzverif.Assert(zzC08Index(s, 3), "the index lists exactly the live validators after the revert")
		zzverif.Assert(zzC08Links(s, 3, d), "totals and delegation links consistent after the revert")
	}
	zzverif.Reach("end")
}
