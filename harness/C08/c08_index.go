package state

// C08 (the index as callers see it) — GetValidatorsForUpdate / GetValidators are how the
// end-of-block passes enumerate validators.  After a flush, a validator is created; the
// enumeration must list it like every other existing validator.  (Uses the snapshot store
// and codec stand-in of C10's reopen harness so that the index really is in the trie.)

import (
	"math/big"

	"github.com/youchainhq/go-youchain/params"
	"github.com/youchainhq/go-youchain/zzverif"
)

//verif:mode int
//verif:replace $M/core/state.PubToAddress zzPubToAddress
//verif:replace $M/rlp.EncodeToBytes zzC10rEncode
//verif:replace $M/rlp.Encode zzC10rEncodeTo
//verif:replace $M/rlp.DecodeBytes zzC10rDecode
//verif:replace (*$M/rlp.Stream).Decode zzC10rStreamDecode
//verif:replace $M/rlp.Split zzC10rSplit
//verif:replace (*$M/trie.Database).InsertBlob zzC10rInsertBlob
//verif:replace (*$M/trie.Database).Node zzC10rNode
//verif:noop (*$M/trie.Database).Reference

func zzH_C08_index_enumeration() {
	s := zzC10rNew()
	for i := 1; i <= 2; i++ {
		tok := new(big.Int).Mul(params.StakeUint, big.NewInt(int64(i)))
		s.CreateValidator("v", zzAddr(i), zzAddr(i), params.ValidatorRole(i), zzPub(i), zzPub(i), tok, params.YOUToStake(tok), 1, 0, 0, params.ValidatorOnline)
	}
	if zzverif.Bool("flushedBefore") {
		s.IntermediateRoot(true) // the index is now in the validator trie as well
		zzverif.Reach("flushed")
	}
	created := zzverif.Bool("createdSinceTheFlush")
	want := 2
	if created {
		tok := new(big.Int).Mul(params.StakeUint, big.NewInt(3))
		s.CreateValidator("n", zzAddr(3), zzAddr(3), params.RoleHouse, zzPub(3), zzPub(3), tok, params.YOUToStake(tok), 1, 0, 0, params.ValidatorOffline)
		want = 3
	}
	list := s.GetValidatorsForUpdate()
	found := 0
	for _, v := range list {
		if v != nil {
			found++
		}
	}
	zzverif.AssertKF(len(list) == want && found == want, "the enumeration the end-of-block passes use lists exactly the existing validators", "C08-index-reloaded-on-read", created)
	zzverif.AssertKF(s.GetValidators().Len() == want, "the sorted validator set holds exactly the existing validators", "C08-index-reloaded-on-read", created)
	zzverif.Reach("end")
}
