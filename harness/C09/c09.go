package state

// C09 — reverting to a snapshot restores exactly the snapshotted state.

import (
	"math/big"

	"github.com/youchainhq/go-youchain/common"
	"github.com/youchainhq/go-youchain/core/types"
	"github.com/youchainhq/go-youchain/params"
	"github.com/youchainhq/go-youchain/zzverif"
)

//verif:mode bv W=264
//verif:replace $M/core/state.PubToAddress zzPubToAddress

// zzH_C09_revisions: any sequence of Snapshot / RevertToSnapshot(valid id) /
// Finalise (transaction boundary) / journalled account and validator mutations
// never fails, and balances and validator tokens follow the snapshot stack model.
func zzH_C09_revisions() {
	k := zzverif.Bound("ops", 6, 7)
	s := zzNewState()
	a := zzAddr(1)
	v := s.CreateValidator("v", zzAddr(1), zzAddr(1), zzRoles[0], zzPub(1), zzPub(1), zzverif.Big("v1.token", 80), zzverif.Big("v1.stake", 40), 1, 0, 0, 1)
	s.Finalise(true)
	type snap struct {
		id    int
		nonce uint64
		total *big.Int
	}
	var stack []snap
	nonce := uint64(0)
	total := new(big.Int).Set(v.RewardsTotal)
	for step := 0; step < k; step++ {
		switch zzverif.Choose("op", 4) {
		case 0:
			id := s.Snapshot()
			stack = append(stack, snap{id, nonce, new(big.Int).Set(total)})
		case 1:
			if len(stack) == 0 {
				zzverif.Assume(false)
			}
			j := zzverif.Choose("which", len(stack))
			zzverif.Reach("revert")
			s.RevertToSnapshot(stack[j].id)
			nonce, total = stack[j].nonce, stack[j].total
			stack = stack[:j]
		case 2:
			zzverif.Reach("finalise")
			s.Finalise(true)
			stack = nil
		case 3:
			// one journalled account mutation and one journalled validator mutation, symbolic payloads
			nonce = zzverif.U64("nonce")
			s.SetNonce(a, nonce)
			cur := s.GetValidatorByMainAddr(zzValAddr(1))
			nv := cur.PartialCopy()
			d := zzverif.Big("reward", 64)
			nv.RewardsTotal.Add(nv.RewardsTotal, d)
			s.UpdateValidator(nv, cur)
			total = new(big.Int).Add(total, d)
		}
		zzverif.Assert(s.GetNonce(a) == nonce, "account nonce follows the snapshot model")
		zzverif.Assert(s.GetValidatorByMainAddr(zzValAddr(1)).RewardsTotal.Cmp(total) == 0, "validator record follows the snapshot model")
		zzverif.Assert(len(s.validRevisions) == len(stack) && len(s.valValidRevisions) == len(stack), "both revision lists hold exactly the valid snapshots")
	}
	zzverif.Reach("end")
}

// zzH_C09_account: from an arbitrary small account state, any one or two journalled
// account mutations followed by a revert restore every account observable.
func zzH_C09_account() {
	s := zzNewState()
	var key common.Hash
	key[31] = zzverif.U8("slotkey")
	// arbitrary pre-state of account 0 (account 1 may not exist)
	s.SetBalance(zzAddr(0), zzverif.Big("bal0", 128))
	s.SetNonce(zzAddr(0), zzverif.U64("nonce0"))
	var v0 common.Hash
	v0[31] = zzverif.U8("slot0")
	s.SetState(zzAddr(0), key, v0)
	if zzverif.Bool("hascode") {
		s.SetCode(zzAddr(0), []byte{zzverif.U8("code0")})
	}
	if zzverif.Bool("newtx") {
		s.Finalise(true) // the state was produced by an earlier transaction
		if zzverif.Bool("rewritten") {
			// ... and the current transaction already wrote the slot again (possibly back to its committed value)
			var v1 common.Hash
			v1[31] = zzverif.U8("slot1")
			s.SetState(zzAddr(0), key, v1)
		}
	}
	before := zzC09Observe(s, key)
	id := s.Snapshot()
	n := zzverif.Bound("mutations", 2, 3)
	for m := 0; m < n; m++ {
		who := zzAddr(zzverif.Choose("who", 2))
		switch zzverif.Choose("mut", 10) {
		case 0:
			s.AddBalance(who, zzverif.Big("amt", 64))
		case 1:
			s.SubBalance(who, zzverif.Big("amt", 64))
		case 2:
			s.SetNonce(who, zzverif.U64("nonce"))
		case 3:
			s.SetCode(who, []byte{zzverif.U8("code")})
		case 4:
			var val common.Hash
			val[31] = zzverif.U8("val")
			s.SetState(who, key, val)
		case 5:
			s.Suicide(who)
		case 6:
			s.AddLog(&types.Log{Address: who})
		case 7:
			s.AddRefund(zzverif.U64("refund") & 0xffff)
		case 8:
			var h common.Hash
			h[0] = zzverif.U8("pre")
			s.AddPreimage(h, []byte{1})
		case 9:
			s.CreateAccount(who)
		}
	}
	zzverif.Reach("mutated")
	s.RevertToSnapshot(id)
	after := zzC09Observe(s, key)
	zzverif.Assert(zzC09Same(before, after), "revert restores every account observable")
	zzverif.Reach("end")
}

// ---- validator side ----

// zzH_C09_validator: from an arbitrary two-validator state (with a delegation and
// withdraw records), one validator-side mutation followed by a revert restores every
// validator observable: records, delegations, statistics, index, queue, delegator side.
//
//verif:mode int
//verif:replace $M/rlp.EncodeToBytes zzEncodeStub
func zzH_C09_validator() {
	zzValTwoDlg = true
	s, d := zzValState()
	// two withdraw records already queued by earlier transactions
	for i := 0; i < 2; i++ {
		s.AddWithdrawRecord(&WithdrawRecord{Operator: zzAddr(1), Validator: zzValAddr(1), Nonce: uint64(10 + i), CompletionHeight: zzverif.U64("rec.height"),
			InitialBalance: big.NewInt(5), FinalBalance: big.NewInt(5)})
	}
	s.Finalise(false)
	before := zzC09ObserveVal(s, d)
	id := s.Snapshot()
	switch zzverif.Choose("op", 6) {
	case 0:
		tok := zzverif.Big("n.token", 90)
		s.CreateValidator("n", zzAddr(3), zzAddr(3), zzRoles[zzverif.Choose("n.role", 3)], zzPub(3), zzPub(3), tok, params.YOUToStake(tok), 1, 0, 0, 1)
	case 1:
		cur := s.GetValidatorByMainAddr(zzValAddr(1))
		st := zzverif.U8("u.status")
		zzverif.Assume(st <= 1)
		add := zzverif.Big("u.add", 90)
		if zzverif.Bool("u.inPlace") {
			// the other calling convention (teDelegationSub, recoverFromExpiredExpelling, the
			// proposer reward): keep a copy as the old value and change the live object
			old := cur.PartialCopy()
			cur.Status = st
			cur.SelfToken.Add(cur.SelfToken, add)
			cur.Token.Add(cur.Token, add)
			s.UpdateValidator(cur, old)
		} else {
			nv := cur.PartialCopy()
			nv.Status = st
			nv.SelfToken.Add(nv.SelfToken, add)
			nv.Token.Add(nv.Token, add)
			s.UpdateValidator(nv, cur)
		}
	case 2:
		cur := s.GetValidatorByMainAddr(zzValAddr(1))
		delta := zzverif.Big("d.delta", 90)
		if zzverif.Bool("d.negative") {
			delta.Neg(delta)
			df := cur.GetDelegationFrom(d)
			if df == nil {
				zzverif.Assume(false)
			}
			zzverif.Assume(new(big.Int).Add(df.Token, delta).Sign() >= 0)
			if zzverif.Bool("d.all") {
				delta.Neg(df.Token) // complete withdrawal: the validator leaves the delegator's list
			}
		}
		s.UpdateDelegation(d, cur, delta)
	case 3:
		// (the queue does not enforce unique (operator, nonce) keys: the undo must take out the
		// record this frame added, not an older one with the same key)
		op, nonce := zzAddr(2), uint64(77)
		if zzverif.Bool("new.sameKeyAsQueued") {
			op, nonce = zzAddr(1), 10
		}
		s.AddWithdrawRecord(&WithdrawRecord{Operator: op, Validator: zzValAddr(2), Nonce: nonce, CompletionHeight: zzverif.U64("new.height"),
			InitialBalance: big.NewInt(1), FinalBalance: big.NewInt(1)})
	case 4:
		s.RemoveWithdrawRecords([]int{zzverif.Choose("rm", 2)})
	case 5:
		s.RemoveValidator(zzValAddr(zzverif.Choose("rmval", 2) + 1))
	}
	zzverif.Reach("mutated")
	s.RevertToSnapshot(id)
	after := zzC09ObserveVal(s, d)
	zzverif.Assert(zzC09SameVal(before, after), "revert restores every validator-side observable")
	zzverif.Reach("end")
}

// zzH_C09_staking_records: a reverted frame leaves no pending staking record or pending
// relationship behind.  Known finding: these two stores are not journalled at all.
func zzH_C09_staking_records() {
	s := zzNewState()
	d, v := zzAddr(7), zzValAddr(1)
	if zzverif.Bool("recordExistsBefore") {
		s.AddStakingRecord(d, v, common.Hash{1}, big.NewInt(5))
	}
	value := s.GetStakingRecordValue(d, v)
	hashes := 0
	if r := s.GetStakingRecord(d, v); r != nil {
		hashes = len(r.TxHashes)
	}
	rel := s.PendingRelationshipExist(d, v)
	id := s.Snapshot()
	wrote := true
	switch zzverif.Choose("frame", 3) {
	case 0:
		s.AddStakingRecord(d, v, common.Hash{2}, big.NewInt(9))
	case 1:
		s.AddPendingRelationship(d, v)
	case 2: // only reads
		s.GetStakingRecordValue(d, v)
		wrote = false
	}
	s.RevertToSnapshot(id)
	zzverif.Reach("reverted")
	now := 0
	if r := s.GetStakingRecord(d, v); r != nil {
		now = len(r.TxHashes)
	}
	same := s.GetStakingRecordValue(d, v).Cmp(value) == 0 && now == hashes && s.PendingRelationshipExist(d, v) == rel
	zzverif.AssertKF(same, "revert restores pending staking records and pending relationships", "C09-staking-records-not-journalled", wrote)
	zzverif.Reach("end")
}
