package state

// C09 — reverting to a snapshot restores exactly the snapshotted state.

import (
	"math/big"

	"github.com/youchainhq/go-youchain/common"
	"github.com/youchainhq/go-youchain/core/types"
	"github.com/youchainhq/go-youchain/params"
	"github.com/youchainhq/go-youchain/zzverif"
)

//verif:mode bv W=264
//verif:replace $M/core/state.PubToAddress zzPubToAddress

// zzH_C09_revisions: any sequence of Snapshot / RevertToSnapshot(valid id) /
// Finalise (transaction boundary) / journalled account and validator mutations
// never fails, and balances and validator tokens follow the snapshot stack model.
func zzH_C09_revisions() {
	k := zzverif.Bound("ops", 6, 7)
	s := zzNewState()
	a := zzAddr(1)
	v := s.CreateValidator("v", zzAddr(1), zzAddr(1), zzRoles[0], zzPub(1), zzPub(1), zzverif.Big("v1.token", 80), zzverif.Big("v1.stake", 40), 1, 0, 0, 1)
	s.Finalise(true)
	type snap struct {
		id    int
		nonce uint64
		total *big.Int
	}
	var stack []snap
	nonce := uint64(0)
	total := new(big.Int).Set(v.RewardsTotal)
	for step := 0; step < k; step++ {
		switch zzverif.Choose("op", 4) {
		case 0:
			id := s.Snapshot()
			stack = append(stack, snap{id, nonce, new(big.Int).Set(total)})
		case 1:
			if len(stack) == 0 {
				zzverif.Assume(false)
			}
			j := zzverif.Choose("which", len(stack))
			zzverif.Reach("revert")
			s.RevertToSnapshot(stack[j].id)
			nonce, total = stack[j].nonce, stack[j].total
			stack = stack[:j]
		case 2:
			zzverif.Reach("finalise")
			s.Finalise(true)
			stack = nil
		case 3:
			// one journalled account mutation and one journalled validator mutation, symbolic payloads
			nonce = zzverif.U64("nonce")
			s.SetNonce(a, nonce)
			cur := s.GetValidatorByMainAddr(zzValAddr(1))
			nv := cur.PartialCopy()
			d := zzverif.Big("reward", 64)
			nv.RewardsTotal.Add(nv.RewardsTotal, d)
			s.UpdateValidator(nv, cur)
			total = new(big.Int).Add(total, d)
		}
		zzverif.Assert(s.GetNonce(a) == nonce, "account nonce follows the snapshot model")
		zzverif.Assert(s.GetValidatorByMainAddr(zzValAddr(1)).RewardsTotal.Cmp(total) == 0, "validator record follows the snapshot model")
		zzverif.Assert(len(s.validRevisions) == len(stack) && len(s.valValidRevisions) == len(stack), "both revision lists hold exactly the valid snapshots")
	}
	zzverif.Reach("end")
}

type zzC09Obs struct {
	bal, dlgBal    [2]*big.Int
	nonce          [2]uint64
	exist, suicide [2]bool
	code           [2][]byte
	slot           [2]common.Hash
	refund         uint64
	nlogs          int
	preimg         int
}

func zzC09Observe(s *StateDB, key common.Hash) zzC09Obs {
	var o zzC09Obs
	for i := 0; i < 2; i++ {
		a := zzAddr(i)
		o.bal[i] = new(big.Int).Set(s.GetBalance(a))
		o.nonce[i] = s.GetNonce(a)
		o.exist[i] = s.Exist(a)
		o.suicide[i] = s.HasSuicided(a)
		o.code[i] = append([]byte(nil), s.GetCode(a)...)
		o.slot[i] = s.GetState(a, key)
	}
	o.refund = s.GetRefund()
	o.nlogs = len(s.Logs())
	o.preimg = len(s.Preimages())
	return o
}

func zzC09Same(x, y zzC09Obs) bool {
	ok := x.refund == y.refund && x.nlogs == y.nlogs && x.preimg == y.preimg
	for i := 0; i < 2; i++ {
		ok = ok && x.bal[i].Cmp(y.bal[i]) == 0 && x.nonce[i] == y.nonce[i] && x.exist[i] == y.exist[i] &&
			x.suicide[i] == y.suicide[i] && x.slot[i] == y.slot[i] && len(x.code[i]) == len(y.code[i])
		if len(x.code[i]) == len(y.code[i]) {
			for j := range x.code[i] {
				ok = ok && x.code[i][j] == y.code[i][j]
			}
		}
	}
	return ok
}

// zzH_C09_account: from an arbitrary small account state, any one or two journalled
// account mutations followed by a revert restore every account observable.
func zzH_C09_account() {
	s := zzNewState()
	var key common.Hash
	key[31] = zzverif.U8("slotkey")
	// arbitrary pre-state of account 0 (account 1 may not exist)
	s.SetBalance(zzAddr(0), zzverif.Big("bal0", 128))
	s.SetNonce(zzAddr(0), zzverif.U64("nonce0"))
	var v0 common.Hash
	v0[31] = zzverif.U8("slot0")
	s.SetState(zzAddr(0), key, v0)
	if zzverif.Bool("hascode") {
		s.SetCode(zzAddr(0), []byte{zzverif.U8("code0")})
	}
	if zzverif.Bool("newtx") {
		s.Finalise(true) // the state was produced by an earlier transaction
	}
	before := zzC09Observe(s, key)
	id := s.Snapshot()
	n := zzverif.Bound("mutations", 2, 3)
	for m := 0; m < n; m++ {
		who := zzAddr(zzverif.Choose("who", 2))
		switch zzverif.Choose("mut", 10) {
		case 0:
			s.AddBalance(who, zzverif.Big("amt", 64))
		case 1:
			s.SubBalance(who, zzverif.Big("amt", 64))
		case 2:
			s.SetNonce(who, zzverif.U64("nonce"))
		case 3:
			s.SetCode(who, []byte{zzverif.U8("code")})
		case 4:
			var val common.Hash
			val[31] = zzverif.U8("val")
			s.SetState(who, key, val)
		case 5:
			s.Suicide(who)
		case 6:
			s.AddLog(&types.Log{Address: who})
		case 7:
			s.AddRefund(zzverif.U64("refund") & 0xffff)
		case 8:
			var h common.Hash
			h[0] = zzverif.U8("pre")
			s.AddPreimage(h, []byte{1})
		case 9:
			s.CreateAccount(who)
		}
	}
	zzverif.Reach("mutated")
	s.RevertToSnapshot(id)
	after := zzC09Observe(s, key)
	zzverif.Assert(zzC09Same(before, after), "revert restores every account observable")
	zzverif.Reach("end")
}

// ---- validator side ----

type zzC09ValObs struct {
	present                             bool
	role                                uint8
	status                              uint8
	token, stake, selfToken, selfStake  *big.Int
	ndlg                                int
	dlgToken, dlgStake                  *big.Int // of the harness delegator, if listed first
	dlgListed                           bool
}

type zzC09VObs struct {
	v          [4]zzC09ValObs
	stats      [6][4]*big.Int
	counts     [6][2]uint64
	qlen       int
	qnonce     [3]uint64
	dBal       *big.Int
	dCount     int
	indexLen   int
}

func zzC09ObserveVal(s *StateDB, d common.Address) zzC09VObs {
	var o zzC09VObs
	for i := 1; i <= 3; i++ {
		v := s.GetValidatorByMainAddr(zzValAddr(i))
		if v == nil {
			continue
		}
		vo := zzC09ValObs{present: true, role: uint8(v.Role), status: v.Status, token: new(big.Int).Set(v.Token), stake: new(big.Int).Set(v.Stake),
			selfToken: new(big.Int).Set(v.SelfToken), selfStake: new(big.Int).Set(v.SelfStake), ndlg: len(v.Delegations)}
		if len(v.Delegations) > 0 && v.Delegations[0] != nil {
			vo.dlgListed = v.Delegations[0].Delegator == d
			vo.dlgToken = new(big.Int).Set(v.Delegations[0].Token)
			vo.dlgStake = new(big.Int).Set(v.Delegations[0].Stake)
		}
		o.v[i] = vo
	}
	stat, _ := s.GetValidatorsStat()
	ks := []*ValKindStat{stat.GetByRole(params.RoleChancellor), stat.GetByRole(params.RoleSenator), stat.GetByRole(params.RoleHouse),
		stat.GetByKind(params.KindValidator), stat.GetByKind(params.KindChamber), stat.GetByKind(params.KindHouse)}
	for i, k := range ks {
		o.stats[i] = [4]*big.Int{k.GetOnlineStake(), k.GetOnlineToken(), k.GetOfflineStake(), k.GetOfflineToken()}
		o.counts[i] = [2]uint64{k.GetCount(), k.GetOfflineCount()}
	}
	q := s.GetWithdrawQueue()
	o.qlen = q.Len()
	for i := 0; i < q.Len() && i < 3; i++ {
		o.qnonce[i] = q.Records[i].Nonce
	}
	if obj := s.getStateObject(d); obj != nil {
		o.dBal = new(big.Int).Set(obj.DelegationBalance())
		o.dCount = obj.GetDelegationsCount()
	}
	o.indexLen = len(s.validatorIndex.List())
	return o
}

func zzC09BigSame(a, b *big.Int) bool {
	if a == nil || b == nil {
		return a == nil && b == nil
	}
	return a.Cmp(b) == 0
}

func zzC09SameVal(x, y zzC09VObs) bool {
	var oks []bool
	for i := 1; i <= 3; i++ {
		a, b := x.v[i], y.v[i]
		oks = append(oks, a.present == b.present)
		if a.present && b.present {
			oks = append(oks, a.role == b.role, a.status == b.status, zzC09BigSame(a.token, b.token), zzC09BigSame(a.stake, b.stake),
				zzC09BigSame(a.selfToken, b.selfToken), zzC09BigSame(a.selfStake, b.selfStake), a.ndlg == b.ndlg,
				a.dlgListed == b.dlgListed, zzC09BigSame(a.dlgToken, b.dlgToken), zzC09BigSame(a.dlgStake, b.dlgStake))
		}
	}
	for i := range x.stats {
		for j := range x.stats[i] {
			oks = append(oks, zzC09BigSame(x.stats[i][j], y.stats[i][j]))
		}
		oks = append(oks, x.counts[i] == y.counts[i])
	}
	oks = append(oks, x.qlen == y.qlen, x.qnonce == y.qnonce, zzC09BigSame(x.dBal, y.dBal), x.dCount == y.dCount, x.indexLen == y.indexLen)
	return zzverif.All(oks...)
}

// zzH_C09_validator: from an arbitrary two-validator state (with a delegation and
// withdraw records), one validator-side mutation followed by a revert restores every
// validator observable: records, delegations, statistics, index, queue, delegator side.
//
//verif:mode int
//verif:replace $M/rlp.EncodeToBytes zzEncodeStub
func zzH_C09_validator() {
	s, d := zzValState()
	// two withdraw records already queued by earlier transactions
	for i := 0; i < 2; i++ {
		s.AddWithdrawRecord(&WithdrawRecord{Operator: zzAddr(1), Validator: zzValAddr(1), Nonce: uint64(10 + i), CompletionHeight: zzverif.U64("rec.height"),
			InitialBalance: big.NewInt(5), FinalBalance: big.NewInt(5)})
	}
	s.Finalise(false)
	before := zzC09ObserveVal(s, d)
	id := s.Snapshot()
	switch zzverif.Choose("op", 6) {
	case 0:
		tok := zzverif.Big("n.token", 90)
		s.CreateValidator("n", zzAddr(3), zzAddr(3), zzRoles[zzverif.Choose("n.role", 3)], zzPub(3), zzPub(3), tok, params.YOUToStake(tok), 1, 0, 0, 1)
	case 1:
		cur := s.GetValidatorByMainAddr(zzValAddr(1))
		nv := cur.PartialCopy()
		st := zzverif.U8("u.status")
		zzverif.Assume(st <= 1)
		nv.Status = st
		add := zzverif.Big("u.add", 90)
		nv.SelfToken.Add(nv.SelfToken, add)
		nv.Token.Add(nv.Token, add)
		s.UpdateValidator(nv, cur)
	case 2:
		cur := s.GetValidatorByMainAddr(zzValAddr(1))
		delta := zzverif.Big("d.delta", 90)
		if zzverif.Bool("d.negative") {
			delta.Neg(delta)
			df := cur.GetDelegationFrom(d)
			if df == nil {
				zzverif.Assume(false)
			}
			zzverif.Assume(new(big.Int).Add(df.Token, delta).Sign() >= 0)
		}
		s.UpdateDelegation(d, cur, delta)
	case 3:
		s.AddWithdrawRecord(&WithdrawRecord{Operator: zzAddr(2), Validator: zzValAddr(2), Nonce: 77, CompletionHeight: zzverif.U64("new.height"),
			InitialBalance: big.NewInt(1), FinalBalance: big.NewInt(1)})
	case 4:
		s.RemoveWithdrawRecords([]int{zzverif.Choose("rm", 2)})
	case 5:
		s.RemoveValidator(zzValAddr(zzverif.Choose("rmval", 2) + 1))
	}
	zzverif.Reach("mutated")
	s.RevertToSnapshot(id)
	after := zzC09ObserveVal(s, d)
	zzverif.Assert(zzC09SameVal(before, after), "revert restores every validator-side observable")
	zzverif.Reach("end")
}
