package state

// C09 (committed view) — a reverted frame leaves no trace in what gets committed: a run
// with [snapshot, writes, revert] in the middle of a transaction and a twin run without them
// commit the same content (dirty tracking, deleted-object records and pending sets included,
// which the live getters alone do not show).  Uses the snapshot store of the C10 reopen harness.

import (
	"math/big"

	"github.com/youchainhq/go-youchain/params"

	"github.com/youchainhq/go-youchain/common"
	"github.com/youchainhq/go-youchain/zzverif"
)

//verif:mode int
//verif:replace $M/core/state.PubToAddress zzPubToAddress
//verif:replace $M/rlp.EncodeToBytes zzC10rEncode
//verif:replace $M/rlp.Encode zzC10rEncodeTo
//verif:replace $M/rlp.DecodeBytes zzC10rDecode
//verif:replace (*$M/rlp.Stream).Decode zzC10rStreamDecode
//verif:replace $M/rlp.Split zzC10rSplit
//verif:replace (*$M/trie.Database).InsertBlob zzC10rInsertBlob
//verif:replace (*$M/trie.Database).Node zzC10rNode
//verif:noop (*$M/trie.Database).Reference

type zzC09cOp struct {
	kind, who int
	val       uint8
	amt       *big.Int
	nonce     uint64
}

func zzC09cPick(tag string, narrow bool) zzC09cOp {
	var op zzC09cOp
	if narrow && !zzverif.Thorough() {
		// quick tier: writes outside the frame go to the persisted account
		op = zzC09cOp{kind: zzverif.Choose(tag+".op", 6)}
	} else {
		op = zzC09cOp{kind: zzverif.Choose(tag+".op", 6), who: zzverif.Choose(tag+".who", 2)}
	}
	switch op.kind {
	case 0:
		op.val = zzverif.U8(tag + ".slotValue")
	case 1:
		op.amt = zzverif.Big(tag+".amount", 64)
	case 2:
		op.nonce = zzverif.U64(tag + ".nonce")
	}
	return op
}

func zzC09cApply(s *StateDB, op zzC09cOp) {
	a := zzAddr(op.who)
	switch op.kind {
	case 0:
		var v common.Hash
		v[31] = op.val
		s.SetState(a, zzC10rKey, v)
	case 1:
		s.AddBalance(a, op.amt)
	case 2:
		s.SetNonce(a, op.nonce)
	case 3:
		s.SetCode(a, []byte{0x60, 0x02, 0x00})
	case 4:
		s.Suicide(a)
	case 5:
		s.CreateAccount(a)
	}
}

// account 0 is in the committed trie (balance, nonce, code, one slot); account 1 is not
func zzC09cBase() *StateDB {
	s := zzC10rNew()
	s.SetBalance(zzAddr(0), big.NewInt(5))
	s.SetNonce(zzAddr(0), 3)
	s.SetCode(zzAddr(0), []byte{0x60, 0x01})
	s.SetState(zzAddr(0), zzC10rKey, common.Hash{31: 0x2a})
	root, valRoot, stakingRoot, err := s.Commit(true)
	if err != nil {
		panic(err)
	}
	r, err := New(root, valRoot, stakingRoot, zzC10rDB)
	if err != nil {
		panic(err)
	}
	return r
}

func zzH_C09_committed() {
	earlier := zzC09cPick("earlierTx", true) // a write of an earlier transaction of the block
	endTx := zzverif.Bool("earlierTx.finalised")
	before := zzC09cPick("before", true) // a write of the current transaction before the frame
	n := zzverif.Bound("frameWrites", 1, 2)
	inner := make([]zzC09cOp, n)
	for i := range inner {
		inner[i] = zzC09cPick("frame", false)
	}

	run := func(withFrame bool) (zzC10rObs, zzC10rObs) {
		s := zzC09cBase()
		zzC09cApply(s, earlier)
		if endTx {
			s.Finalise(true)
		}
		zzC09cApply(s, before)
		if withFrame {
			id := s.Snapshot()
			for _, op := range inner {
				zzC09cApply(s, op)
			}
			s.RevertToSnapshot(id)
		}
		live := zzC10rObserve(s, false)
		root, valRoot, stakingRoot, err := s.Commit(true)
		zzverif.Assert(err == nil && s.Error() == nil, "commit succeeds")
		r, err := New(root, valRoot, stakingRoot, zzC10rDB)
		zzverif.Assert(err == nil, "the committed roots open")
		if err != nil {
			zzverif.Assume(false)
		}
		return live, zzC10rObserve(r, false)
	}
	liveA, comA := run(true)
	zzverif.Reach("frame-run")
	liveB, comB := run(false)
	zzverif.Assert(zzC10rSame(liveA, liveB, false), "a reverted frame leaves no trace in the live state")
	zzverif.Assert(zzC10rSame(comA, comB, false), "a reverted frame leaves no trace in the committed state")
	zzverif.Reach("end")
}

// ---- the same for the validator side ----

func zzC09cValOp(s *StateDB, kind, who int, amt *big.Int) {
	addr := zzValAddr(who)
	switch kind {
	case 0: // (re-)create
		if s.GetValidatorByMainAddr(addr) == nil {
			tok := new(big.Int).Mul(params.StakeUint, big.NewInt(2))
			s.CreateValidator("n", zzAddr(who), zzAddr(who), params.RoleHouse, zzPub(who), zzPub(who), tok, params.YOUToStake(tok), 1, 0, 0, params.ValidatorOnline)
		}
	case 1: // remove
		if s.GetValidatorByMainAddr(addr) != nil {
			s.RemoveValidator(addr)
		}
	case 2: // update
		if cur := s.GetValidatorByMainAddr(addr); cur != nil {
			nv := cur.PartialCopy()
			nv.SelfToken.Add(nv.SelfToken, amt)
			nv.Token.Add(nv.Token, amt)
			nv.Stake = params.YOUToStake(nv.Token)
			nv.SelfStake = params.YOUToStake(nv.SelfToken)
			s.UpdateValidator(nv, cur)
		}
	}
}

// zzH_C09_committed_val: validators 1 and 2 are in the committed validator trie; an earlier
// transaction of the block creates / removes / updates one of validators 1 and 3, then a frame
// does the same kind of thing and is reverted: live and committed validator-side content equal
// the twin run without the frame.
func zzH_C09_committed_val() {
	k1, w1 := zzverif.Choose("earlierTx.op", 3), []int{1, 3}[zzverif.Choose("earlierTx.validator", 2)]
	endTx := zzverif.Bool("earlierTx.finalised")
	k2, w2 := zzverif.Choose("frame.op", 3), []int{1, 3}[zzverif.Choose("frame.validator", 2)]
	a1, a2 := zzverif.Big("earlierTx.amount", 64), zzverif.Big("frame.amount", 64)
	run := func(withFrame bool) (zzC09VObs, zzC09VObs) {
		s := zzC10rNew()
		s.SetBalance(zzAddr(7), big.NewInt(1000))
		for i := 1; i <= 2; i++ {
			tok := new(big.Int).Mul(params.StakeUint, big.NewInt(int64(i)))
			s.CreateValidator("v", zzAddr(i), zzAddr(i), params.ValidatorRole(i), zzPub(i), zzPub(i), tok, params.YOUToStake(tok), 1, 0, 0, params.ValidatorOnline)
		}
		root, valRoot, stakingRoot, err := s.Commit(true)
		if err != nil {
			panic(err)
		}
		s, err = New(root, valRoot, stakingRoot, zzC10rDB)
		if err != nil {
			panic(err)
		}
		zzC09cValOp(s, k1, w1, a1)
		if endTx {
			s.Finalise(true)
		}
		if withFrame {
			id := s.Snapshot()
			zzC09cValOp(s, k2, w2, a2)
			s.RevertToSnapshot(id)
		}
		live := zzC09ObserveVal(s, zzAddr(7))
		root, valRoot, stakingRoot, err = s.Commit(true)
		zzverif.Assert(err == nil && s.Error() == nil, "commit succeeds")
		r, err := New(root, valRoot, stakingRoot, zzC10rDB)
		if err != nil {
			zzverif.Assume(false)
		}
		return live, zzC09ObserveVal(r, zzAddr(7))
	}
	liveA, comA := run(true)
	zzverif.Reach("frame-run")
	liveB, comB := run(false)
	zzverif.Assert(zzC09SameVal(liveA, liveB), "a reverted frame leaves no trace in the live validator state")
	zzverif.Assert(zzC09SameVal(comA, comB), "a reverted frame leaves no trace in the committed validator state")
	zzverif.Reach("end")
}
