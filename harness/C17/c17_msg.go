package core

// C17 (charging half) — preCheck / buyGas / intrinsic gas / refundGas through the
// real ApplyMessageEntry, with the converter's execution replaced by an arbitrary
// gas-monotone step.

import (
	"math/big"

	"github.com/youchainhq/go-youchain/common"
	"github.com/youchainhq/go-youchain/core/types"
	"github.com/youchainhq/go-youchain/params"
	"github.com/youchainhq/go-youchain/zzverif"
)

//verif:mode int
//verif:replace (*$M/core.DefaultConverter).ApplyMessage zzC17Apply

var zzC17ExecGas uint64

// the converter's execution: bumps the nonce (its contract), uses an arbitrary part of
// the available gas, may leave an arbitrary refund counter, and reports its gas use.
func zzC17Apply(d *DefaultConverter, msgCtx *MessageContext) ([]byte, uint64, bool, error) {
	msgCtx.State.SetNonce(msgCtx.Msg.From(), msgCtx.State.GetNonce(msgCtx.Msg.From())+1)
	use := zzverif.U64("exec.gas")
	zzverif.Assume(use <= msgCtx.AvailableGas)
	msgCtx.UseGas(use)
	zzC17ExecGas = use
	msgCtx.State.AddRefund(uint64(zzverif.U32("exec.refundCounter")))
	return nil, msgCtx.GasUsed(), zzverif.Bool("exec.failed"), nil
}

func zzH_C17_charge() {
	s := zzNewState()
	from := common.Address{1}
	to := common.Address{2}
	bal0 := zzverif.Big("balance", 128)
	nonce0 := zzverif.U64("account.nonce")
	zzverif.Assume(nonce0 < 1<<63)
	s.SetBalance(from, bal0)
	s.SetNonce(from, nonce0)
	s.Finalise(false)
	gp := new(GasPool).AddGas(zzverif.U64("pool"))
	pool0 := gp.Gas()
	price := zzverif.Big("price", 64)
	limit := zzverif.U64("gasLimit")
	data := zzverif.Bytes("data", zzverif.Choose("dataLen", zzverif.Bound("maxData", 3, 8)+1))
	msg := types.NewMessage(from, &to, zzverif.U64("tx.nonce"), new(big.Int), limit, price, data, true)
	p := &StateProcessor{defaultConverter: &DefaultConverter{}, txConverters: map[common.Address]TxConverter{}}
	header := &types.Header{Number: big.NewInt(1)}
	_, gasUsed, _, err := p.ApplyMessageEntry(msg, s, nil, header, &from, gp, nil, nil)

	// intrinsic gas by the specification: 21000 + 68 per non-zero byte + 4 per zero byte
	nz := uint64(0)
	for _, b := range data {
		if b != 0 {
			nz++
		}
	}
	intrinsic := params.TxGas + nz*params.TxDataNonZeroGas + (uint64(len(data))-nz)*params.TxDataZeroGas
	cost := new(big.Int).Mul(new(big.Int).SetUint64(limit), price)
	refusedUpFront := msg.Nonce() != nonce0 || bal0.Cmp(cost) < 0 || pool0 < limit
	if refusedUpFront {
		zzverif.Reach("refused")
		zzverif.Assert(err != nil, "wrong nonce, unaffordable gas or an exhausted block gas pool is refused")
		zzverif.Assert(s.GetBalance(from).Cmp(bal0) == 0 && s.GetNonce(from) == nonce0 && gp.Gas() == pool0, "a transaction refused up front changes nothing")
		return
	}
	if limit < intrinsic {
		zzverif.Reach("below-intrinsic")
		zzverif.Assert(err != nil, "a gas limit below the intrinsic cost is an error")
		return
	}
	zzverif.Reach("applied")
	zzverif.Assert(err == nil, "an acceptable transaction is applied")
	zzverif.Assert(s.GetNonce(from) == nonce0+1, "the nonce is raised by one")
	paid := new(big.Int).Sub(bal0, s.GetBalance(from))
	charged := pool0 - gp.Gas()
	zzverif.Assert(paid.Cmp(new(big.Int).Mul(new(big.Int).SetUint64(charged), price)) == 0, "the sender pays exactly charged gas times price")
	zzverif.Assert(charged <= limit, "never more than the gas limit is charged")
	before := intrinsic + zzC17ExecGas
	zzverif.Assert(charged <= before && charged >= before-before/2, "the refund is at most half of the gas used")
	// known finding: the gas used that is reported (and later multiplied into GasRewards and
	// written to the receipt) is computed before the refund, so it exceeds what was charged
	zzverif.AssertKF(gasUsed == charged, "reported gas used equals the gas the sender was charged for", "C17-prerefund-gasused", gasUsed > charged)
	zzverif.Assert(gasUsed >= intrinsic && gasUsed <= limit, "gas used lies between the intrinsic cost and the limit")
	zzverif.Reach("end")
}

// zzH_C17_intrinsic: IntrinsicGas against the specification incl. its overflow guard.
//
//verif:mode bv
func zzH_C17_intrinsic() {
	data := zzverif.Bytes("data", zzverif.Choose("dataLen", zzverif.Bound("maxData", 6, 16)+1))
	base := zzverif.U64("base")
	g, err := IntrinsicGas(base, data)
	nz := uint64(0)
	for _, b := range data {
		if b != 0 {
			nz++
		}
	}
	z := uint64(len(data)) - nz
	// the exact sum in 128 bits
	sum := new(big.Int).SetUint64(base)
	sum.Add(sum, new(big.Int).SetUint64(nz*params.TxDataNonZeroGas))
	sum.Add(sum, new(big.Int).SetUint64(z*params.TxDataZeroGas))
	if err == nil {
		zzverif.Reach("ok")
		zzverif.Assert(sum.IsUint64() && sum.Uint64() == g, "intrinsic gas = base + 68*nonzero + 4*zero without wrap-around")
	} else {
		zzverif.Reach("overflow")
		zzverif.Assert(new(big.Int).Add(sum, big.NewInt(68)).BitLen() > 64, "the overflow error is raised only near the top of the 64-bit range")
	}
	zzverif.Reach("end")
}

// zzH_C17_base_cost: the default converter's intrinsic gas starts from 53000 for every
// contract creation (no recipient) and from 21000 for every call, whatever the payload.
//
//verif:mode bv
func zzH_C17_base_cost() {
	data := zzverif.Bytes("data", zzverif.Choose("dataLen", 3))
	var to *common.Address
	if !zzverif.Bool("isCreation") {
		to = &common.Address{2}
	}
	g, err := (&DefaultConverter{}).IntrinsicGas(data, to)
	zzverif.Assert(err == nil, "small payloads never overflow")
	nz := uint64(0)
	for _, b := range data {
		if b != 0 {
			nz++
		}
	}
	want := uint64(21000)
	if to == nil {
		zzverif.Reach("creation")
		want = 53000
	}
	zzverif.Assert(g == want+params.TxDataNonZeroGas*nz+params.TxDataZeroGas*(uint64(len(data))-nz), "intrinsic gas = 21000 (call) / 53000 (creation) + the per-byte cost of the payload")
	zzverif.Reach("end")
}
