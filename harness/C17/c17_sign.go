package types

// C17 (authenticity half) — the signer's V / network-id arithmetic and signature
// value checks, with secp256k1 recovery and the RLP hash idealised.

import (
	"math/big"

	"github.com/youchainhq/go-youchain/common"
	"github.com/youchainhq/go-youchain/zzverif"
)

//verif:mode bv W=264
//verif:replace $M/crypto.Ecrecover zzC17Ecrecover
//verif:replace $M/core/types.rlpHash zzC17RlpHash

var (
	zzC17RecHash  []byte
	zzC17RecSig   []byte
	zzC17RecCalls int
)

// Ecrecover: records what reaches the curve and returns a well-formed public key
// that is a function of (hash, signature).
func zzC17Ecrecover(hash, sig []byte) ([]byte, error) {
	zzC17RecCalls++
	zzC17RecHash = append([]byte(nil), hash...)
	zzC17RecSig = append([]byte(nil), sig...)
	pub := make([]byte, 65)
	pub[0] = 4
	h := zzverif.InjUF("ecrecover", hash, sig)
	copy(pub[1:], h[:])
	return pub, nil
}

// rlpHash: an injective function of the hashed tuple.
func zzC17RlpHash(x interface{}) (h common.Hash) {
	list := x.([]interface{})
	return zzverif.InjUF("rlpHash", list...)
}

func zzC17Tx(tag string, dataLen int) *Transaction {
	to := common.Address{}
	copy(to[:], zzverif.Bytes(tag+".to", 20))
	tx := NewTransaction(zzverif.U64(tag+".nonce"), to, zzverif.Big(tag+".value", 128), zzverif.U64(tag+".gas"), zzverif.Big(tag+".price", 128), zzverif.Bytes(tag+".data", dataLen))
	return tx
}

// zzC17Full bounds the left-padding cases: at least one of r, s is a full 32-byte value
// (both being short at once is outside the claim).
func zzC17Full(r, s *big.Int) {
	top := new(big.Int).Lsh(big.NewInt(1), 248)
	if zzverif.Choose("fullLength", 2) == 0 {
		zzverif.Assume(r.Cmp(top) >= 0)
	} else {
		zzverif.Assume(s.Cmp(top) >= 0)
	}
}

var zzC17N, _ = new(big.Int).SetString("fffffffffffffffffffffffffffffffebaaedce6af48a03bbfd25e8cd0364141", 16)

// zzH_C17_sender_v: for every V and network id (r, s fixed to valid full-length
// values), Sender reaches key recovery only with the recovery id encoded by V for
// exactly this network.
func zzH_C17_sender_v() {
	id := uint64(zzverif.U32("networkId"))
	signer := NewYouSigner(id)
	tx := zzC17Tx("tx", 0)
	tx.data.V = zzverif.Big("V", 72)
	tx.data.R = new(big.Int).Lsh(big.NewInt(1), 250)
	tx.data.S = new(big.Int).Lsh(big.NewInt(1), 250)
	zzC17RecCalls = 0
	_, err := signer.Sender(tx)
	if zzC17RecCalls == 0 {
		zzverif.Reach("rejected")
		zzverif.Assert(err != nil, "a transaction that never reaches key recovery is rejected")
		return
	}
	zzverif.Reach("recovered")
	rec := zzC17RecSig[64]
	zzverif.Assert(rec == 0 || rec == 1, "recovery id is 0 or 1")
	want := new(big.Int).SetUint64(2*id + 35 + uint64(rec))
	zzverif.Assert(tx.data.V.Cmp(want) == 0, "V encodes exactly this network id and the recovery id")
	zzverif.Reach("end")
}

// zzH_C17_sender_rs: for every r, s (V valid for the network), recovery is reached only
// with low-s, in-range values, and sees exactly r and s.
func zzH_C17_sender_rs() {
	id := uint64(zzverif.U32("networkId"))
	signer := NewYouSigner(id)
	tx := zzC17Tx("tx", 0)
	rec := zzverif.U8("recid")
	zzverif.Assume(rec <= 1)
	tx.data.V = new(big.Int).SetUint64(2*id + 35 + uint64(rec))
	tx.data.R = zzverif.Big("R", 256)
	tx.data.S = zzverif.Big("S", 256)
	zzC17Full(tx.data.R, tx.data.S)
	zzC17RecCalls = 0
	_, err := signer.Sender(tx)
	half := new(big.Int).Rsh(zzC17N, 1)
	valid := tx.data.R.Sign() > 0 && tx.data.R.Cmp(zzC17N) < 0 && tx.data.S.Sign() > 0 && tx.data.S.Cmp(half) <= 0
	if zzC17RecCalls == 0 {
		zzverif.Reach("rs-rejected")
		zzverif.Assert(err != nil && !valid, "exactly the out-of-range / high-s values are rejected before recovery")
		return
	}
	zzverif.Reach("rs-recovered")
	zzverif.Assert(valid, "r in [1,N), s in [1,N/2]: high-s and out-of-range values never reach recovery")
	zzverif.Assert(zzC17RecSig[64] == rec, "recovery sees the recovery id")
	zzverif.Assert(new(big.Int).SetBytes(zzC17RecSig[:32]).Cmp(tx.data.R) == 0 && new(big.Int).SetBytes(zzC17RecSig[32:64]).Cmp(tx.data.S) == 0, "recovery sees exactly r and s")
	zzverif.Reach("end")
}

// zzH_C17_roundtrip: SignatureValues then Sender agree.
func zzH_C17_roundtrip() {
	id := uint64(zzverif.U32("networkId"))
	zzverif.Assume(id != 0)
	signer := NewYouSigner(id)
	tx := zzC17Tx("tx", 0)
	sig := zzverif.Bytes("sig", 65)
	zzverif.Assume(sig[64] <= 1)
	r, s, v, err := signer.SignatureValues(tx, sig)
	zzverif.Assert(err == nil, "SignatureValues accepts a 65-byte signature")
	zzC17Full(r, s)
	cpy := &Transaction{data: tx.data}
	cpy.data.R, cpy.data.S, cpy.data.V = r, s, v
	zzC17RecCalls = 0
	_, serr := signer.Sender(cpy)
	if serr == nil {
		zzverif.Reach("accepted")
		zzverif.Assert(zzC17RecCalls == 1, "recovery ran once")
		for i := 0; i < 65; i++ {
			zzverif.Assert(zzC17RecSig[i] == sig[i], "Sender hands recovery exactly the signature that was attached")
		}
		h := signer.Hash(tx)
		for i := range h {
			zzverif.Assert(zzC17RecHash[i] == h[i], "recovery is over the signing hash of the transaction")
		}
	} else {
		zzverif.Reach("high-s-or-zero")
	}
	zzverif.Reach("end")
}

// zzH_C17_hash: the signing hash binds every field and the network id.
func zzH_C17_hash() {
	n := zzverif.Choose("dataLen", zzverif.Bound("maxData", 3, 8)+1)
	a, b := zzC17Tx("a", n), zzC17Tx("b", n)
	ida, idb := uint64(zzverif.U32("idA")), uint64(zzverif.U32("idB"))
	ha, hb := NewYouSigner(ida).Hash(a), NewYouSigner(idb).Hash(b)
	if ha == hb {
		zzverif.Reach("equal-hash")
		same := a.data.AccountNonce == b.data.AccountNonce && a.data.Price.Cmp(b.data.Price) == 0 && a.data.GasLimit == b.data.GasLimit &&
			*a.data.Recipient == *b.data.Recipient && a.data.Amount.Cmp(b.data.Amount) == 0 && ida == idb
		zzverif.Assert(same, "equal signing hashes imply equal nonce, price, gas, recipient, value and network id")
		for i := 0; i < n; i++ {
			zzverif.Assert(a.data.Payload[i] == b.data.Payload[i], "equal signing hashes imply equal payload")
		}
	}
	zzverif.Reach("end")
}

// zzH_C17_sender_cache: the sender cache on a transaction object is transparent - whatever
// signers (network ids) the same object was asked about before, types.Sender answers what the
// signer itself derives: under another network id the transaction is rejected, never attributed
// to the sender cached for the network it was signed for.
func zzH_C17_sender_cache() {
	id1, id2 := uint64(zzverif.U32("networkId.first")), uint64(zzverif.U32("networkId.second"))
	tx := zzC17Tx("tx", 0)
	rec := zzverif.U8("recid")
	zzverif.Assume(rec <= 1)
	// signed for the first network
	tx.data.V = new(big.Int).SetUint64(2*id1 + 35 + uint64(rec))
	tx.data.R = new(big.Int).Lsh(big.NewInt(1), 250)
	tx.data.S = new(big.Int).Lsh(big.NewInt(1), 250)
	a1, e1 := Sender(NewYouSigner(id1), tx)
	zzverif.Assert(e1 == nil, "the home network derives a sender")
	a2, e2 := Sender(NewYouSigner(id2), tx)
	w2, we2 := NewYouSigner(id2).Sender(tx)
	zzverif.Assert((e2 == nil) == (we2 == nil) && (e2 != nil || a2 == w2), "a cached sender never stands in for another signer's answer")
	if id1 != id2 {
		zzverif.Reach("other-network")
		zzverif.Assert(e2 != nil, "under another network id the transaction is rejected")
	} else {
		zzverif.Reach("same-network")
		zzverif.Assert(e2 == nil && a2 == a1, "the same signer gets the same sender")
	}
	zzverif.Reach("end")
}
