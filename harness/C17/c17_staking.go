package staking

// C17 (staking transactions) — the staking module's converter meets the contract the
// charging harness (zzH_C17_charge) assumes of a converter: an accepted transaction raises
// the sender's nonce by exactly one whether its action succeeds or fails, and the gas it
// reports as used is the gas it consumed, so that what is credited as fee reward is what
// the sender ends up paying.  The action handlers are an arbitrary step (may use gas, may
// write state, may fail); the message decoding is an arbitrary outcome.

import (
	"errors"
	"math/big"

	"github.com/youchainhq/go-youchain/common"
	"github.com/youchainhq/go-youchain/core"
	"github.com/youchainhq/go-youchain/core/types"
	"github.com/youchainhq/go-youchain/core/vm"
	"github.com/youchainhq/go-youchain/params"
	"github.com/youchainhq/go-youchain/zzverif"
)

//verif:mode int
//verif:replace $M/rlp.DecodeBytes zzC17sDecode
//verif:replace $M/staking.getHandler zzC17sHandler

func zzC17sDecode(b []byte, out interface{}) error {
	if zzverif.Bool("decode.fails") {
		return errors.New("rlp: malformed")
	}
	m := out.(*Message)
	m.Action = ActionType(zzverif.U8("msg.action"))
	return nil
}

// an arbitrary action: uses an arbitrary part of the available gas, may write state, may fail
func zzC17sHandler(action ActionType) handlerFn {
	return func(ctx *core.MessageContext, payload []byte) error {
		use := zzverif.U64("handler.gas")
		if ctx.UseGas(use) != nil {
			zzverif.Reach("handler-out-of-gas")
			return vm.ErrOutOfGas
		}
		if zzverif.Bool("handler.writes") {
			ctx.State.AddBalance(common.Address{9}, big.NewInt(1))
		}
		if zzverif.Bool("handler.fails") {
			return errors.New("refused")
		}
		return nil
	}
}

func zzH_C17_staking() {
	s := zzNewState()
	from := common.Address{1}
	nonce0 := zzverif.U64("account.nonce")
	zzverif.Assume(nonce0 < 1<<63)
	s.SetNonce(from, nonce0)
	s.Finalise(false)
	ver := params.YouVersion(zzverif.Choose("protocolVersion", 2) + 4) // YouV4, YouV5
	cfg := &vm.Config{}
	cfg.CurrYouParams = &params.YouParams{Version: ver}
	initial, avail := zzverif.U64("initialGas"), zzverif.U64("availableGas")
	zzverif.Assume(avail <= initial) // the state after buyGas and the intrinsic gas
	to := params.StakingModuleAddress
	msg := types.NewMessage(from, &to, nonce0, new(big.Int), initial, big.NewInt(1), []byte{1}, true)
	ctx := &core.MessageContext{Msg: msg, State: s, InitialGas: initial, AvailableGas: avail, Cfg: cfg,
		Header: &types.Header{Number: big.NewInt(1)}, GP: new(core.GasPool)}
	_, used, failed, err := (&TxConverter{}).ApplyMessage(ctx)
	zzverif.Assert(err == nil, "a transaction addressed to the staking module is always accepted")
	if failed {
		zzverif.Reach("failed")
	} else {
		zzverif.Reach("succeeded")
	}
	zzverif.Assert(s.GetNonce(from) == nonce0+1, "an accepted staking transaction raises the sender's nonce by exactly one, failed or not")
	zzverif.Assert(ctx.AvailableGas <= avail && ctx.InitialGas == initial, "gas is only consumed")
	zzverif.Assert(used == ctx.InitialGas-ctx.AvailableGas, "the gas reported as used is the gas consumed")
	zzverif.Reach("end")
}
