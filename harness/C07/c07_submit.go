package staking

// C07 (staking actions at submission) — the submission-side handlers move tokens only by
// detaining exactly the submitted amount from the sender of a deposit or a new delegation;
// withdrawals, undelegations, updates, status changes and settle requests move nothing at
// submission (they take effect at the period end); a refused action changes no balance at all.  Together with zzH_C07_take_effect (which
// re-reads the same amount from the stored transaction) the round trip conserves tokens.

import (
	"math/big"

	"github.com/youchainhq/go-youchain/common"
	"github.com/youchainhq/go-youchain/core"
	"github.com/youchainhq/go-youchain/core/types"
	"github.com/youchainhq/go-youchain/core/vm"
	"github.com/youchainhq/go-youchain/params"
	"github.com/youchainhq/go-youchain/zzverif"
)

//verif:mode int
//verif:replace $M/core/state.PubToAddress zzPubToAddress
//verif:replace $M/rlp.EncodeToBytes zzC07Encode
//verif:replace $M/rlp.DecodeBytes zzC07sDecode
//verif:replace $M/staking.decodeTxDelegation zzC07tDelegation

func zzC07sDecode(b []byte, out interface{}) error {
	switch o := out.(type) {
	case *TxValidatorDeposit:
		o.MainAddress, o.Value = zzValAddr(1), new(big.Int).Set(zzC07tValue)
	case *TxValidatorWithdraw:
		o.MainAddress, o.Value, o.Recipient = zzValAddr(1), new(big.Int).Set(zzC07tValue), common.Address{0x11}
	case *TxUpdateValidator:
		*o = TxUpdateValidator{MainAddress: zzValAddr(1), Name: "renamed", OperatorAddress: common.Address{0x13}, Coinbase: common.Address{0x14},
			CommissionRate: zzverif.U16("upd.commission"), RiskObligation: zzverif.U16("upd.risk"), AcceptDelegation: zzverif.U16("upd.accept")}
	case *TxValidatorChangeStatus:
		o.MainAddress, o.Status = zzValAddr(1), zzverif.U8("newStatus")
	case *TxValidatorSettle:
		o.MainAddress = zzValAddr(1)
	}
	return nil
}

func zzH_C07_submit() {
	w := zzC07SetupX(false)
	s := w.s
	zzC07tValue = zzverif.Big("action.value", 80)
	zzverif.Assume(zzC07tValue.Sign() > 0)
	yp := &params.YouParams{}
	*yp = *w.cfg
	yp.MinDelegationTokens = zzverif.Big("cfg.minDelegationTokens", 70)
	maxStake := uint64(zzverif.U32("cfg.maxStake"))
	yp.MaxStakes = map[params.ValidatorRole]uint64{1: maxStake, 2: maxStake, 3: maxStake}
	yp.MinStakes = map[params.ValidatorRole]uint64{1: 0, 2: 0, 3: 0}
	yp.MinSelfStakes = map[params.ValidatorRole]uint64{1: 0, 2: 0, 3: 0}
	yp.SignatureRequired = map[params.ValidatorRole]bool{}
	yp.MaxDelegationForValidator, yp.MaxDelegationForDelegator = 10, 10
	action := zzverif.Choose("action", 7)
	from := common.Address{0x11} // operator of validator 1
	if action == 2 || action == 3 {
		from = zzC07Dlg
	}
	foreign := false
	if action >= 4 && zzverif.Bool("sentBySomebodyElse") {
		from, foreign = common.Address{0x12}, true // the operator of validator 2
	}
	s.SetBalance(from, zzverif.Big("sender.balance", 90))
	s.Finalise(false)
	cfg := &vm.Config{}
	cfg.CurrYouParams = yp
	msg := types.NewMessage(from, &params.StakingModuleAddress, 5, new(big.Int), 100000, big.NewInt(1), nil, true)
	ctx := &core.MessageContext{Msg: msg, State: s, Cfg: cfg, Header: &types.Header{Number: big.NewInt(100)}, GP: new(core.GasPool)}
	var before []*big.Int
	for _, a := range zzC07Accounts {
		before = append(before, new(big.Int).Set(s.GetBalance(a)))
	}
	senderBefore := new(big.Int).Set(s.GetBalance(from))
	var err error
	detains := false
	switch action {
	case 0:
		err, detains = handleDeposit(ctx, []byte{1}), true
		zzverif.Reach("deposit")
	case 1:
		err = handleWithdraw(ctx, []byte{1})
		zzverif.Reach("withdraw")
	case 2:
		err, detains = handleDelegationAdd(ctx, []byte{1}), true
		zzverif.Reach("delegation-add")
	case 3:
		err = handleDelegationSub(ctx, []byte{1})
		zzverif.Reach("delegation-sub")
	case 4:
		err = handleUpdate(ctx, []byte{1})
		zzverif.Reach("update")
	case 5:
		err = handleChangeStatus(ctx, []byte{1})
		zzverif.Reach("change-status")
	case 6:
		err = handleSettle(ctx, []byte{1})
		zzverif.Reach("settle")
	}
	if foreign {
		zzverif.Assert(err != nil, "only a validator's operator may update it, change its status or settle it")
	}
	want := new(big.Int).Set(senderBefore)
	if err == nil && detains {
		zzverif.Reach("detained")
		want.Sub(want, zzC07tValue)
		zzverif.Assert(senderBefore.Cmp(zzC07tValue) >= 0, "tokens are detained only from a sender that has them")
	}
	if err != nil {
		zzverif.Reach("refused")
	}
	zzverif.Assert(s.GetBalance(from).Cmp(want) == 0, "the sender is debited exactly the detained amount (nothing when refused, nothing for withdrawals)")
	for i, a := range zzC07Accounts {
		if a != from {
			zzverif.Assert(s.GetBalance(a).Cmp(before[i]) == 0, "no other account moves at submission")
		}
	}
	for i := 1; i <= 2; i++ {
		v := s.GetValidatorByMainAddr(zzValAddr(i))
		zzverif.Assert(v != nil, "submission does not remove a validator")
	}
	zzverif.Reach("end")
}
