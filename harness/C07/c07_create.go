package staking

// C07 (validator creation) — the deposit of a new validator is detained from its operator
// exactly once at submission (handleCreate) and becomes exactly the new validator's own
// tokens when the creation takes effect (teCreate); a refused creation moves nothing, and a
// second creation for a key that is already a validator or already pending is refused (its
// deposit would be detained and then dropped, CreateValidator refusing the duplicate).

import (
	"math/big"

	"github.com/youchainhq/go-youchain/common"
	"github.com/youchainhq/go-youchain/core"
	"github.com/youchainhq/go-youchain/core/types"
	"github.com/youchainhq/go-youchain/core/vm"
	"github.com/youchainhq/go-youchain/params"
	"github.com/youchainhq/go-youchain/zzverif"
)

//verif:mode int
//verif:replace $M/core/state.PubToAddress zzPubToAddress
//verif:replace $M/rlp.EncodeToBytes zzC07Encode
//verif:replace $M/rlp.DecodeBytes zzC07cDecode

var zzC07cTx *TxCreateValidator

func zzC07cDecode(b []byte, out interface{}) error {
	if o, ok := out.(*TxCreateValidator); ok {
		*o = *zzC07cTx
		o.Value = new(big.Int).Set(zzC07cTx.Value)
	}
	return nil
}

func zzC07cNewTx(tag string, op common.Address, second bool) *TxCreateValidator {
	if second { // a well-formed creation for the same fresh key by somebody else
		return &TxCreateValidator{Name: "w", OperatorAddress: op, Coinbase: common.Address{0x32}, MainPubKey: zzPub(3), BlsPubKey: []byte{2},
			Value: zzverif.Big(tag+".value", 80), Role: params.RoleHouse}
	}
	key := 3 // a fresh key
	if zzverif.Bool(tag + ".existingKey") {
		key = 1
	}
	tx := &TxCreateValidator{
		Name:             "v",
		OperatorAddress:  op,
		Coinbase:         common.Address{0x31},
		MainPubKey:       zzPub(key),
		BlsPubKey:        []byte{1},
		Value:            zzverif.Big(tag+".value", 80),
		CommissionRate:   zzverif.U16(tag + ".commission"),
		RiskObligation:   zzverif.U16(tag + ".risk"),
		AcceptDelegation: zzverif.U16(tag + ".accept"),
		Role:             params.ValidatorRole(zzverif.U8(tag + ".role")),
	}
	if zzverif.Bool(tag + ".foreignOperator") {
		tx.OperatorAddress = common.Address{0x12}
	}
	return tx
}

func zzH_C07_create() {
	w := zzC07SetupX(false)
	s := w.s
	yp := &params.YouParams{}
	*yp = *w.cfg
	minSelf, maxStake := uint64(zzverif.U16("cfg.minSelfStake")), uint64(zzverif.U32("cfg.maxStake"))
	yp.MinSelfStakes = map[params.ValidatorRole]uint64{1: minSelf, 2: minSelf, 3: minSelf}
	yp.MaxStakes = map[params.ValidatorRole]uint64{1: maxStake, 2: maxStake, 3: maxStake}
	yp.SignatureRequired = map[params.ValidatorRole]bool{}
	cfg := &vm.Config{}
	cfg.CurrYouParams = yp
	senders := []common.Address{{0x21}, {0x22}}
	s.SetBalance(senders[0], zzverif.Big("sender1.balance", 90))
	s.SetBalance(senders[1], zzverif.Big("sender2.balance", 90))
	s.Finalise(false)
	held := zzC07tHeld(s)

	var accepted []*TxCreateValidator
	n := 2
	for k := 0; k < n; k++ {
		from := senders[k]
		tag := "create1"
		if k == 1 {
			tag = "create2"
		}
		if k == 1 && len(accepted) == 0 {
			break // the second attempt only matters against a pending first one
		}
		tx := zzC07cNewTx(tag, from, k == 1)
		zzC07cTx = tx
		main := zzPubToAddress(tx.MainPubKey)
		msg := types.NewMessage(from, &params.StakingModuleAddress, 5, new(big.Int), 100000, big.NewInt(1), nil, true)
		ctx := &core.MessageContext{Msg: msg, State: s, Cfg: cfg, Header: &types.Header{Number: big.NewInt(100)}, GP: new(core.GasPool)}
		var before []*big.Int
		for _, a := range zzC07Accounts {
			before = append(before, new(big.Int).Set(s.GetBalance(a)))
		}
		pendingBefore := s.PendingValidatorExist(main)
		existsBefore := s.GetValidatorByMainAddr(main) != nil
		err := handleCreate(ctx, []byte{1})
		for i, a := range zzC07Accounts {
			want := before[i]
			if err == nil && a == from {
				want = new(big.Int).Sub(before[i], tx.Value)
			}
			zzverif.Assert(s.GetBalance(a).Cmp(want) == 0, "an accepted creation debits its sender exactly the deposit, nothing else moves; a refused one moves nothing")
		}
		if err != nil {
			zzverif.Assert(s.PendingValidatorExist(main) == pendingBefore, "a refused creation leaves no pending record")
			zzverif.Reach("refused")
			continue
		}
		zzverif.Reach("accepted")
		zzverif.Assert(!pendingBefore && !existsBefore, "no creation is accepted for a key that is already a validator or already pending")
		zzverif.Assert(tx.OperatorAddress == from && tx.Value.Sign() > 0 && before[indexOfAccount(from)].Cmp(tx.Value) >= 0, "only the operator creates, with a positive deposit it can pay")
		st := params.YOUToStake(tx.Value).Uint64()
		zzverif.Assert(params.CheckRole(tx.Role) && st >= minSelf && (maxStake == 0 || st <= maxStake), "role and self-stake limits of the protocol version")
		zzverif.Assert(s.PendingValidatorExist(main), "an accepted creation is pending")
		accepted = append(accepted, tx)
	}
	if len(accepted) == 2 {
		zzverif.Assert(false, "two creations for the one fresh key are never both accepted")
	}
	// the period ends: accepted creations take effect
	for _, tx := range accepted {
		zzC07cTx = tx
		msg := types.NewMessage(tx.OperatorAddress, &params.StakingModuleAddress, 5, new(big.Int), 100000, big.NewInt(1), nil, true)
		mctx := &messageContext{Msg: msg, State: s, Cfg: yp, Header: &types.Header{Number: big.NewInt(100)}, Receipt: &types.Receipt{}}
		err := teCreate(mctx, []byte{1})
		zzverif.Assert(err == nil, "a take-effect handler does not fail")
		v := s.GetValidatorByMainAddr(zzValAddr(3))
		zzverif.Assert(v != nil, "the validator exists after its creation took effect")
		if v != nil {
			zzverif.Assert(v.Token.Cmp(tx.Value) == 0 && v.SelfToken.Cmp(tx.Value) == 0 && v.Stake.Cmp(params.YOUToStake(tx.Value)) == 0, "the new validator's own tokens are exactly the detained deposit")
			zzverif.Assert(v.Status == params.ValidatorOffline && v.Role == tx.Role && v.OperatorAddress == tx.OperatorAddress && v.Coinbase == tx.Coinbase && len(v.Delegations) == 0, "created offline with the submitted role, operator and coinbase, no delegations")
		}
		zzverif.Reach("created")
	}
	// balances went down by exactly what the new validator holds
	now := zzC07tHeld(s)
	if v := s.GetValidatorByMainAddr(zzValAddr(3)); v != nil {
		now.Add(now, v.Token)
	}
	zzverif.Assert(now.Cmp(held) == 0, "balances + stakes + withdraw queue are conserved over submission and take-effect")
	zzverif.Reach("end")
}

func indexOfAccount(a common.Address) int {
	for i, x := range zzC07Accounts {
		if x == a {
			return i
		}
	}
	return 0
}
