package state

// C07 (flush) — tokens do not vanish when the state is flushed.  IntermediateRoot /
// Commit with deleteEmptyObjects drop "invalid" validators; the only validator that may
// be dropped is one that holds nothing (no tokens and no stake).  Arbitrary two-validator
// state (tokens from 0 up, also below one stake unit, optional delegation), one flush.

import (
	"math/big"

	"github.com/youchainhq/go-youchain/common"
	"github.com/youchainhq/go-youchain/params"
	"github.com/youchainhq/go-youchain/zzverif"
)

//verif:mode int
//verif:replace $M/rlp.EncodeToBytes zzC07fEncode
//verif:replace $M/core/state.PubToAddress zzPubToAddress

func zzC07fEncode(val interface{}) ([]byte, error) {
	if v, ok := val.(common.SortedAddresses); ok {
		return zzEncodeStub(v)
	}
	return []byte{1}, nil
}

func zzH_C07_flush() {
	s, _ := zzValState()
	var before [3]*big.Int
	for i := 1; i <= 2; i++ {
		v := s.GetValidatorByMainAddr(zzValAddr(i))
		zzverif.Assert(v != nil, "both validators exist before the flush")
		before[i] = new(big.Int).Set(v.Token)
	}
	s.IntermediateRoot(true)
	sum, n := new(big.Int), uint64(0)
	for i := 1; i <= 2; i++ {
		v := s.GetValidatorByMainAddr(zzValAddr(i))
		if before[i].Sign() > 0 {
			zzverif.Assert(v != nil && v.Token.Cmp(before[i]) == 0, "a validator that holds tokens survives the flush with all of them (also below one stake unit)")
			zzverif.Reach("kept")
		} else {
			zzverif.Assert(v == nil, "a validator that holds nothing is dropped by the flush")
			zzverif.Reach("dropped")
		}
		if v != nil {
			sum.Add(sum, v.Token)
			n++
		}
	}
	st, err := s.GetValidatorsStat()
	zzverif.Assert(err == nil, "statistics are readable")
	if err == nil {
		k := st.GetByKind(params.KindValidator)
		tok := new(big.Int).Add(k.GetOnlineToken(), k.GetOfflineToken())
		zzverif.Assert(tok.Cmp(sum) == 0 && k.GetCount()+k.GetOfflineCount() == n, "the statistics follow the flush: tokens and count of the surviving validators")
	}
	zzverif.Reach("end")
}
