package staking

// C07 (staking actions taking effect) — the four value-moving take-effect handlers
// (teDeposit, teWithdraw, teDelegationAdd, teDelegationSub; protocol version 5) and the two
// that must move nothing (teUpdate, teChangeStatus) conserve
// tokens: what was detained at submission joins the stake or is returned, what leaves the
// stake is exactly what the new withdraw record promises; and every validator's total stays
// the sum of its own and its delegators' tokens.

import (
	"math/big"

	"github.com/youchainhq/go-youchain/common"
	"github.com/youchainhq/go-youchain/core/state"
	"github.com/youchainhq/go-youchain/core/types"
	"github.com/youchainhq/go-youchain/params"
	"github.com/youchainhq/go-youchain/zzverif"
)

//verif:mode int
//verif:replace $M/core/state.PubToAddress zzPubToAddress
//verif:replace $M/rlp.EncodeToBytes zzC07Encode
//verif:replace $M/rlp.DecodeBytes zzC07tDecode
//verif:replace $M/staking.decodeTxDelegation zzC07tDelegation

var zzC07tValue *big.Int

func zzC07tDecode(b []byte, out interface{}) error {
	switch o := out.(type) {
	case **TxValidatorDeposit:
		(*o).MainAddress, (*o).Value = zzValAddr(1), new(big.Int).Set(zzC07tValue)
	case **TxValidatorWithdraw:
		(*o).MainAddress, (*o).Value, (*o).Recipient = zzValAddr(1), new(big.Int).Set(zzC07tValue), common.Address{0x11}
	case *TxUpdateValidator:
		*o = TxUpdateValidator{MainAddress: zzValAddr(1), Name: "renamed", OperatorAddress: common.Address{0x13}, CommissionRate: zzverif.U16("upd.commission"),
			RiskObligation: zzverif.U16("upd.risk"), AcceptDelegation: zzverif.U16("upd.accept")}
		if zzverif.Bool("upd.keepCoinbase") {
			o.Coinbase = common.Address{}
		} else {
			o.Coinbase = common.Address{0x14}
		}
	case **TxValidatorChangeStatus:
		(*o).MainAddress, (*o).Status = zzValAddr(1), zzverif.U8("newStatus")&1
	}
	return nil
}

func zzC07tDelegation(payload []byte) (*TxDelegation, error) {
	return &TxDelegation{Validator: zzValAddr(1), Value: new(big.Int).Set(zzC07tValue)}, nil
}

// staked tokens and what the withdraw queue still owes
func zzC07tHeld(s *state.StateDB) *big.Int {
	t := new(big.Int)
	for i := 1; i <= 2; i++ {
		if v := s.GetValidatorByMainAddr(zzValAddr(i)); v != nil {
			t.Add(t, v.Token)
		}
	}
	for _, rec := range s.GetWithdrawQueue().Records {
		if rec.Finished == 0 {
			t.Add(t, rec.FinalBalance)
		}
	}
	for _, a := range zzC07Accounts {
		t.Add(t, s.GetBalance(a))
	}
	return t
}

func zzH_C07_take_effect() {
	w := zzC07SetupX(false)
	s := w.s
	cfg := w.cfg
	cfg.MinDelegationTokens = zzverif.Big("cfg.minDelegationTokens", 70)
	cfg.WithdrawDelay = 10
	minStake, minSelf := uint64(zzverif.U16("cfg.minStake")), uint64(zzverif.U16("cfg.minSelfStake"))
	maxStake := uint64(zzverif.U32("cfg.maxStake"))
	cfg.MinStakes = map[params.ValidatorRole]uint64{1: minStake, 2: minStake, 3: minStake}
	cfg.MinSelfStakes = map[params.ValidatorRole]uint64{1: minSelf, 2: minSelf, 3: minSelf}
	cfg.MaxStakes = map[params.ValidatorRole]uint64{1: maxStake, 2: maxStake, 3: maxStake}
	zzC07tValue = zzverif.Big("action.value", 80)
	zzverif.Assume(zzC07tValue.Sign() > 0)
	action := zzverif.Choose("action", 6)
	from := common.Address{0x11} // operator of validator 1
	if action == 2 || action == 3 {
		from = zzC07Dlg
	}
	msg := types.NewMessage(from, &params.StakingModuleAddress, 5, new(big.Int), 100000, big.NewInt(1), nil, true)
	ctx := &messageContext{Msg: msg, State: s, Cfg: cfg, Header: &types.Header{Number: big.NewInt(100), CurrVersion: params.YouV5}, Receipt: &types.Receipt{}}
	v1Before := s.GetValidatorByMainAddr(zzValAddr(1)).DeepCopy()
	before := zzC07tHeld(s)
	detained := new(big.Int)
	var err error
	switch action {
	case 0:
		detained.Set(zzC07tValue) // taken from the sender when the deposit was submitted
		err = teDeposit(ctx, []byte{1})
		zzverif.Reach("deposit")
	case 1:
		err = teWithdraw(ctx, []byte{1})
		zzverif.Reach("withdraw")
	case 2:
		detained.Set(zzC07tValue)
		err = teDelegationAdd(ctx, []byte{1})
		zzverif.Reach("delegation-add")
	case 3:
		err = teDelegationSub(ctx, []byte{1})
		zzverif.Reach("delegation-sub")
	case 4:
		err = teUpdate(ctx, []byte{1})
		v := s.GetValidatorByMainAddr(zzValAddr(1))
		zzverif.Assert(v != nil && v.Token.Cmp(v1Before.Token) == 0 && v.Stake.Cmp(v1Before.Stake) == 0 && v.SelfToken.Cmp(v1Before.SelfToken) == 0 && v.Status == v1Before.Status && v.Role == v1Before.Role && len(v.Delegations) == len(v1Before.Delegations),
			"an update of name / operator / coinbase / rates moves no tokens, stake, status or delegation")
		zzverif.Reach("update")
	case 5:
		err = teChangeStatus(ctx, []byte{1})
		v := s.GetValidatorByMainAddr(zzValAddr(1))
		zzverif.Assert(v != nil && v.Token.Cmp(v1Before.Token) == 0 && v.Stake.Cmp(v1Before.Stake) == 0 && v.SelfToken.Cmp(v1Before.SelfToken) == 0 && len(v.Delegations) == len(v1Before.Delegations),
			"a status change moves no tokens, stake or delegation")
		zzverif.Assert(v.Status == v1Before.Status || v.Status == params.ValidatorOffline || v.Stake.Uint64() >= minStake, "nobody goes online below the role's minimum stake")
		zzverif.Reach("change-status")
	}
	zzverif.Assert(zzStatsFollow(s, 2), "the validator statistics are the recomputation from the records after the action took effect")
	zzverif.Assert(err == nil, "a take-effect handler does not fail")
	zzverif.Assert(zzC07tHeld(s).Cmp(new(big.Int).Add(before, detained)) == 0, "stake, withdraw queue and balances together change by exactly what was detained at submission")
	for i := 1; i <= 2; i++ {
		v := s.GetValidatorByMainAddr(zzValAddr(i))
		if v == nil {
			continue
		}
		tok := new(big.Int).Set(v.SelfToken)
		for _, df := range v.Delegations {
			tok.Add(tok, df.Token)
		}
		zzverif.Assert(v.Token.Cmp(tok) == 0 && v.SelfToken.Sign() >= 0, "a validator's tokens are its own plus its delegators'")
	}
	zzverif.Reach("end")
}
