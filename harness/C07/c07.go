package staking

// C07 — native tokens are conserved by the end-of-block value-moving kernels:
// one inductive step per kernel with a ghost sum over balances, validator reward
// accounts, role pools, the global residue, pending withdrawals and the fees collected
// by the block.

import (
	"math/big"

	"github.com/youchainhq/go-youchain/common"
	"github.com/youchainhq/go-youchain/core/state"
	"github.com/youchainhq/go-youchain/core/types"
	"github.com/youchainhq/go-youchain/local"
	"github.com/youchainhq/go-youchain/params"
	"github.com/youchainhq/go-youchain/zzverif"
)

//verif:mode int
//verif:replace $M/core/state.PubToAddress zzPubToAddress
//verif:replace $M/rlp.EncodeToBytes zzC07Encode

func zzC07Encode(val interface{}) ([]byte, error) { return []byte{1}, nil }

var (
	zzC07Pool     = common.Address{0xaa}
	zzC07Dlg      = common.Address{0x77}
	zzC07Accounts = []common.Address{{0xaa}, {0x77}, {0x11}, {0x12}, {0x21}, {0x22}}
)

// zzC07NoDlg: harnesses that do not depend on delegations may switch them off (quick tier of C06)
var zzC07NoDlg bool

type zzC07World struct {
	s      *state.StateDB
	cfg    *params.YouParams
	header *types.Header
	ctx    *context
	nval   int
}

// zzC07Setup: two validators (symbolic role, status, token, commission, accumulated
// rewards, last-settled round), validator 1 optionally with a delegation; symbolic pool
// balance, role pools and residue.
func zzC07Setup() *zzC07World { return zzC07SetupX(false) }

// minimal: roles, statuses and the delegation are fixed (for kernels that do not read them)
func zzC07SetupX(minimal bool) *zzC07World {
	s := zzNewState()
	s.SetBalance(zzC07Pool, zzverif.Big("pool.balance", 90))
	s.SetBalance(zzC07Dlg, new(big.Int))
	w := &zzC07World{s: s, nval: 2}
	for i := 1; i <= 2; i++ {
		tag := "v1"
		if i == 2 {
			tag = "v2"
		}
		role := params.ValidatorRole(zzverif.U8(tag + ".role"))
		zzverif.Assume(role >= 1 && role <= 3)
		status := zzverif.U8(tag + ".status")
		zzverif.Assume(status <= 1)
		if (i == 2 && !zzverif.Thorough()) || minimal {
			zzverif.Assume(role == params.RoleHouse && status == params.ValidatorOnline)
		}
		tok := zzverif.Big(tag+".token", 90)
		if status == params.ValidatorOnline {
			// business rule: an online validator holds at least its role's minimum stake (>= one stake unit)
			zzverif.Assume(tok.Cmp(params.StakeUint) >= 0)
		}
		commission := zzverif.U16(tag + ".commission")
		zzverif.Assume(commission <= params.CommissionRateBase)
		v := s.CreateValidator("v", common.Address{0x10 + byte(i)}, common.Address{0x10 + byte(i)}, role, zzPub(i), zzPub(i), tok, params.YOUToStake(tok), 1, commission, 0, status)
		nv := v.PartialCopy()
		nv.RewardsDistributable = zzverif.Big(tag+".rewards", 90)
		nv.RewardsTotal = new(big.Int).Set(nv.RewardsDistributable)
		nv.RewardsLastSettled = uint64(zzverif.U16(tag + ".lastSettled"))
		nv.Coinbase = common.Address{0x20 + byte(i)}
		s.UpdateValidator(nv, v)
	}
	if !minimal && !zzC07NoDlg && zzverif.Bool("withDelegation") {
		amt := zzverif.Big("dlg.token", 90)
		zzverif.Assume(amt.Sign() > 0)
		s.UpdateDelegation(zzC07Dlg, s.GetValidatorByMainAddr(zzValAddr(1)), amt)
	}
	stat, _ := s.GetValidatorsStat()
	for _, r := range []params.ValidatorRole{params.RoleChancellor, params.RoleSenator, params.RoleHouse} {
		stat.GetByRole(r).AddRewards(zzverif.Big("rolepool", 90))
	}
	stat.GetByKind(params.KindValidator).SetRewardsResidue(zzverif.Big("residue", 32))
	s.Finalise(false)
	cfg := &params.YouParams{}
	cfg.Version = params.YouV5
	cfg.RewardsPoolAddress = zzC07Pool
	cfg.SubsidyThreshold = uint64(zzverif.U32("subsidyThreshold"))
	cfg.SubsidyCoeff = 5
	cfg.RewardsDistRatio = map[params.ValidatorRole]uint64{params.RoleChancellor: 3, params.RoleSenator: 3, params.RoleHouse: 4}
	cfg.StakingTrieFrequency = 16
	cfg.MaxRewardsPeriod = 2
	cfg.WithdrawRecordRetention = 100
	w.cfg = cfg
	w.header = &types.Header{Number: new(big.Int).SetUint64(uint64(zzverif.U16("height"))), CurrVersion: params.YouV5, GasRewards: zzverif.Big("gasRewards", 70), Coinbase: zzValAddr(1)}
	w.ctx = &context{config: cfg, db: s, header: w.header, receipt: &types.Receipt{}, recorder: local.FakeRecorder()}
	return w
}

// sum: everything that holds value, except staked tokens (no kernel here moves them).
func (w *zzC07World) sum() *big.Int {
	t := new(big.Int)
	for _, a := range zzC07Accounts {
		t.Add(t, w.s.GetBalance(a))
	}
	for i := 1; i <= w.nval; i++ {
		if v := w.s.GetValidatorByMainAddr(zzValAddr(i)); v != nil {
			t.Add(t, v.RewardsDistributable)
		}
	}
	stat, _ := w.s.GetValidatorsStat()
	for _, r := range []params.ValidatorRole{params.RoleChancellor, params.RoleSenator, params.RoleHouse} {
		t.Add(t, stat.GetByRole(r).GetRewardsDistributable())
	}
	t.Add(t, stat.GetRewardResidue())
	for _, rec := range w.s.GetWithdrawQueue().Records {
		if rec.Finished == 0 {
			t.Add(t, rec.FinalBalance)
		}
	}
	return t
}

// zzH_C07_rewardsToPool: fees + subsidy + old residue = proposer reward + role pools + new residue.
func zzH_C07_rewardsToPool() {
	w := zzC07Setup()
	// the proposer is an online validator (it just proposed the block)
	zzverif.Assume(w.s.GetValidatorByMainAddr(zzValAddr(1)).IsOnline())
	before := new(big.Int).Add(w.sum(), w.header.GasRewards) // the block's fees were debited from the senders and are still undistributed
	poolBefore := new(big.Int).Set(w.s.GetBalance(zzC07Pool))
	fees := new(big.Int).Set(w.header.GasRewards)
	rewardsToPool(w.ctx)
	zzverif.Reach("distributed")
	// (the builder runs the hook on the header it then seals; the importing node compares the sealed
	// value with the fees it computed itself)
	zzverif.Assert(w.header.GasRewards.Cmp(fees) == 0, "the fee total in the header is an input of the end-of-block hook and is not changed by it")
	zzverif.Assert(w.sum().Cmp(before) == 0, "fees, subsidy and residue are fully accounted for by proposer reward, role pools and new residue")
	zzverif.Assert(new(big.Int).Sub(poolBefore, w.s.GetBalance(zzC07Pool)).Cmp(w.header.Subsidy) == 0 && w.header.Subsidy.Sign() >= 0, "the subsidy recorded in the header is exactly what left the rewards pool account")
	zzverif.Reach("end")
}

// zzH_C07_distribute: end-of-period distribution moves the role pools to the validators
// (and, when a settlement is due, on to coinbase and delegators) without loss.
func zzH_C07_distribute() {
	w := zzC07Setup()
	before := w.sum()
	v1, v2 := zzC07Due(w, 1), zzC07Due(w, 2)
	st := &Staking{}
	_, err := st.distributeRewards(w.ctx)
	if err != nil {
		return // no online stake at all
	}
	zzverif.Reach("distributed")
	// known finding: a validator that gets this period's rewards AND is due for a forced settlement
	// is settled from its stale record, whose final UpdateValidator overwrites the rewards just added
	zzverif.AssertKF(w.sum().Cmp(before) == 0, "rewards distributed to a validator are never lost by a settlement", "C07-forced-settle-loses-rewards", v1 || v2)
	zzverif.Reach("end")
}

// zzC07Due: validator i is online, receives rewards and is due for a forced settlement at this height.
func zzC07Due(w *zzC07World, i int) bool {
	v := w.s.GetValidatorByMainAddr(zzValAddr(i))
	cur := w.header.Number.Uint64()
	gap := w.cfg.MaxRewardsPeriod * w.cfg.StakingTrieFrequency
	return v != nil && v.IsOnline() && v.RewardsLastSettled < cur && v.RewardsLastSettled+gap <= cur
}

// zzH_C07_settle: settling a validator pays exactly its accumulated rewards (commission,
// per-stake shares, residue kept or paid) to coinbase and delegators.
func zzH_C07_settle() {
	w := zzC07Setup()
	before := w.sum()
	v := w.s.GetValidatorByMainAddr(zzValAddr(1))
	settleValidatorRewards(w.ctx, v, w.header.Number.Uint64())
	zzverif.Reach("settled")
	zzverif.Assert(w.sum().Cmp(before) == 0, "a settlement only moves value from the validator's reward account to coinbase and delegators")
	after := w.s.GetValidatorByMainAddr(zzValAddr(1))
	zzverif.Assert(after.RewardsDistributable.Sign() >= 0 && after.RewardsDistributable.Cmp(v.RewardsDistributable) <= 0, "the reward account never grows or goes negative in a settlement")
	zzverif.Reach("end")
}

// zzH_C07_withdraw: a matured withdrawal is paid exactly once.
func zzH_C07_withdraw() {
	w := zzC07SetupX(true)
	rcpt := common.Address{0x77}
	for i := 0; i < 2; i++ {
		fin := zzverif.U8("rec.finished")
		zzverif.Assume(fin <= 1)
		amt := zzverif.Big("rec.amount", 90)
		w.s.AddWithdrawRecord(&state.WithdrawRecord{Operator: common.Address{0x11}, Validator: zzValAddr(1), Recipient: rcpt, Nonce: uint64(i),
			CompletionHeight: uint64(zzverif.U16("rec.completion")), InitialBalance: new(big.Int).Set(amt), FinalBalance: amt, Finished: fin})
	}
	w.s.Finalise(false)
	before := w.sum()
	processWithdrawQueue(w.ctx)
	zzverif.Reach("processed")
	zzverif.Assert(w.sum().Cmp(before) == 0, "a released withdrawal moves exactly its final balance to the recipient")
	first := w.sum()
	// the next period: nothing is paid twice
	processWithdrawQueue(w.ctx)
	zzverif.Assert(w.sum().Cmp(first) == 0 && w.s.GetBalance(rcpt).Cmp(w.s.GetBalance(rcpt)) == 0, "a withdrawal is paid once")
	zzverif.Reach("end")
}
