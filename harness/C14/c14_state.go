package state

// C14 (custom codec pairs of the state types) — what Validator / ValidatorsStat (ValKindStat) /
// ValidatorIndex hand to the codec in EncodeRLP comes back, field for field, through DecodeRLP.
// The generic (reflective) codec between the two is the identity on the value it is handed
// (the stand-in of the C10 reopen harness); the custom methods run for real.

import (
	"math/big"

	"github.com/youchainhq/go-youchain/common"
	"github.com/youchainhq/go-youchain/params"
	"github.com/youchainhq/go-youchain/rlp"
	"github.com/youchainhq/go-youchain/zzverif"
)

//verif:mode int
//verif:replace $M/core/state.PubToAddress zzPubToAddress
//verif:replace $M/rlp.EncodeToBytes zzC10rEncode
//verif:replace $M/rlp.Encode zzC10rEncodeTo
//verif:replace $M/rlp.DecodeBytes zzC10rDecode
//verif:replace (*$M/rlp.Stream).Decode zzC10rStreamDecode

func zzH_C14_state_codecs() {
	zzC10rDB = &zzSnapDB{blobs: map[common.Hash][]byte{}}
	switch zzverif.Choose("type", 3) {
	case 0:
		v := NewValidator("n", zzAddr(1), zzAddr(2), params.ValidatorRole(1+zzverif.Choose("role", 3)), zzPub(1), zzPub(1),
			zzverif.Big("token", 80), zzverif.Big("stake", 40), uint16(zzverif.U16("accept")), uint16(zzverif.U16("commission")), uint16(zzverif.U16("risk")), zzverif.U8("status")&1)
		v.SelfToken, v.SelfStake = zzverif.Big("selfToken", 80), zzverif.Big("selfStake", 40)
		v.Expelled = zzverif.Bool("expelled")
		v.ExpelExpired, v.LastInactive, v.RewardsLastSettled = zzverif.U64("expelExpired"), zzverif.U64("lastInactive"), zzverif.U64("rewardsLastSettled")
		v.RewardsDistributable, v.RewardsTotal = zzverif.Big("rewardsDistributable", 80), zzverif.Big("rewardsTotal", 80)
		v.UpdateLastActive(zzverif.U64("lastActive"))
		if zzverif.Bool("withDelegation") {
			v.Delegations = append(v.Delegations, &DelegationFrom{Delegator: zzAddr(7), Token: zzverif.Big("dlg.token", 80), Stake: zzverif.Big("dlg.stake", 40)})
		}
		b, err := rlp.EncodeToBytes(v)
		zzverif.Assert(err == nil, "a validator record encodes")
		var out Validator
		zzverif.Assert(rlp.DecodeBytes(b, &out) == nil, "its encoding decodes")
		zzverif.Reach("validator")
		same := out.Name == v.Name && out.OperatorAddress == v.OperatorAddress && out.Coinbase == v.Coinbase && out.Role == v.Role && out.Status == v.Status &&
			out.Expelled == v.Expelled && out.ExpelExpired == v.ExpelExpired && out.LastInactive == v.LastInactive && out.RewardsLastSettled == v.RewardsLastSettled &&
			out.CommissionRate == v.CommissionRate && out.RiskObligation == v.RiskObligation && out.AcceptDelegation == v.AcceptDelegation &&
			out.Token.Cmp(v.Token) == 0 && out.Stake.Cmp(v.Stake) == 0 && out.SelfToken.Cmp(v.SelfToken) == 0 && out.SelfStake.Cmp(v.SelfStake) == 0 &&
			out.RewardsDistributable.Cmp(v.RewardsDistributable) == 0 && out.RewardsTotal.Cmp(v.RewardsTotal) == 0 &&
			out.LastActive() == v.LastActive() && out.MainAddress() == v.MainAddress() && len(out.Delegations) == len(v.Delegations)
		if same && len(v.Delegations) == 1 {
			same = out.Delegations[0].Delegator == v.Delegations[0].Delegator && out.Delegations[0].Token.Cmp(v.Delegations[0].Token) == 0 && out.Delegations[0].Stake.Cmp(v.Delegations[0].Stake) == 0
		}
		zzverif.Assert(same, "every field of a validator record survives its custom encode / decode pair")
	case 1:
		st := NewValidatorsStat()
		for _, k := range []*ValKindStat{st.GetByKind(params.KindValidator), st.GetByKind(params.KindChamber), st.GetByKind(params.KindHouse),
			st.GetByRole(params.RoleChancellor), st.GetByRole(params.RoleSenator), st.GetByRole(params.RoleHouse)} {
			k.onlineStake, k.onlineToken = zzverif.Big("onlineStake", 40), zzverif.Big("onlineToken", 80)
			k.offlineStake, k.offlineToken = zzverif.Big("offlineStake", 40), zzverif.Big("offlineToken", 80)
			k.onlineCount, k.offlineCount = zzverif.U64("onlineCount"), zzverif.U64("offlineCount")
			k.rewardsResidue, k.rewardsDistributable = zzverif.Big("residue", 40), zzverif.Big("rewards", 80)
		}
		b, err := rlp.EncodeToBytes(st)
		zzverif.Assert(err == nil, "the statistics encode")
		out := NewValidatorsStat()
		zzverif.Assert(rlp.DecodeBytes(b, out) == nil, "their encoding decodes")
		zzverif.Reach("stat")
		var oks []bool
		eq := func(a, b *ValKindStat) {
			oks = append(oks, a.onlineStake.Cmp(b.onlineStake) == 0, a.onlineToken.Cmp(b.onlineToken) == 0, a.offlineStake.Cmp(b.offlineStake) == 0,
				a.offlineToken.Cmp(b.offlineToken) == 0, a.onlineCount == b.onlineCount, a.offlineCount == b.offlineCount,
				a.rewardsResidue.Cmp(b.rewardsResidue) == 0, a.rewardsDistributable.Cmp(b.rewardsDistributable) == 0)
		}
		for _, k := range []params.ValidatorKind{params.KindValidator, params.KindChamber, params.KindHouse} {
			eq(st.GetByKind(k), out.GetByKind(k))
		}
		for _, r := range []params.ValidatorRole{params.RoleChancellor, params.RoleSenator, params.RoleHouse} {
			eq(st.GetByRole(r), out.GetByRole(r))
		}
		zzverif.Assert(zzverif.All(oks...), "every counter of every kind and role survives the statistics' custom encode / decode pairs")
	case 2:
		idx := NewValidatorIndex()
		n := zzverif.Choose("addresses", 4)
		for i := 0; i < n; i++ {
			idx.Add(common.Address{zzverif.U8("addr")})
		}
		b, err := rlp.EncodeToBytes(idx)
		zzverif.Assert(err == nil, "the index encodes")
		out := NewValidatorIndex()
		zzverif.Assert(rlp.DecodeBytes(b, out) == nil, "its encoding decodes")
		zzverif.Reach("index")
		la, lb := idx.List(), out.List()
		ok := len(la) == len(lb)
		for i := range la {
			ok = ok && i < len(lb) && la[i] == lb[i]
		}
		zzverif.Assert(ok, "the validator index survives its custom encode / decode pair")
	}
	_ = big.NewInt
	zzverif.Reach("end")
}
