package rlp

// C14 — the primitive RLP layer: every byte string up to N bytes through
// Split/SplitString/SplitList/CountValues/readKind/readSize and the Stream
// primitives; accept => canonical (re-encoding by an independently written
// Yellow-Paper oracle reproduces the consumed bytes), tiling, no panic,
// allocation bounded by the input.

import (
	"bytes"
	"math/big"
	"reflect"

	"github.com/youchainhq/go-youchain/zzverif"
)

//verif:mode bv

// zzC14Input returns a fully symbolic buffer whose length ranges over 0..N plus
// the windows around the short/long form boundary.
func zzC14Input(nq, nt int) []byte {
	n := zzverif.Bound("N", nq, nt)
	extra := []int{56, 57, 58, 59}
	if zzverif.Thorough() {
		extra = []int{56, 57, 58, 59, 60, 64, 65}
	}
	k := zzverif.Choose("len", n+1+len(extra))
	l := k
	if k > n {
		l = extra[k-n-1]
	}
	return zzverif.Bytes("b", l)
}

// zzC14BE is the minimal big-endian representation of a positive size (oracle).
func zzC14BE(x uint64) []byte {
	var out []byte
	started := false
	for i := 7; i >= 0; i-- {
		b := byte(x >> (8 * uint(i)))
		if b != 0 || started {
			started = true
			out = append(out, b)
		}
	}
	return out
}

// zzC14Header is the Yellow-Paper header of a string (list=false) or list of n content bytes.
func zzC14Header(list bool, n uint64) []byte {
	small, large := byte(0x80), byte(0xB7)
	if list {
		small, large = 0xC0, 0xF7
	}
	if n < 56 {
		return []byte{small + byte(n)}
	}
	be := zzC14BE(n)
	return append([]byte{large + byte(len(be))}, be...)
}

func zzH_C14_split() {
	buf := zzC14Input(12, 40)
	k, content, rest, err := Split(buf)
	if err != nil {
		zzverif.Reach("rejected")
		zzverif.Assert(len(rest) == len(buf), "on error the rest is the whole input")
		return
	}
	zzverif.Reach("accepted")
	consumed := len(buf) - len(rest)
	tag := consumed - len(content)
	zzverif.Assert(tag >= 0 && consumed >= 0 && consumed <= len(buf), "tag+content+rest tile the input")
	zzverif.Assert(bytes.Equal(content, buf[tag:consumed]), "content is the bytes after the header")
	zzverif.Assert(bytes.Equal(rest, buf[consumed:]), "rest is the bytes after the value")
	var enc []byte
	switch k {
	case Byte:
		zzverif.Reach("byte")
		zzverif.Assert(len(content) == 1 && tag == 0 && content[0] < 0x80, "Byte kind is one byte below 0x80")
		enc = []byte{content[0]}
	case String:
		zzverif.Reach("string")
		zzverif.Assert(!(len(content) == 1 && content[0] < 0x80), "a single byte below 0x80 is never accepted wrapped in a string header")
		enc = append(zzC14Header(false, uint64(len(content))), content...)
	case List:
		zzverif.Reach("list")
		enc = append(zzC14Header(true, uint64(len(content))), content...)
	default:
		zzverif.Assert(false, "kind is Byte, String or List")
	}
	zzverif.Assert(bytes.Equal(enc, buf[:consumed]), "accept => canonical: the oracle re-encoding equals the consumed bytes")
	if len(content) >= 56 {
		zzverif.Reach("long-form")
	}
	// the typed splitters agree with Split
	sc, sr, serr := SplitString(buf)
	zzverif.Assert((serr == nil) == (k != List), "SplitString accepts exactly non-lists")
	if serr == nil {
		zzverif.Assert(bytes.Equal(sc, content) && len(sr) == len(rest), "SplitString agrees with Split")
	}
	lc, lr, lerr := SplitList(buf)
	zzverif.Assert((lerr == nil) == (k == List), "SplitList accepts exactly lists")
	if lerr == nil {
		zzverif.Assert(bytes.Equal(lc, content) && len(lr) == len(rest), "SplitList agrees with Split")
	}
	zzverif.Reach("end")
}

// zzH_C14_count: CountValues = number of successive Splits, never panics.
func zzH_C14_count() {
	n := zzverif.Bound("Ncount", 4, 6)
	l := zzverif.Choose("len", n+1)
	buf := zzverif.Bytes("b", l)
	cnt, err := CountValues(buf)
	want := 0
	b := buf
	bad := false
	for len(b) > 0 {
		_, _, rest, e := Split(b)
		if e != nil {
			bad = true
			break
		}
		zzverif.Assert(len(rest) < len(b), "every accepted value consumes at least one byte")
		b = rest
		want++
	}
	if bad {
		zzverif.Reach("count-rejected")
		zzverif.Assert(err != nil && cnt == 0, "CountValues rejects when a value is malformed")
		return
	}
	zzverif.Reach("count-accepted")
	zzverif.Assert(err == nil && cnt == want, "CountValues counts the successive values")
	zzverif.Reach("end")
}

// zzH_C14_head: encoder side for every 64-bit size — puthead/headsize/intsize/putint
// against the oracle, and readSize/readKind accept exactly what puthead wrote.
func zzH_C14_head() {
	size := zzverif.U64("size")
	list := zzverif.Bool("list")
	small, large := byte(0x80), byte(0xB7)
	if list {
		small, large = 0xC0, 0xF7
	}
	buf := make([]byte, 9)
	n := puthead(buf, small, large, size)
	want := zzC14Header(list, size)
	zzverif.Assert(n == len(want) && bytes.Equal(buf[:n], want), "puthead writes the Yellow-Paper header")
	zzverif.Assert(headsize(size) == n, "headsize is the header length")
	if size >= 56 {
		zzverif.Reach("long")
		zzverif.Assert(intsize(size) == n-1, "intsize is the minimal byte count")
		s, err := readSize(buf[1:n], byte(n-1))
		zzverif.Assert(err == nil && s == size, "readSize inverts putint")
	}
	ib := make([]byte, 8)
	in := putint(ib, size)
	zzverif.Assert(bytes.Equal(ib[:in], zzC14BE(size)) || (size == 0 && in == 1 && ib[0] == 0), "putint is minimal big-endian")
	zzverif.Reach("end")
}

// zzH_C14_string_header: the encode buffer's own string-header writer (used by every
// byte-string and string field) for every length below 2^40.
func zzH_C14_string_header() {
	size := zzverif.U64("size")
	zzverif.Assume(size < 1<<40)
	w := &encbuf{sizebuf: make([]byte, 9)}
	w.encodeStringHeader(int(size))
	want := zzC14Header(false, size)
	zzverif.Assert(bytes.Equal(w.str, want), "encodeStringHeader writes the Yellow-Paper string header")
	if size >= 56 {
		s, err := readSize(w.str[1:], byte(len(w.str)-1))
		zzverif.Assert(err == nil && s == size, "the decoder's readSize accepts the header and returns the length")
	}
	zzverif.Reach("end")
}

// zzH_C14_stream: the Stream primitives over the same arbitrary input.
func zzH_C14_stream_bytes() { zzC14Stream(0, zzC14Input(8, 16)) }
func zzH_C14_stream_uint()  { zzC14Stream(1, zzC14Input(10, 12)) }
func zzH_C14_stream_raw()   { zzC14Stream(2, zzC14Input(8, 16)) }
func zzH_C14_stream_list() {
	n := zzverif.Bound("Nlist", 5, 7)
	zzC14Stream(3, zzverif.Bytes("b", zzverif.Choose("len", n+1)))
}

func zzC14Stream(op int, buf []byte) {
	k, content, rest, err := Split(buf)
	consumed := len(buf) - len(rest)
	s := NewStream(bytes.NewReader(buf), 0)
	zzverif.AllocReset()
	switch op {
	case 0: // Bytes
		b, berr := s.Bytes()
		zzverif.Assert(zzverif.AllocMax() <= len(buf)+8, "Stream.Bytes never allocates beyond the input size")
		if berr == nil {
			zzverif.Reach("bytes-ok")
			zzverif.Assert(err == nil && k != List && bytes.Equal(b, content), "Stream.Bytes returns exactly the canonical string content")
		} else if err == nil && k != List {
			zzverif.Assert(false, "Stream.Bytes rejects only what Split rejects (or lists)")
		}
	case 1: // Uint
		v, uerr := s.Uint()
		if uerr == nil {
			zzverif.Reach("uint-ok")
			var enc []byte
			switch {
			case v == 0:
				enc = []byte{0x80}
			case v < 0x80:
				enc = []byte{byte(v)}
			default:
				be := zzC14BE(v)
				enc = append([]byte{0x80 + byte(len(be))}, be...)
			}
			zzverif.Assert(len(enc) <= len(buf) && bytes.Equal(enc, buf[:len(enc)]), "accepted integers are canonical (no leading zero, no wrapped small byte)")
			zzverif.Assert(err == nil && consumed == len(enc), "Stream.Uint consumed what Split delimits")
		} else {
			zzverif.Reach("uint-rejected")
		}
	case 2: // Raw
		r, rerr := s.Raw()
		zzverif.Assert(zzverif.AllocMax() <= len(buf)+9, "Stream.Raw never allocates beyond the input size")
		if rerr == nil {
			zzverif.Reach("raw-ok")
			zzverif.Assert(len(r) <= len(buf) && bytes.Equal(r, buf[:len(r)]), "Stream.Raw returns exactly the consumed bytes")
			if err == nil {
				zzverif.Assert(len(r) == consumed, "Stream.Raw and Split agree on the value boundary")
			}
		}
	case 3: // List ... ListEnd
		size, lerr := s.List()
		if lerr == nil {
			zzverif.Reach("list-ok")
			zzverif.Assert(err == nil && k == List && size == uint64(len(content)), "Stream.List agrees with Split")
			// walk the elements with Raw until EOL; elements must tile the content
			total := 0
			for i := 0; i < 12; i++ {
				e, eerr := s.Raw()
				if eerr != nil {
					if eerr == EOL {
						zzverif.Reach("list-walked")
						zzverif.Assert(total == len(content), "list elements tile the list content")
						zzverif.Assert(s.ListEnd() == nil, "ListEnd succeeds at the end of the list")
					}
					break
				}
				total += len(e)
				zzverif.Assert(total <= len(content), "no element extends beyond its enclosing list")
			}
		}
	}
	zzverif.Reach("end")
}

// ---- the reflect-facing leaf decoders and writers (on a minimal reflect model) ----

// zzC14Enc runs a leaf writer and returns its bytes (no list heads are involved).
func zzC14Enc(f func(w *encbuf) error) []byte {
	w := &encbuf{sizebuf: make([]byte, 9)}
	if err := f(w); err != nil {
		return nil
	}
	return w.str
}

// zzH_C14_bigint: decodeBigInt accepts only the canonical encoding of a big integer:
// re-encoding the accepted value with the real writer reproduces the consumed bytes.
//
//verif:mode bv W=264
func zzH_C14_bigint() {
	buf := zzverif.Bytes("b", zzverif.Choose("len", zzverif.Bound("Nbig", 6, 12)+1))
	s := NewStream(bytes.NewReader(buf), 0)
	var x *big.Int
	err := decodeBigInt(s, reflect.ValueOf(&x).Elem())
	if err != nil {
		zzverif.Reach("bigint-rejected")
		return
	}
	zzverif.Reach("bigint-accepted")
	enc := zzC14Enc(func(w *encbuf) error { return writeBigInt(x, w) })
	zzverif.Assert(enc != nil && len(enc) <= len(buf) && bytes.Equal(enc, buf[:len(enc)]), "an accepted big integer re-encodes to exactly the consumed bytes (one encoding per value)")
	_, _, rest, serr := Split(buf)
	zzverif.Assert(serr == nil && len(buf)-len(rest) == len(enc), "decodeBigInt consumed exactly one value")
	zzverif.Reach("end")
}

// zzH_C14_uintleaf: decodeUint / writeUint on uint64 fields.
func zzH_C14_uintleaf() {
	buf := zzverif.Bytes("b", zzverif.Choose("len", zzverif.Bound("Nuint", 10, 10)+1))
	s := NewStream(bytes.NewReader(buf), 0)
	var u uint64
	err := decodeUint(s, reflect.ValueOf(&u).Elem())
	if err != nil {
		zzverif.Reach("uint-rejected")
		return
	}
	zzverif.Reach("uint-accepted")
	enc := zzC14Enc(func(w *encbuf) error { return writeUint(reflect.ValueOf(&u).Elem(), w) })
	zzverif.Assert(len(enc) <= len(buf) && bytes.Equal(enc, buf[:len(enc)]), "an accepted uint64 re-encodes to exactly the consumed bytes")
	zzverif.Reach("end")
}

// zzH_C14_byteslice: decodeByteSlice / decodeString / decodeBool and their writers.
func zzH_C14_byteslice() {
	buf := zzverif.Bytes("b", zzverif.Choose("len", zzverif.Bound("Nbytes", 6, 10)+1))
	switch zzverif.Choose("leaf", 3) {
	case 0:
		var bs []byte
		if decodeByteSlice(NewStream(bytes.NewReader(buf), 0), reflect.ValueOf(&bs).Elem()) == nil {
			zzverif.Reach("bytes-accepted")
			enc := zzC14Enc(func(w *encbuf) error { return writeBytes(reflect.ValueOf(&bs).Elem(), w) })
			zzverif.Assert(len(enc) <= len(buf) && bytes.Equal(enc, buf[:len(enc)]), "an accepted byte string re-encodes to exactly the consumed bytes")
		}
	case 1:
		var str string
		if decodeString(NewStream(bytes.NewReader(buf), 0), reflect.ValueOf(&str).Elem()) == nil {
			zzverif.Reach("string-accepted")
			enc := zzC14Enc(func(w *encbuf) error { return writeString(reflect.ValueOf(&str).Elem(), w) })
			zzverif.Assert(len(enc) <= len(buf) && bytes.Equal(enc, buf[:len(enc)]), "an accepted string re-encodes to exactly the consumed bytes")
		}
	case 2:
		var b bool
		if decodeBool(NewStream(bytes.NewReader(buf), 0), reflect.ValueOf(&b).Elem()) == nil {
			zzverif.Reach("bool-accepted")
			enc := zzC14Enc(func(w *encbuf) error { return writeBool(reflect.ValueOf(&b).Elem(), w) })
			zzverif.Assert(len(enc) == 1 && enc[0] == buf[0], "an accepted bool re-encodes to exactly the consumed byte")
		}
	}
	zzverif.Reach("end")
}

// ---- pointer fields tagged rlp:"nil" (Transaction.Recipient on the wire) ----

// the element's type information: a uint64 leaf (the generic type cache is outside the model)
//
//verif:replace $M/rlp.cachedTypeInfo1 zzC14UintInfo
func zzC14UintInfo(typ reflect.Type, t tags) (*typeinfo, error) {
	return &typeinfo{decoder: decodeUint, writer: writeUint}, nil
}

// zzH_C14_optptr: the decoder of an optional pointer accepts only canonical input: the
// accepted value (nil or an element) re-encodes to exactly the consumed bytes.
//
//verif:replace $M/rlp.cachedTypeInfo1 zzC14UintInfo
func zzH_C14_optptr() {
	buf := zzverif.Bytes("b", zzverif.Choose("len", zzverif.Bound("Noptptr", 4, 10)+1))
	var p *uint64
	dec, derr := makeOptionalPtrDecoder(reflect.TypeOf(p))
	if derr != nil {
		zzverif.Assume(false)
	}
	err := dec(NewStream(bytes.NewReader(buf), 0), reflect.ValueOf(&p).Elem())
	if err != nil {
		zzverif.Reach("optptr-rejected")
		return
	}
	var enc []byte
	if p == nil {
		zzverif.Reach("optptr-nil")
		enc = []byte{0x80} // what the encoder writes for a nil pointer to a non-list type
	} else {
		zzverif.Reach("optptr-value")
		enc = zzC14Enc(func(w *encbuf) error { return writeUint(reflect.ValueOf(p).Elem(), w) })
	}
	// known finding: the empty LIST (0xC0) is accepted as nil as well, for every element type
	emptyList := len(buf) > 0 && buf[0] == 0xC0 && p == nil
	zzverif.AssertKF(len(enc) <= len(buf) && bytes.Equal(enc, buf[:len(enc)]), "an accepted optional pointer re-encodes to exactly the consumed bytes (one encoding per value)", "C14-nil-tag-accepts-empty-list", emptyList)
	zzverif.Reach("end")
}

// zzH_C14_stream_sequence: two unsigned integers read one after the other from ONE stream
// (the stream keeps a scratch buffer between reads): each comes back as itself, whatever
// the other was - in particular a short integer after a full 8-byte one.
func zzH_C14_stream_sequence() {
	enc := func(x uint64) []byte {
		if x == 0 {
			return []byte{0x80}
		}
		if x < 0x80 {
			return []byte{byte(x)}
		}
		be := zzC14BE(x)
		return append([]byte{0x80 + byte(len(be))}, be...)
	}
	x, y := zzverif.U64("first"), zzverif.U64("second")
	in := append(enc(x), enc(y)...)
	s := NewStream(bytes.NewReader(in), uint64(len(in)))
	gx, err1 := s.Uint()
	gy, err2 := s.Uint()
	zzverif.Assert(err1 == nil && gx == x, "the first integer of a stream decodes to itself")
	zzverif.Assert(err2 == nil && gy == y, "the second integer of the same stream decodes to itself, whatever was read before it")
	zzverif.Reach("end")
}
