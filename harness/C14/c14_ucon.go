package ucon

// C14 (consensus message entry points) — the byte strings the consensus layer accepts from
// peers and from headers are exactly one RLP value each: no trailing bytes ride along (they
// would be outside the signature and make one signed message many gossip payloads).  The codec's
// two entry points are modelled by their documented contracts on top of the real rlp.Split
// (whose canonicity is decided in the primitive layer): DecodeBytes takes the whole input,
// Decode(io.Reader) takes the first value and leaves the rest; the decoded content is arbitrary.

import (
	"bytes"
	"errors"
	"io"

	"github.com/youchainhq/go-youchain/core/types"
	"github.com/youchainhq/go-youchain/rlp"
	"github.com/youchainhq/go-youchain/zzverif"
)

//verif:mode bv
//verif:replace $M/rlp.DecodeBytes zzC14uDecodeBytes
//verif:replace $M/rlp.Decode zzC14uDecodeStream

func zzC14uOne(b []byte, whole bool) error {
	_, _, rest, err := rlp.Split(b)
	if err != nil {
		return err
	}
	if whole && len(rest) > 0 {
		return rlp.ErrMoreThanOneValue
	}
	if zzverif.Bool("valueDoesNotFitTheType") {
		return errors.New("rlp: wrong shape for the target type")
	}
	return nil
}

func zzC14uDecodeBytes(b []byte, val interface{}) error { return zzC14uOne(b, true) }

func zzC14uDecodeStream(r io.Reader, val interface{}) error {
	br, ok := r.(*bytes.Reader)
	if !ok {
		return errors.New("harness: unexpected reader")
	}
	b := make([]byte, br.Len())
	br.Read(b)
	return zzC14uOne(b, false)
}

func zzC14uExact(b []byte) bool {
	_, _, rest, err := rlp.Split(b)
	return err == nil && len(rest) == 0
}

func zzH_C14_ucon_entry() {
	b := zzverif.Bytes("wire", zzverif.Choose("len", zzverif.Bound("NuconWire", 5, 8)+1))
	switch zzverif.Choose("entry", 3) {
	case 0: // a consensus message from a peer (MessageHandler.HandleMsg starts here)
		if _, err := Decode(b); err == nil {
			zzverif.Reach("message-accepted")
			zzverif.Assert(zzC14uExact(b), "an accepted consensus message is exactly one RLP value")
		}
	case 1: // its payload
		m := &Message{Payload: b}
		var v BlockHashWithVotes
		if m.DecodePayload(&v) == nil {
			zzverif.Reach("payload-accepted")
			zzverif.Assert(zzC14uExact(b), "an accepted message payload is exactly one RLP value")
		}
	case 2: // the consensus field of a header
		if _, err := ExtractConsensusData(&types.Header{Consensus: b}); err == nil {
			zzverif.Reach("consensus-field-accepted")
			zzverif.Assert(zzC14uExact(b), "an accepted header consensus field is exactly one RLP value")
		}
	}
	zzverif.Reach("end")
}
