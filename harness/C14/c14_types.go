package types

// C14 (custom codec pairs of the chain types) — what ReceiptForStorage, Receipt and
// LogForStorage hand to the codec in EncodeRLP comes back, field for field and log for log,
// through DecodeRLP.  The generic (reflective) codec between the two methods is the
// identity on the value it is handed (kept as a deep copy; stated assumption, the byte
// level is the primitive layer's subject); the custom methods run for real.

import (
	"bytes"
	"io"

	"github.com/youchainhq/go-youchain/common"
	"github.com/youchainhq/go-youchain/rlp"
	"github.com/youchainhq/go-youchain/zzverif"
)

//verif:mode bv
//verif:replace $M/rlp.Encode zzC14tEncode
//verif:replace (*$M/rlp.Stream).Decode zzC14tDecode

var zzC14tObj interface{}

func zzC14tEncode(w io.Writer, val interface{}) error {
	zzC14tObj = zzverif.DeepCopy(val)
	return nil
}

func zzC14tDecode(s *rlp.Stream, out interface{}) error {
	zzverif.Restore(out, zzC14tObj)
	return nil
}

func zzC14tLog(tag string) *Log {
	l := &Log{Address: common.Address{zzverif.U8(tag + ".address")}, Data: []byte{zzverif.U8(tag + ".data")}, BlockNumber: zzverif.U64(tag + ".blockNumber"),
		TxHash: common.Hash{zzverif.U8(tag + ".txHash")}, TxIndex: uint(zzverif.U16(tag + ".txIndex")), BlockHash: common.Hash{zzverif.U8(tag + ".blockHash")}, Index: uint(zzverif.U16(tag + ".index"))}
	if zzverif.Bool(tag + ".withTopic") {
		l.Topics = []common.Hash{{zzverif.U8(tag + ".topic")}}
	}
	return l
}

func zzC14tSameLog(a, b *Log, storage bool) bool {
	ok := a != nil && b != nil && a.Address == b.Address && bytes.Equal(a.Data, b.Data) && len(a.Topics) == len(b.Topics)
	if ok && len(a.Topics) == 1 {
		ok = a.Topics[0] == b.Topics[0]
	}
	if ok && storage {
		ok = a.BlockNumber == b.BlockNumber && a.TxHash == b.TxHash && a.TxIndex == b.TxIndex && a.BlockHash == b.BlockHash && a.Index == b.Index
	}
	return ok
}

func zzH_C14_receipt_codecs() {
	nlogs := zzverif.Choose("logs", 4)
	r := &Receipt{CumulativeGasUsed: zzverif.U64("cumulativeGasUsed"), GasUsed: zzverif.U64("gasUsed"), TxHash: common.Hash{zzverif.U8("txHash")},
		ContractAddress: common.Address{zzverif.U8("contract")}, Bloom: Bloom{zzverif.U8("bloom")}}
	if zzverif.Bool("failed") {
		r.Status = ReceiptStatusFailed
	} else {
		r.Status = ReceiptStatusSuccessful
	}
	for i := 0; i < nlogs; i++ {
		r.Logs = append(r.Logs, zzC14tLog("log"))
	}
	switch zzverif.Choose("codec", 3) {
	case 0: // the database encoding
		zzverif.Assert((*ReceiptForStorage)(r).EncodeRLP(nil) == nil, "a receipt encodes for storage")
		var out ReceiptForStorage
		zzverif.Assert(out.DecodeRLP(nil) == nil, "and decodes")
		same := out.Status == r.Status && out.CumulativeGasUsed == r.CumulativeGasUsed && out.GasUsed == r.GasUsed && out.TxHash == r.TxHash &&
			out.ContractAddress == r.ContractAddress && out.Bloom == r.Bloom && len(out.Logs) == nlogs
		zzverif.Assert(same, "every field of a stored receipt survives its custom encode / decode pair")
		if same {
			for i := range r.Logs {
				zzverif.Assert(zzC14tSameLog(out.Logs[i], r.Logs[i], true), "every log of a stored receipt comes back as itself, in its position")
			}
		}
		zzverif.Reach("storage")
	case 1: // the consensus encoding
		zzverif.Assert(r.EncodeRLP(nil) == nil, "a receipt encodes")
		var out Receipt
		zzverif.Assert(out.DecodeRLP(nil) == nil, "and decodes")
		same := out.Status == r.Status && out.CumulativeGasUsed == r.CumulativeGasUsed && out.Bloom == r.Bloom && len(out.Logs) == nlogs
		zzverif.Assert(same, "the consensus fields of a receipt survive its custom encode / decode pair")
		if same {
			for i := range r.Logs {
				zzverif.Assert(zzC14tSameLog(out.Logs[i], r.Logs[i], false), "every log of a receipt comes back as itself, in its position")
			}
		}
		zzverif.Reach("consensus")
	case 2: // one stored log
		l := zzC14tLog("single")
		zzverif.Assert((*LogForStorage)(l).EncodeRLP(nil) == nil, "a log encodes for storage")
		var out LogForStorage
		zzverif.Assert(out.DecodeRLP(nil) == nil, "and decodes")
		zzverif.Assert(zzC14tSameLog((*Log)(&out), l, true), "every field of a stored log survives its custom encode / decode pair")
		zzverif.Reach("log")
	}
	zzverif.Reach("end")
}
