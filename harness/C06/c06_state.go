package state

// C06 — executing a block depends on the block and its parent state only, not on what
// this process happened to execute before.  The state database shared by all blocks of
// a process keeps a code-size cache (an LRU, so entries also vanish at arbitrary
// moments); the harness runs the real cachingDB.ContractCode / ContractCodeSize through
// every short history of requests over a content-addressed code store and requires
// every answer to be the store's answer for the requested code hash.

import (
	"errors"

	lru "github.com/hashicorp/golang-lru"
	"github.com/youchainhq/go-youchain/common"
	"github.com/youchainhq/go-youchain/trie"
	"github.com/youchainhq/go-youchain/zzverif"
)

//verif:mode bv W=264
//verif:replace (*github.com/hashicorp/golang-lru.Cache).Add zzC06sAdd
//verif:replace (*github.com/hashicorp/golang-lru.Cache).Get zzC06sGet
//verif:replace (*$M/trie.Database).Node zzC06sNode

type zzC06sEntry struct {
	key common.Hash
	val interface{}
}

var zzC06sCache []zzC06sEntry

func zzC06sAdd(c *lru.Cache, key, value interface{}) bool {
	k := key.(common.Hash)
	for i := range zzC06sCache {
		if zzC06sCache[i].key == k {
			zzC06sCache[i].val = value
			return false
		}
	}
	zzC06sCache = append(zzC06sCache, zzC06sEntry{k, value})
	return false
}

// an LRU may have evicted any entry: a hit can always be a miss
func zzC06sGet(c *lru.Cache, key interface{}) (interface{}, bool) {
	k := key.(common.Hash)
	for i := range zzC06sCache {
		if zzC06sCache[i].key == k {
			if zzverif.Bool("evicted") {
				return nil, false
			}
			return zzC06sCache[i].val, true
		}
	}
	return nil, false
}

// the node store is content addressed: what a hash names never changes while it is there
func zzC06sLen(h common.Hash) int { return int(zzverif.UF("codeLen", h) & 3) }

func zzC06sNode(db *trie.Database, h common.Hash) ([]byte, error) {
	if zzverif.UFBool("codeMissing", h) {
		return nil, errors.New("not found")
	}
	return make([]byte, zzC06sLen(h)), nil
}

func zzC06sHash(name string) common.Hash {
	return common.Hash{0xC0, zzverif.U8(name) & 1}
}

func zzH_C06_code_cache() {
	zzC06sCache = nil
	db := &cachingDB{codeSizeCache: &lru.Cache{}}
	n := zzverif.Bound("codeRequests", 3, 4)
	for k := 0; k < n; k++ {
		addrHash, codeHash := zzC06sHash("account"), zzC06sHash("codeHash")
		missing := zzverif.UFBool("codeMissing", codeHash)
		if zzverif.Bool("sizeOnly") {
			sz, err := db.ContractCodeSize(addrHash, codeHash)
			if missing {
				// (a size cached while the code was there may still be served: content addressed)
				zzverif.Assert(err != nil || sz == zzC06sLen(codeHash), "absent code has no other size than its own")
				continue
			}
			zzverif.Assert(err == nil && sz == zzC06sLen(codeHash), "the size answered is the size of the code this hash names, whatever was asked before")
			zzverif.Reach("size")
		} else {
			code, err := db.ContractCode(addrHash, codeHash)
			zzverif.Assert((err != nil) == missing && (missing || len(code) == zzC06sLen(codeHash)), "the code answered is the code this hash names")
		}
	}
	zzverif.Reach("end")
}
