package trie

// C06 — what a block's execution reads must be in the database, not only in this process's
// memory.  The end-of-period staking pass resolves hashed staking-trie keys through the
// secure trie's key preimages (SecureTrie.GetKey); a node restarted since the key was
// written only has what trie.Database.Commit made durable.  After any history of preimage
// insertions and commits, a database reopened on the same disk returns every preimage
// inserted before the last successful Commit.

import (
	"bytes"
	"errors"

	"github.com/youchainhq/go-youchain/common"
	"github.com/youchainhq/go-youchain/youdb"
	"github.com/youchainhq/go-youchain/zzverif"
)

//verif:mode bv

type zzC06tDisk struct {
	youdb.Database
	m map[string][]byte
}

func (d *zzC06tDisk) Put(k, v []byte) error {
	d.m[string(k)] = append([]byte(nil), v...)
	return nil
}
func (d *zzC06tDisk) Get(k []byte) ([]byte, error) {
	if v, ok := d.m[string(k)]; ok {
		return v, nil
	}
	return nil, errors.New("not found")
}
func (d *zzC06tDisk) Has(k []byte) (bool, error) { _, ok := d.m[string(k)]; return ok, nil }
func (d *zzC06tDisk) NewBatch() youdb.Batch      { return &zzC06tBatch{d: d} }

type zzC06tKV struct{ k, v []byte }

type zzC06tBatch struct {
	youdb.Batch
	d   *zzC06tDisk
	ops []zzC06tKV
	n   int
}

func (b *zzC06tBatch) Put(k, v []byte) error {
	b.ops = append(b.ops, zzC06tKV{append([]byte(nil), k...), append([]byte(nil), v...)})
	b.n += len(v)
	return nil
}
func (b *zzC06tBatch) ValueSize() int { return b.n }
func (b *zzC06tBatch) Write() error {
	for _, o := range b.ops {
		b.d.Put(o.k, o.v)
	}
	return nil
}
func (b *zzC06tBatch) Reset() { b.ops, b.n = nil, 0 }

func zzH_C06_preimages() {
	disk := &zzC06tDisk{m: map[string][]byte{}}
	db := NewDatabase(disk)
	type pre struct {
		h common.Hash
		p []byte
	}
	var durable, pending []pre
	n := zzverif.Bound("preimageOps", 3, 4)
	for k := 0; k < n; k++ {
		if zzverif.Bool("commit") {
			err := db.Commit(common.Hash{0xC0, byte(k)}, false)
			zzverif.Assert(err == nil, "commit to a working disk succeeds")
			durable = append(durable, pending...)
			pending = nil
			zzverif.Reach("committed")
		} else {
			x := pre{common.Hash{0xAB, zzverif.U8("keyHash") & 1}, []byte{zzverif.U8("key")}}
			if _, err := db.preimage(x.h); err != nil { // (a hash has one preimage: insert only what is not there)
				db.insertPreimage(x.h, x.p)
				pending = append(pending, x)
			}
		}
	}
	// the process restarts: a new trie database on the same disk
	db2 := NewDatabase(disk)
	for _, x := range durable {
		got, err := db2.preimage(x.h)
		zzverif.Assert(err == nil && bytes.Equal(got, x.p), "a key preimage inserted before a successful Commit is readable after a restart")
	}
	if len(durable) > 0 {
		zzverif.Reach("durable")
	}
	zzverif.Reach("end")
}
