package staking

// C06 — determinism of the end-of-block staking kernels: (1) independence of Go map
// iteration order by self-composition (the same kernel on two copies of the same
// state, each under its own, independently chosen iteration orders), (2) the block
// builder's slashing and the importing node's replay of the slash data it wrote leave
// the same validator state.

import (
	"math/big"

	"github.com/youchainhq/go-youchain/common"
	"github.com/youchainhq/go-youchain/core"
	"github.com/youchainhq/go-youchain/core/state"
	"github.com/youchainhq/go-youchain/core/types"
	"github.com/youchainhq/go-youchain/local"
	"github.com/youchainhq/go-youchain/params"
	"github.com/youchainhq/go-youchain/zzverif"
)

//verif:mode int
//verif:replace $M/core/state.PubToAddress zzPubToAddress
//verif:replace $M/rlp.EncodeToBytes zzC06Encode
//verif:replace $M/rlp.DecodeBytes zzC06Decode
//verif:replace (*$M/core.BlockChain).LookBackVldReaderForRound zzC05LookBack
//verif:replace (*$M/core.BlockChain).CurrentHeader zzC06BCHeader

var (
	zzC06Written []Evidence // what the builder encoded into header.SlashData
	zzC06Parent  *types.Header
)

func zzC06Encode(val interface{}) ([]byte, error) {
	if evs, ok := val.([]Evidence); ok {
		zzC06Written = evs
		return []byte{0xE5}, nil
	}
	if d, ok := val.(SlashDataV5); ok {
		// the log payload names the validator: enough to see the order of the logs
		return append([]byte{0xD5, d.Type}, d.MainAddress[:]...), nil
	}
	return []byte{1}, nil
}

func zzC06Decode(b []byte, val interface{}) error {
	switch v := val.(type) {
	case *[]Evidence:
		*v = zzC06Written
	case *EvidenceDoubleSignV5:
		*v = zzC05Ev
	}
	return nil
}

func zzC06BCHeader(bc *core.BlockChain) *types.Header { return zzC06Parent }

type zzC06Chain struct{}

func (zzC06Chain) VersionForRound(uint64) (*params.YouParams, error) { return nil, nil }
func (zzC06Chain) GetHeader(common.Hash, uint64) *types.Header       { return nil }
func (zzC06Chain) GetHeaderByHash(common.Hash) *types.Header         { return nil }
func (zzC06Chain) GetBlock(common.Hash, uint64) *types.Block         { return nil }
func (zzC06Chain) CurrentHeader() *types.Header                      { return zzC06Parent }

// observable validator-side state of a world
type zzC06Obs struct {
	tok, rew [3]*big.Int
	status   [3]uint8
	expelled [3]bool
	bal      []*big.Int
	pools    [3]*big.Int
	residue  *big.Int
}

func zzC06Observe(s *state.StateDB) zzC06Obs {
	var o zzC06Obs
	for i := 1; i <= 2; i++ {
		v := s.GetValidatorByMainAddr(zzValAddr(i))
		o.tok[i], o.rew[i], o.status[i], o.expelled[i] = v.Token, v.RewardsDistributable, v.Status, v.Expelled
	}
	for _, a := range zzC07Accounts {
		o.bal = append(o.bal, s.GetBalance(a))
	}
	stat, _ := s.GetValidatorsStat()
	for i, r := range []params.ValidatorRole{params.RoleChancellor, params.RoleSenator, params.RoleHouse} {
		o.pools[i] = stat.GetByRole(r).GetRewardsDistributable()
	}
	o.residue = stat.GetRewardResidue()
	return o
}

func zzC06Same(a, b zzC06Obs) bool {
	var oks []bool
	for i := 1; i <= 2; i++ {
		oks = append(oks, a.tok[i].Cmp(b.tok[i]) == 0, a.rew[i].Cmp(b.rew[i]) == 0, a.status[i] == b.status[i], a.expelled[i] == b.expelled[i])
	}
	for i := range a.bal {
		oks = append(oks, a.bal[i].Cmp(b.bal[i]) == 0)
	}
	for i := range a.pools {
		oks = append(oks, a.pools[i].Cmp(b.pools[i]) == 0)
	}
	oks = append(oks, a.residue.Cmp(b.residue) == 0)
	return zzverif.All(oks...)
}

func zzC06Twin(w *zzC07World) *context {
	cp := w.s.Copy()
	h := *w.header
	h.GasRewards = new(big.Int).Set(w.header.GasRewards)
	return &context{config: w.cfg, db: cp, header: &h, receipt: &types.Receipt{}, recorder: local.FakeRecorder(), chain: zzC06Chain{}}
}

// zzH_C06_maporder: rewardsToPool and distributeRewards give the same state under every
// pair of map iteration orders.
func zzH_C06_maporder_pool() { zzC06MapOrder(0) }
func zzH_C06_maporder_dist() { zzC06MapOrder(1) }

func zzC06MapOrder(which int) {
	zzC07NoDlg = !zzverif.Thorough() // quick tier: no delegation (it does not interact with map order)
	zzverif.PermuteMaps(false)
	w := zzC07Setup()
	zzverif.Assume(w.s.GetValidatorByMainAddr(zzValAddr(1)).IsOnline())
	twin := zzC06Twin(w)
	// the first copy runs under the canonical (insertion) order, the twin under every order
	st := &Staking{}
	if which == 0 {
		rewardsToPool(w.ctx)
		zzverif.PermuteMaps(true)
		rewardsToPool(twin)
	} else {
		_, e1 := st.distributeRewards(w.ctx)
		zzverif.PermuteMaps(true)
		_, e2 := st.distributeRewards(twin)
		zzverif.Assert((e1 == nil) == (e2 == nil), "same outcome under both iteration orders")
	}
	zzverif.PermuteMaps(false)
	zzverif.Reach("ran-twice")
	zzverif.Assert(zzC06Same(zzC06Observe(w.s), zzC06Observe(twin.db)), "the resulting state does not depend on map iteration order")
	zzverif.Assert(len(w.ctx.receipt.Logs) == len(twin.receipt.Logs), "the same number of logs is emitted under both orders")
	zzverif.Reach("end")
}

// zzH_C06_slashing: for any double-sign evidence in the builder's pool, the state after the
// builder's slashing equals the state after an importing node replays the slash data the
// builder wrote into the header.
func zzH_C06_slashing() {
	st, s, cfg, header, _ := zzC05Setup(2)
	zzC05Honest = false
	zzverif.Assume(zzC05Ev.SignerIdx == 0 && zzC05Ev.Round < 200)
	zzC06Parent = &types.Header{Number: new(big.Int).SetUint64(uint64(zzverif.U16("parentHeight")))}
	zzverif.Assume(zzC06Parent.Number.Uint64() < 300)
	header.Number = new(big.Int).Add(zzC06Parent.Number, big.NewInt(1))
	zzC06Written = nil
	importer := s.Copy()
	// builder (isSeal): evidence from the local pool
	st.evidences = []Evidence{{Type: EvidenceTypeDoubleSignV5, Data: []byte{1}}}
	bctx := &context{config: cfg, db: s, header: header, receipt: &types.Receipt{}, recorder: local.FakeRecorder(), chain: zzC06Chain{}}
	st.slashing(bctx)
	// importing node: replays header.SlashData
	ih := *header
	ictx := &context{config: cfg, db: importer, header: &ih, receipt: &types.Receipt{}, recorder: local.FakeRecorder(), chain: zzC06Chain{}}
	st2 := &Staking{blsMgr: zzC05Mgr{}}
	st2.replaySlashing(ictx)
	zzverif.Reach("both-ran")
	b, i := s.GetValidatorByMainAddr(zzValAddr(1)), importer.GetValidatorByMainAddr(zzValAddr(1))
	same := b.Status == i.Status && b.Expelled == i.Expelled && b.ExpelExpired == i.ExpelExpired && b.Token.Cmp(i.Token) == 0 &&
		s.GetBalance(cfg.PenaltyTo).Cmp(importer.GetBalance(cfg.PenaltyTo)) == 0
	// known finding: a verified evidence whose penalty amount is zero still expels the signer at the
	// builder, but is filed as "deleted" and never written to the slash data
	zeroPenalty := b.Expelled && len(zzC06Written) == 0
	zzverif.AssertKF(same, "the importing node reaches the builder's validator state from the slash data", "C06-zero-penalty-expulsion-not-replayed", zeroPenalty)
	zzverif.Reach("end")
}

// zzH_C06_maporder_update: the end-of-block pass over all validators (recovery from an expired
// expulsion, inactivity slashing) emits the same logs in the same order and leaves the same
// validator state under every pair of map / sync.Map iteration orders: the receipt (and so the
// header's receipt root) of the block does not depend on them.
func zzH_C06_maporder_update() {
	zzverif.PermuteMaps(false)
	s := zzNewState()
	for i := 1; i <= 2; i++ {
		tag := "v1"
		if i == 2 {
			tag = "v2"
		}
		role := params.ValidatorRole(zzverif.U8(tag + ".role"))
		zzverif.Assume(role >= 1 && role <= 3)
		if !zzverif.Thorough() {
			// quick tier: chamber members only (house members are skipped by the inactivity check)
			zzverif.Assume(role == params.RoleChancellor)
		}
		tok := new(big.Int).Mul(params.StakeUint, big.NewInt(int64(i)))
		v := s.CreateValidator("v", common.Address{0x10 + byte(i)}, common.Address{0x10 + byte(i)}, role, zzPub(i), zzPub(i), tok, params.YOUToStake(tok), 1, 0, 0, params.ValidatorOnline)
		nv := v.PartialCopy()
		if zzverif.Bool(tag + ".expelled") {
			nv.Expelled, nv.Status = true, params.ValidatorOffline
			nv.ExpelExpired = uint64(zzverif.U16(tag + ".expelExpired"))
		}
		nv.UpdateLastActive(uint64(zzverif.U16(tag + ".lastActive")))
		s.UpdateValidator(nv, v)
	}
	s.Finalise(false)
	cfg := &params.YouParams{}
	cfg.Version = params.YouV5
	cfg.InactivityPenaltyWaitRounds = uint64(zzverif.U16("inactivityWaitRounds"))
	cfg.ExpelledRoundForInactive = uint64(zzverif.U16("expelledRoundForInactive"))
	cfg.PenaltyFractionForInactive = 0 // stated bound: no token penalty for inactivity (the order of the pass is the subject)
	cfg.PenaltyTo = common.Address{0x77}
	height := uint64(zzverif.U16("height"))
	for i := 1; i <= 2; i++ {
		zzverif.Assume(s.GetValidatorByMainAddr(zzValAddr(i)).LastActive() <= height)
	}
	header := &types.Header{Number: new(big.Int).SetUint64(height), CurrVersion: params.YouV5}
	a := &context{config: cfg, db: s, header: header, receipt: &types.Receipt{}, recorder: local.FakeRecorder(), chain: zzC06Chain{}}
	h2 := *header
	b := &context{config: cfg, db: s.Copy(), header: &h2, receipt: &types.Receipt{}, recorder: local.FakeRecorder(), chain: zzC06Chain{}}
	slashingAndRecoveringYouV5(a)
	zzverif.PermuteMaps(true)
	slashingAndRecoveringYouV5(b)
	zzverif.PermuteMaps(false)
	zzverif.Reach("ran-twice")
	la, lb := a.receipt.Logs, b.receipt.Logs
	zzverif.Assert(len(la) == len(lb), "the same number of logs is emitted under both orders")
	if len(la) == len(lb) {
		if len(la) == 2 {
			zzverif.Reach("two-logs")
		}
		for i := range la {
			same := len(la[i].Topics) == len(lb[i].Topics) && string(la[i].Data) == string(lb[i].Data)
			if len(la[i].Topics) == len(lb[i].Topics) {
				for j := range la[i].Topics {
					same = same && la[i].Topics[j] == lb[i].Topics[j]
				}
			}
			zzverif.Assert(same, "the logs of the validator pass come in the same order under every iteration order")
		}
	}
	for i := 1; i <= 2; i++ {
		x, y := a.db.GetValidatorByMainAddr(zzValAddr(i)), b.db.GetValidatorByMainAddr(zzValAddr(i))
		zzverif.Assert(x.Status == y.Status && x.Expelled == y.Expelled && x.ExpelExpired == y.ExpelExpired && x.LastInactive == y.LastInactive && x.Token.Cmp(y.Token) == 0,
			"the validator pass leaves the same validator state under every iteration order")
	}
	zzverif.Reach("end")
}

// ---- builder and importing node act on the confirmed evidences in the same order ----

func zzC06Confirm(s *Staking, config *params.YouParams, currentDB *state.StateDB, header *types.Header, parentHeight uint64, evidence Evidence, receipt *types.Receipt, result *processedEvidencesResult, seen map[common.Address]struct{}) {
	// every evidence is confirmed and leaves a log naming it (the penalty itself is C05's subject)
	result.confirmedEvidences = append(result.confirmedEvidences, evidence)
	receipt.Logs = append(receipt.Logs, &types.Log{Address: params.StakingModuleAddress, Data: append([]byte(nil), evidence.Data...)})
}

// zzH_C06_slashing_order: with several evidences confirmed in one block, the importing node
// replaying header.SlashData emits the builder's logs in the builder's order (the receipt, and
// so the header's receipt root, agree), whatever order the evidences arrived in.
//
//verif:replace (*$M/staking.Staking).processDoubleSignV5 zzC06Confirm
func zzH_C06_slashing_order() {
	zzC06Parent = &types.Header{Number: big.NewInt(7)}
	header := &types.Header{Number: big.NewInt(8)}
	zzC06Written = nil
	cfg := &params.YouParams{}
	cfg.Version = params.YouV5
	n := 2 + zzverif.Choose("evidences", 2)
	st := &Staking{blsMgr: zzC05Mgr{}}
	for i := 0; i < n; i++ {
		b := zzverif.U8("evidence.encoding")
		st.evidences = append(st.evidences, Evidence{Type: EvidenceTypeDoubleSignV5, Data: []byte{b, byte(i)}})
	}
	s := zzNewState()
	s.Finalise(false)
	bctx := &context{config: cfg, db: s, header: header, receipt: &types.Receipt{}, recorder: local.FakeRecorder(), chain: zzC06Chain{}}
	st.slashing(bctx)
	ih := *header
	ictx := &context{config: cfg, db: s.Copy(), header: &ih, receipt: &types.Receipt{}, recorder: local.FakeRecorder(), chain: zzC06Chain{}}
	st2 := &Staking{blsMgr: zzC05Mgr{}}
	st2.replaySlashing(ictx)
	zzverif.Reach("both-ran")
	lb, li := bctx.receipt.Logs, ictx.receipt.Logs
	zzverif.Assert(len(lb) == n && len(li) == n, "builder and importing node act on every confirmed evidence")
	if len(lb) == len(li) {
		for i := range lb {
			zzverif.Assert(string(lb[i].Data) == string(li[i].Data), "the importing node emits the builder's logs in the builder's order")
		}
	}
	zzverif.Reach("end")
}
