package core

// C06 (transaction execution context) — the block builder (BlockGen.AddTx, the miner's
// worker) applies transactions with an explicit author, an importing node (Process) with
// none: both must hand the same beneficiary to the execution, the header's coinbase, or the
// COINBASE opcode makes them compute different states for one block.

import (
	"math/big"

	"github.com/youchainhq/go-youchain/common"
	"github.com/youchainhq/go-youchain/consensus"
	"github.com/youchainhq/go-youchain/core/types"
	"github.com/youchainhq/go-youchain/zzverif"
)

//verif:mode int
//verif:replace (*$M/core.DefaultConverter).ApplyMessage zzC06cApply

var zzC06cSeen []common.Address

func zzC06cApply(d *DefaultConverter, msgCtx *MessageContext) ([]byte, uint64, bool, error) {
	zzC06cSeen = append(zzC06cSeen, msgCtx.Coinbase)
	msgCtx.State.SetNonce(msgCtx.Msg.From(), msgCtx.State.GetNonce(msgCtx.Msg.From())+1)
	return nil, msgCtx.GasUsed(), false, nil
}

// both engines of the repository answer Author with the zero address
type zzC06cEngine struct{ consensus.Engine }

func (zzC06cEngine) Author(header *types.Header) (common.Address, error) {
	return common.Address{}, nil
}

func zzH_C06_coinbase() {
	zzC06cSeen = nil
	from, to := common.Address{1}, common.Address{2}
	var proposer common.Address
	copy(proposer[:], zzverif.Bytes("header.coinbase", 20))
	header := &types.Header{Number: big.NewInt(1), Coinbase: proposer}
	run := func(author *common.Address) {
		s := zzNewState()
		s.SetBalance(from, big.NewInt(1<<40))
		s.Finalise(false)
		p := &StateProcessor{engine: zzC06cEngine{}, defaultConverter: &DefaultConverter{}, txConverters: map[common.Address]TxConverter{}}
		msg := types.NewMessage(from, &to, 0, new(big.Int), 50000, big.NewInt(1), nil, true)
		gp := new(GasPool).AddGas(1 << 30)
		_, _, _, err := p.ApplyMessageEntry(msg, s, nil, header, author, gp, nil, nil)
		zzverif.Assert(err == nil, "the transaction is applied")
	}
	builder := proposer
	run(&builder) // block builder
	run(nil)      // importing node
	zzverif.Reach("both-ran")
	zzverif.Assert(len(zzC06cSeen) == 2 && zzC06cSeen[0] == proposer && zzC06cSeen[1] == proposer, "builder and importing node execute with the same beneficiary, the header's coinbase")
	zzverif.Reach("end")
}
