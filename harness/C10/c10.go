package state

// C10 (copy half) — a copy of a state is equal to and independent of the original.

import (
	"errors"
	"math/big"

	"github.com/youchainhq/go-youchain/common"
	"github.com/youchainhq/go-youchain/core/types"
	"github.com/youchainhq/go-youchain/params"
	"github.com/youchainhq/go-youchain/trie"
	"github.com/youchainhq/go-youchain/zzverif"
)

//verif:mode int
//verif:replace $M/core/state.PubToAddress zzPubToAddress
//verif:replace $M/rlp.EncodeToBytes zzEncodeStub
//verif:replace (*$M/trie.Database).Node zzC10Node

// The delegation-list blob of an account is written to the node database only at Commit.
func zzC10Node(db *trie.Database, h common.Hash) ([]byte, error) { return nil, errors.New("not found") }

func zzC10Build() (*StateDB, common.Address, common.Hash) {
	s, d := zzValState()
	var key common.Hash
	key[31] = 7
	s.SetBalance(zzAddr(0), zzverif.Big("bal0", 100))
	s.SetNonce(zzAddr(0), zzverif.U64("nonce0"))
	var v0 common.Hash
	v0[31] = zzverif.U8("slot0")
	s.SetState(zzAddr(0), key, v0)
	s.SetCode(zzAddr(0), []byte{zzverif.U8("code0")})
	s.AddWithdrawRecord(&WithdrawRecord{Operator: zzAddr(1), Validator: zzValAddr(1), Nonce: 10, CompletionHeight: zzverif.U64("rec.height"),
		InitialBalance: big.NewInt(5), FinalBalance: big.NewInt(5)})
	s.AddLog(&types.Log{Address: zzAddr(0)})
	if zzverif.Bool("finalised") {
		s.Finalise(false) // copy point between transactions; otherwise mid-transaction with a live journal
	}
	return s, d, key
}

func zzC10Mutate(s *StateDB, d common.Address, key common.Hash, tag string) {
	switch zzverif.Choose(tag+".mut", 8) {
	case 0:
		s.AddBalance(zzAddr(zzverif.Choose(tag+".who", 2)), zzverif.Big(tag+".amt", 64))
	case 1:
		s.SetNonce(zzAddr(0), zzverif.U64(tag+".nonce"))
	case 2:
		var val common.Hash
		val[31] = zzverif.U8(tag + ".val")
		s.SetState(zzAddr(0), key, val)
	case 3:
		s.SetCode(zzAddr(0), []byte{zzverif.U8(tag + ".code")})
	case 4:
		cur := s.GetValidatorByMainAddr(zzValAddr(1))
		nv := cur.PartialCopy()
		add := zzverif.Big(tag+".add", 64)
		nv.SelfToken.Add(nv.SelfToken, add)
		nv.Token.Add(nv.Token, add)
		nv.Status = 1 - nv.Status
		s.UpdateValidator(nv, cur)
	case 5:
		cur := s.GetValidatorByMainAddr(zzValAddr(1))
		s.UpdateDelegation(d, cur, zzverif.Big(tag+".dlg", 64))
	case 6:
		s.AddWithdrawRecord(&WithdrawRecord{Operator: zzAddr(2), Validator: zzValAddr(2), Nonce: 77, InitialBalance: big.NewInt(1), FinalBalance: big.NewInt(1)})
	case 7:
		tok := zzverif.Big(tag+".ntoken", 64)
		s.CreateValidator("n", zzAddr(3), zzAddr(3), params.RoleHouse, zzPub(3), zzPub(3), tok, params.YOUToStake(tok), 1, 0, 0, 1)
	}
}

// zzH_C10_copy: every observable of a fresh copy equals the original's; one arbitrary
// mutation of either side leaves the other side's observables unchanged.
func zzH_C10_copy() {
	s, d, key := zzC10Build()
	origA, origV := zzC09Observe(s, key), zzC09ObserveVal(s, d)
	cp := s.Copy()
	zzverif.Reach("copied")
	zzverif.Assert(zzC09Same(origA, zzC09Observe(cp, key)), "account observables of the copy equal the original's")
	zzverif.Assert(zzC09SameVal(origV, zzC09ObserveVal(cp, d)), "validator observables of the copy equal the original's")
	if zzverif.Bool("mutateCopy") {
		zzC10Mutate(cp, d, key, "c")
		zzverif.Reach("copy-mutated")
		zzverif.Assert(zzC09Same(origA, zzC09Observe(s, key)) && zzC09SameVal(origV, zzC09ObserveVal(s, d)), "mutating the copy leaves the original unchanged")
	} else {
		zzC10Mutate(s, d, key, "o")
		zzverif.Reach("orig-mutated")
		zzverif.Assert(zzC09Same(origA, zzC09Observe(cp, key)) && zzC09SameVal(origV, zzC09ObserveVal(cp, d)), "mutating the original leaves the copy unchanged")
	}
	zzverif.Reach("end")
}

// zzH_C10_index: ValidatorIndex.List() is the ascending sequence of the stored
// addresses for every iteration order of the underlying sync.Map.
//
//verif:permute-maps
func zzH_C10_index() {
	idx := NewValidatorIndex()
	var as [3]common.Address
	for i := range as {
		copy(as[i][:], zzverif.Bytes("addr", 2))
		idx.Add(as[i])
	}
	l := idx.List()
	for i := 0; i+1 < len(l); i++ {
		zzverif.Assert(string(l[i][:]) < string(l[i+1][:]), "index list strictly ascending")
	}
	for _, a := range as {
		found := false
		for _, x := range l {
			if x == a {
				found = true
			}
		}
		zzverif.Assert(found, "every stored address is listed")
	}
	zzverif.Assert(len(l) <= 3, "no address listed twice")
	zzverif.Reach("end")
}

// zzH_C10_copy_staking: pending staking records (final value, list of transaction hashes) and
// pending relationships of a copy are equal to the original's and independent of them: both
// sides then record another transaction, and each sees exactly its own.
func zzH_C10_copy_staking() {
	s := zzNewState()
	d, v := zzAddr(7), zzValAddr(1)
	n := zzverif.Choose("hashesBeforeCopy", 4) // 0..3 hashes on the record when the copy is taken
	for i := 0; i < n; i++ {
		s.AddStakingRecord(d, v, common.Hash{0x60 + byte(i)}, zzverif.Big("value", 64))
	}
	if zzverif.Bool("pendingRelationship") {
		s.AddPendingRelationship(d, v)
	}
	cp := s.Copy()
	zzverif.Reach("copied")
	rec := func(x *StateDB) []common.Hash {
		if r := x.GetStakingRecord(d, v); r != nil {
			return append([]common.Hash(nil), r.TxHashes...)
		}
		return nil
	}
	before := rec(s)
	zzverif.Assert(len(rec(cp)) == len(before) && s.GetStakingRecordValue(d, v).Cmp(cp.GetStakingRecordValue(d, v)) == 0 &&
		s.PendingRelationshipExist(d, v) == cp.PendingRelationshipExist(d, v), "the copy's staking record equals the original's")
	// both sides move on
	first, second := s, cp
	if zzverif.Bool("copyWritesFirst") {
		first, second = cp, s
	}
	first.AddStakingRecord(d, v, common.Hash{0xA1}, big.NewInt(1))
	second.AddStakingRecord(d, v, common.Hash{0xB2}, big.NewInt(2))
	second.AddPendingRelationship(zzAddr(8), v)
	r1, r2 := rec(first), rec(second)
	ok := len(r1) == len(before)+1 && len(r2) == len(before)+1 && r1[len(before)] == (common.Hash{0xA1}) && r2[len(before)] == (common.Hash{0xB2})
	for i := range before {
		ok = ok && i < len(r1) && i < len(r2) && r1[i] == before[i] && r2[i] == before[i]
	}
	zzverif.Assert(ok, "each side's record holds the earlier hashes and exactly its own new one")
	zzverif.Assert(first.GetStakingRecordValue(d, v).Cmp(big.NewInt(1)) == 0 && second.GetStakingRecordValue(d, v).Cmp(big.NewInt(2)) == 0, "each side's final value is its own")
	zzverif.Assert(!first.PendingRelationshipExist(zzAddr(8), v) && second.PendingRelationshipExist(zzAddr(8), v), "a pending relationship added on one side does not show on the other")
	zzverif.Reach("end")
}
