package state

// C10 (reopen half) — after any sequence of writes with flush points (IntermediateRoot /
// Commit) at arbitrary positions, the state reopened from the returned roots shows the same
// persistent content as the live object, and the same content as a run that never flushed
// in between (grouping independence).  The three tries are a snapshot store of the Trie
// interface (root = snapshot identity; "roots depend only on content" then follows from the
// trie (C13) and codec (C14) results: trie root and RLP are functions of content).

import (
	"errors"
	"io"
	"math/big"

	"github.com/youchainhq/go-youchain/common"
	"github.com/youchainhq/go-youchain/params"
	"github.com/youchainhq/go-youchain/rlp"
	"github.com/youchainhq/go-youchain/trie"
	"github.com/youchainhq/go-youchain/youdb"
	"github.com/youchainhq/go-youchain/zzverif"
)

//verif:mode int
//verif:replace $M/core/state.PubToAddress zzPubToAddress
//verif:replace $M/rlp.EncodeToBytes zzC10rEncode
//verif:replace $M/rlp.Encode zzC10rEncodeTo
//verif:replace $M/rlp.DecodeBytes zzC10rDecode
//verif:replace (*$M/rlp.Stream).Decode zzC10rStreamDecode
//verif:replace $M/rlp.Split zzC10rSplit
//verif:replace (*$M/trie.Database).InsertBlob zzC10rInsertBlob
//verif:replace (*$M/trie.Database).Node zzC10rNode
//verif:noop (*$M/trie.Database).Reference

// ---- snapshot store ----

type zzSnapDB struct {
	snaps []map[string][]byte
	blobs map[common.Hash][]byte
	objs  []interface{} // the codec stand-in's registry: blob {tag,id} -> deep copy of the encoded object
}

var zzC10rDB *zzSnapDB

func (d *zzSnapDB) snapshot(m map[string][]byte) common.Hash {
	if len(m) == 0 {
		return emptyRoot
	}
	c := make(map[string][]byte, len(m))
	for k, v := range m {
		c[k] = v
	}
	d.snaps = append(d.snaps, c)
	return common.Hash{0xC0, byte(len(d.snaps))}
}

func (d *zzSnapDB) open(root common.Hash) (Trie, error) {
	t := &zzSnapTrie{m: map[string][]byte{}, db: d}
	if root == (common.Hash{}) || root == emptyRoot {
		return t, nil
	}
	if root[0] != 0xC0 || int(root[1]) == 0 || int(root[1]) > len(d.snaps) {
		return nil, errors.New("missing trie node")
	}
	for k, v := range d.snaps[int(root[1])-1] {
		t.m[k] = v
	}
	return t, nil
}

func (d *zzSnapDB) OpenTrie(root common.Hash) (Trie, error)           { return d.open(root) }
func (d *zzSnapDB) OpenStorageTrie(a, root common.Hash) (Trie, error) { return d.open(root) }
func (d *zzSnapDB) CopyTrie(t Trie) Trie {
	n := &zzSnapTrie{m: map[string][]byte{}, db: d}
	for k, v := range t.(*zzSnapTrie).m {
		n.m[k] = v
	}
	return n
}
func (d *zzSnapDB) ContractCode(a, h common.Hash) ([]byte, error) {
	if b, ok := d.blobs[h]; ok {
		return b, nil
	}
	return nil, errors.New("not found")
}
func (d *zzSnapDB) ContractCodeSize(a, h common.Hash) (int, error) {
	b, err := d.ContractCode(a, h)
	return len(b), err
}
func (d *zzSnapDB) DelegationBytes(h common.Hash) ([]byte, error) { return d.ContractCode(h, h) }
func (d *zzSnapDB) TrieDB() *trie.Database                        { return new(trie.Database) }

type zzSnapTrie struct {
	m  map[string][]byte
	db *zzSnapDB
}

func (t *zzSnapTrie) TryGet(key []byte) ([]byte, error) { return t.m[string(key)], nil }
func (t *zzSnapTrie) TryUpdate(key, value []byte) error {
	if len(value) == 0 {
		delete(t.m, string(key))
		return nil
	}
	t.m[string(key)] = append([]byte(nil), value...)
	return nil
}
func (t *zzSnapTrie) TryDelete(key []byte) error { delete(t.m, string(key)); return nil }
func (t *zzSnapTrie) Commit(cb trie.LeafCallback) (common.Hash, error) {
	h := t.db.snapshot(t.m)
	if cb != nil {
		for _, v := range t.m {
			cb(v, h)
		}
	}
	return h, nil
}
func (t *zzSnapTrie) Hash() common.Hash                               { return t.db.snapshot(t.m) }
func (t *zzSnapTrie) NodeIterator(startKey []byte) trie.NodeIterator  { return nil }
func (t *zzSnapTrie) GetKey([]byte) []byte                            { return nil }
func (t *zzSnapTrie) Prove(key []byte, l uint, db youdb.Putter) error { return nil }

func zzC10rInsertBlob(db *trie.Database, h common.Hash, blob []byte) {
	zzC10rDB.blobs[h] = append([]byte(nil), blob...)
}
func zzC10rNode(db *trie.Database, h common.Hash) ([]byte, error) {
	if b, ok := zzC10rDB.blobs[h]; ok {
		return b, nil
	}
	return nil, errors.New("not found")
}

// ---- codec stand-in ----
// The generic (reflective) codec is the identity on whatever value it is handed, kept as a deep
// copy; the custom EncodeRLP / DecodeRLP methods of the state types (Validator, ValidatorsStat,
// Validators, ValidatorIndex, stakingRecord, pendingRelationship, stateObject) run for real
// around it, with the codec's positional mapping between an encoded []interface{}{...} and the
// struct decoded from it.  (Custom methods of values nested inside such a list are not run.)

type zzC10rW struct{ b []byte }

func (w *zzC10rW) Write(p []byte) (int, error) { w.b = append(w.b, p...); return len(p), nil }

func zzC10rEncode(val interface{}) ([]byte, error) {
	switch v := val.(type) {
	case []byte: // a storage slot value
		return append([]byte{0xEB}, v...), nil
	case common.SortedAddresses: // hashed: must be a function of the content
		out := []byte{0xEA}
		for _, a := range v {
			out = append(out, a[:]...)
		}
		return out, nil
	}
	w := &zzC10rW{}
	if err := zzC10rEncodeTo(w, val); err != nil {
		return nil, err
	}
	return w.b, nil
}

// a per-kind statistics record nested in the list ValidatorsStat encodes: its own codec runs too
type zzC10rNestedKS struct{ b []byte }

func zzC10rEncodeTo(w io.Writer, val interface{}) error {
	if pp, ok := val.(**pendingRelationship); ok && *pp != nil {
		val = *pp // the codec dereferences pointers until it finds an Encoder
	}
	if e, ok := val.(rlp.Encoder); ok {
		return e.EncodeRLP(w)
	}
	d := zzC10rDB
	if list, ok := val.([]interface{}); ok {
		items := make([]interface{}, len(list))
		for i, el := range list {
			if ks, ok := el.(*ValKindStat); ok && ks != nil {
				w2 := &zzC10rW{}
				if err := ks.EncodeRLP(w2); err != nil {
					return err
				}
				items[i] = zzC10rNestedKS{b: w2.b}
			} else {
				items[i] = zzverif.DeepCopy(el)
			}
		}
		d.objs = append(d.objs, items)
		w.Write([]byte{0xEE, byte(len(d.objs) - 1)})
		return nil
	}
	d.objs = append(d.objs, zzverif.DeepCopy(val))
	w.Write([]byte{0xEE, byte(len(d.objs) - 1)})
	return nil
}

var zzC10rCur []byte

func zzC10rDecode(b []byte, out interface{}) error {
	if len(b) > 0 && b[0] == 0xEA {
		l := out.(*common.SortedAddresses)
		for i := 1; i+20 <= len(b); i += 20 {
			var a common.Address
			copy(a[:], b[i:i+20])
			*l = append(*l, a)
		}
		return nil
	}
	if d, ok := out.(rlp.Decoder); ok {
		zzC10rCur = b
		return d.DecodeRLP(nil)
	}
	return zzC10rRestore(b, out)
}

func zzC10rStreamDecode(s *rlp.Stream, out interface{}) error { return zzC10rRestore(zzC10rCur, out) }

func zzC10rRestore(b []byte, out interface{}) error {
	if len(b) != 2 || b[0] != 0xEE || int(b[1]) >= len(zzC10rDB.objs) {
		return errors.New("rlp: malformed")
	}
	obj := zzC10rDB.objs[b[1]]
	if items, ok := obj.([]interface{}); ok {
		cp := make([]interface{}, len(items))
		for i, it := range items {
			if n, ok := it.(zzC10rNestedKS); ok {
				x := new(ValKindStat)
				saved := zzC10rCur
				zzC10rCur = n.b
				err := x.DecodeRLP(nil)
				zzC10rCur = saved
				if err != nil {
					return err
				}
				cp[i] = x
			} else {
				cp[i] = it
			}
		}
		obj = cp
	}
	zzverif.Restore(out, obj)
	return nil
}

func zzC10rSplit(b []byte) (rlp.Kind, []byte, []byte, error) {
	if len(b) == 0 || b[0] != 0xEB {
		return 0, nil, nil, errors.New("rlp: malformed")
	}
	return rlp.String, b[1:], nil, nil
}

// ---- the persistent content of a state, as seen through its public readers ----

var zzC10rKey = common.Hash{31: 7}

type zzC10rObs struct {
	exist      [2]bool
	bal        [2]*big.Int
	nonce      [2]uint64
	codeHash   [2]common.Hash
	codeLen    [2]int
	slot, orig [2]common.Hash
	val        zzC09VObs
}

func zzC10rObserve(s *StateDB, withVal bool) zzC10rObs {
	var o zzC10rObs
	for i := 0; i < 2; i++ {
		a := zzAddr(i)
		// EIP-158 view (the only mode production uses): an empty account and an absent one are the
		// same thing.  (The live object can hold a never-dirtied empty object for an address that was
		// deleted earlier in the block and then touched by a no-op write, inherited from go-ethereum;
		// Exist() alone would tell it from the reopened state, no content differs.)
		o.exist[i] = s.Exist(a) && !s.Empty(a)
		o.bal[i] = new(big.Int).Set(s.GetBalance(a))
		o.nonce[i] = s.GetNonce(a)
		if o.exist[i] {
			o.codeHash[i] = s.GetCodeHash(a)
		}
		o.codeLen[i] = len(s.GetCode(a))
		o.slot[i] = s.GetState(a, zzC10rKey)
		o.orig[i] = s.GetCommittedState(a, zzC10rKey)
	}
	if withVal {
		o.val = zzC09ObserveVal(s, zzAddr(7))
	}
	return o
}

func zzC10rSame(x, y zzC10rObs, withVal bool) bool {
	var oks []bool
	for i := 0; i < 2; i++ {
		oks = append(oks, x.exist[i] == y.exist[i], x.bal[i].Cmp(y.bal[i]) == 0, x.nonce[i] == y.nonce[i], x.codeHash[i] == y.codeHash[i],
			x.codeLen[i] == y.codeLen[i], x.slot[i] == y.slot[i], x.orig[i] == y.orig[i])
	}
	ok := zzverif.All(oks...)
	if withVal {
		ok = ok && zzC09SameVal(x.val, y.val)
	}
	return ok
}

// one write operation, chosen symbolically; flush says whether flush points really flush
// (run A) or only end the transaction (run B, same transaction boundaries, no flush)
type zzC10rOp struct {
	kind      int
	who       int
	val       uint8
	amt       *big.Int
	nonce     uint64
	delEmpty  bool
	valChange *big.Int
	nonce2    uint64
}

func zzC10rPick(tag string, withVal bool) zzC10rOp {
	n := 8
	if withVal {
		n = 12
	}
	op := zzC10rOp{kind: zzverif.Choose(tag+".op", n)}
	switch op.kind {
	case 0:
		op.val = zzverif.U8(tag + ".slotValue")
	case 1:
		op.who = zzverif.Choose(tag+".who", 2)
		op.amt = zzverif.Big(tag+".amount", 64)
	case 2:
		op.nonce = zzverif.U64(tag + ".nonce")
	case 3:
		op.who = zzverif.Choose(tag+".code", 2)
	case 5, 6, 7:
		op.delEmpty = zzverif.Bool(tag + ".deleteEmpty")
	case 8, 9:
		op.valChange = zzverif.Big(tag+".valAmount", 64)
		op.nonce, op.nonce2 = uint64(zzverif.U16(tag+".height1")), uint64(zzverif.U16(tag+".height2"))
	}
	return op
}

func zzC10rApply(s *StateDB, op zzC10rOp, flush bool) {
	a0 := zzAddr(0)
	switch op.kind {
	case 0:
		var v common.Hash
		v[31] = op.val
		s.SetState(a0, zzC10rKey, v)
	case 1:
		s.AddBalance(zzAddr(op.who), op.amt)
	case 2:
		s.SetNonce(a0, op.nonce)
	case 3:
		s.SetCode(a0, [][]byte{{0x60, 0x01}, {0x60, 0x02, 0x00}}[op.who])
	case 4:
		s.Suicide(a0)
	case 5: // end of transaction
		s.Finalise(op.delEmpty)
	case 6: // end of transaction + intermediate root
		if flush {
			s.IntermediateRoot(op.delEmpty)
		} else {
			s.Finalise(op.delEmpty)
		}
	case 7: // end of block: commit
		if flush {
			s.Commit(op.delEmpty)
		} else {
			s.Finalise(op.delEmpty)
		}
	case 8: // validator 1: stake and status change
		cur := s.GetValidatorByMainAddr(zzValAddr(1))
		if cur != nil {
			nv := cur.PartialCopy()
			nv.SelfToken.Add(nv.SelfToken, op.valChange)
			nv.Token.Add(nv.Token, op.valChange)
			nv.Stake = params.YOUToStake(nv.Token)
			nv.SelfStake = params.YOUToStake(nv.SelfToken)
			nv.Status = 1 - nv.Status
			// slashing and reward bookkeeping fields ride along (every field of the record is persisted)
			nv.Expelled = !nv.Expelled
			nv.ExpelExpired = op.nonce
			nv.LastInactive = op.nonce2
			nv.RewardsLastSettled = op.nonce + op.nonce2
			nv.RewardsDistributable.Add(nv.RewardsDistributable, op.valChange)
			nv.UpdateLastActive(op.nonce2 + 1)
			s.UpdateValidator(nv, cur)
		}
	case 9: // a delegation to validator 1
		if cur := s.GetValidatorByMainAddr(zzValAddr(1)); cur != nil {
			s.UpdateDelegation(zzAddr(7), cur, op.valChange)
		}
	case 10:
		s.AddWithdrawRecord(&WithdrawRecord{Operator: zzAddr(2), Validator: zzValAddr(2), Nonce: 77, InitialBalance: big.NewInt(1), FinalBalance: big.NewInt(1)})
	case 11:
		if s.GetValidatorByMainAddr(zzValAddr(3)) == nil {
			tok := new(big.Int).Mul(params.StakeUint, big.NewInt(3))
			s.CreateValidator("n", zzAddr(3), zzAddr(3), params.RoleHouse, zzPub(3), zzPub(3), tok, params.YOUToStake(tok), 1, 0, 0, 1)
		}
	}
}

func zzC10rNew() *StateDB {
	zzC10rDB = &zzSnapDB{blobs: map[common.Hash][]byte{}}
	s, err := New(common.Hash{}, common.Hash{}, common.Hash{}, zzC10rDB)
	if err != nil {
		panic(err)
	}
	return s
}

func zzC10rRun(withVal bool, nops int) {
	ops := make([]zzC10rOp, nops)
	for i := range ops {
		ops[i] = zzC10rPick("op", withVal)
	}
	setup := func(s *StateDB) {
		s.SetBalance(zzAddr(0), big.NewInt(5))
		s.SetBalance(zzAddr(7), big.NewInt(1000))
		if withVal {
			for i := 1; i <= 2; i++ {
				tok := new(big.Int).Mul(params.StakeUint, big.NewInt(int64(i)))
				s.CreateValidator("v", zzAddr(i), zzAddr(i), params.ValidatorRole(i), zzPub(i), zzPub(i), tok, params.YOUToStake(tok), 1, 0, 0, params.ValidatorOnline)
			}
		}
		s.Finalise(false)
	}
	finalDel := zzverif.Bool("final.deleteEmpty")

	// run A: flush points flush; at one point (or never) the work continues on a Copy of the state
	// never, or right before the final commit (thorough: before any operation)
	copyAt := -1
	if zzverif.Thorough() {
		copyAt = zzverif.Choose("continueOnCopyBeforeOp", nops+2) - 1
	} else {
		copyAt = []int{-1, nops}[zzverif.Choose("continueOnCopy", 2)]
	}
	a := zzC10rNew()
	setup(a)
	// (the copy is taken at a transaction boundary: a copy starts with an empty journal, so what the
	// current transaction still has pending - a self-destruct, a touched empty account - is not
	// finalised in it; see zzH_C10_copy_midtx)
	for i, op := range ops {
		if i == copyAt {
			zzverif.Reach("continued-on-copy")
			a.Finalise(true)
			a = a.Copy()
		}
		zzC10rApply(a, op, true)
	}
	if copyAt == nops {
		zzverif.Reach("continued-on-copy")
		a.Finalise(true)
		a = a.Copy()
	}
	root, valRoot, stakingRoot, err := a.Commit(finalDel)
	zzverif.Assert(err == nil && a.Error() == nil, "commit succeeds")
	dbA := zzC10rDB
	ra, err := New(root, valRoot, stakingRoot, dbA)
	zzverif.Assert(err == nil, "the committed roots open")
	if err != nil {
		return
	}
	zzverif.Reach("reopened")
	live, reopened := zzC10rObserve(a, withVal), zzC10rObserve(ra, withVal)
	zzverif.Assert(zzC10rSame(live, reopened, withVal), "the state reopened from the committed roots shows the content of the live object")

	// run B: same writes and transaction boundaries, no flush before the final commit
	b := zzC10rNew()
	setup(b)
	for i, op := range ops {
		if i == copyAt {
			b.Finalise(true) // the same transaction boundary, no copy
		}
		zzC10rApply(b, op, false)
	}
	if copyAt == nops {
		b.Finalise(true)
	}
	rootB, valRootB, stakingRootB, err := b.Commit(finalDel)
	zzverif.Assert(err == nil && b.Error() == nil, "commit succeeds (single flush)")
	rb, err := New(rootB, valRootB, stakingRootB, zzC10rDB)
	zzverif.Assert(err == nil, "the committed roots open (single flush)")
	if err != nil {
		return
	}
	zzverif.Assert(zzC10rSame(reopened, zzC10rObserve(rb, withVal), withVal), "committed content does not depend on where intermediate roots and commits were taken")
	zzverif.Reach("end")
}

// zzH_C10_reopen: accounts, storage, code.
func zzH_C10_reopen() { zzC10rRun(false, zzverif.Bound("operations", 3, 4)) }

// zzH_C10_reopen_val: the same with validators, delegation, withdraw queue in play.
func zzH_C10_reopen_val() { zzC10rRun(true, zzverif.Bound("operations (validators)", 2, 3)) }

// zzH_C10_copy_midtx: a copy taken in the middle of a transaction commits what the original
// commits.  Known finding: it does not when the transaction has a self-destruct (or a touched
// empty account) pending - the copy's journal is empty, so its Finalise never deletes the object.
func zzH_C10_copy_midtx() {
	commit := func(viaCopy bool, pending int) zzC10rObs {
		s := zzC10rNew()
		s.SetBalance(zzAddr(0), big.NewInt(5))
		s.SetState(zzAddr(0), zzC10rKey, common.Hash{31: 3})
		s.Finalise(true)
		switch pending {
		case 0:
			s.Suicide(zzAddr(0))
		case 1:
			s.AddBalance(zzAddr(1), new(big.Int)) // touches an empty account
		case 2:
			s.SetNonce(zzAddr(0), 9)
		}
		if viaCopy {
			s = s.Copy()
		}
		root, valRoot, stakingRoot, err := s.Commit(true)
		zzverif.Assert(err == nil, "commit succeeds")
		r, err := New(root, valRoot, stakingRoot, zzC10rDB)
		if err != nil {
			zzverif.Assume(false)
		}
		return zzC10rObserve(r, false)
	}
	pending := zzverif.Choose("pendingInTransaction", 3)
	direct, viaCopy := commit(false, pending), commit(true, pending)
	zzverif.Reach("both-committed")
	zzverif.AssertKF(zzC10rSame(direct, viaCopy, false), "a copy taken mid-transaction commits what the original commits", "C10-copy-mid-transaction-selfdestruct", pending == 0)
	zzverif.Reach("end")
}

// ---- the staking trie: records of pending staking actions and pending relationships ----

type zzC10sObs struct {
	val    [2]*big.Int
	hashes [2]int
	last   [2]common.Hash
	rel    [2]bool
	dcount int
	vcount int
}

func zzC10sObserve(s *StateDB) zzC10sObs {
	var o zzC10sObs
	d := zzAddr(7)
	for i := 0; i < 2; i++ {
		v := zzValAddr(i + 1)
		o.val[i] = new(big.Int).Set(s.GetStakingRecordValue(d, v))
		if r := s.GetStakingRecord(d, v); r != nil {
			o.hashes[i] = len(r.TxHashes)
			if len(r.TxHashes) > 0 {
				o.last[i] = r.TxHashes[len(r.TxHashes)-1]
			}
		}
		o.rel[i] = s.PendingRelationshipExist(d, v)
	}
	o.dcount = s.DelegatorPendingCount(d)
	o.vcount = s.ValidatorPendingCount(zzValAddr(1))
	return o
}

func zzC10sSame(x, y zzC10sObs) bool {
	return zzverif.All(x.val[0].Cmp(y.val[0]) == 0, x.val[1].Cmp(y.val[1]) == 0, x.hashes == y.hashes, x.last == y.last, x.rel == y.rel, x.dcount == y.dcount, x.vcount == y.vcount)
}

type zzC10sOp struct {
	kind, who int
	val       *big.Int
	del       bool
}

func zzC10sApply(s *StateDB, k int, op zzC10sOp, flush bool) {
	d, v := zzAddr(7), zzValAddr(op.who+1)
	switch op.kind {
	case 0:
		s.AddStakingRecord(d, v, common.Hash{0x60, byte(k)}, op.val)
	case 1:
		s.AddPendingRelationship(d, v)
	case 2:
		if flush {
			s.IntermediateRoot(op.del)
		} else {
			s.Finalise(op.del)
		}
	case 3:
		if flush {
			s.Commit(op.del)
		} else {
			s.Finalise(op.del)
		}
	}
}

// zzH_C10_reopen_staking: staking records and pending relationships written in any order with
// intermediate roots and commits at arbitrary positions: the state reopened from the committed
// roots shows what the live object shows, and what a twin run shows that flushed only once.
func zzH_C10_reopen_staking() {
	nops := zzverif.Bound("operations (staking trie)", 3, 4)
	ops := make([]zzC10sOp, nops)
	for i := range ops {
		ops[i] = zzC10sOp{kind: zzverif.Choose("op", 4), who: zzverif.Choose("op.validator", 2), val: zzverif.Big("op.value", 64), del: zzverif.Bool("op.deleteEmpty")}
	}
	a := zzC10rNew()
	for k, op := range ops {
		zzC10sApply(a, k, op, true)
	}
	root, valRoot, stakingRoot, err := a.Commit(true)
	zzverif.Assert(err == nil && a.Error() == nil, "commit succeeds")
	ra, err := New(root, valRoot, stakingRoot, zzC10rDB)
	zzverif.Assert(err == nil, "the committed roots open")
	if err != nil {
		return
	}
	zzverif.Reach("reopened")
	live, reopened := zzC10sObserve(a), zzC10sObserve(ra)
	zzverif.Assert(zzC10sSame(live, reopened), "the staking trie reopened from the committed roots shows the records and pending relationships of the live object")
	b := zzC10rNew()
	for k, op := range ops {
		zzC10sApply(b, k, op, false)
	}
	rootB, valRootB, stakingRootB, err := b.Commit(true)
	zzverif.Assert(err == nil && b.Error() == nil, "commit succeeds (single flush)")
	rb, err := New(rootB, valRootB, stakingRootB, zzC10rDB)
	zzverif.Assert(err == nil, "the committed roots open (single flush)")
	if err != nil {
		return
	}
	zzverif.Assert(zzC10sSame(reopened, zzC10sObserve(rb)), "committed staking content does not depend on where intermediate roots and commits were taken")
	zzverif.Reach("end")
}

// ---- the withdraw queue: records are also changed in place through GetWithdrawQueue ----
// (processWithdrawQueue marks a paid record finished, takePenalty lowers its FinalBalance)

type zzC10qOp struct {
	kind   int
	height uint64
	amt    *big.Int
	del    bool
}

func zzC10qApply(s *StateDB, k int, op zzC10qOp, flush bool) {
	switch op.kind {
	case 0:
		s.AddWithdrawRecord(&WithdrawRecord{Operator: zzAddr(2), Validator: zzValAddr(2), Nonce: uint64(70 + k), CompletionHeight: op.height,
			InitialBalance: new(big.Int).Set(op.amt), FinalBalance: new(big.Int).Set(op.amt)})
	case 1: // the record at the head is paid out
		if q := s.GetWithdrawQueue(); len(q.Records) > 0 {
			q.Records[0].Finished = 1
		}
	case 2: // a penalty is taken from the newest pending withdrawal
		if q := s.GetWithdrawQueue(); len(q.Records) > 0 {
			r := q.Records[len(q.Records)-1]
			r.FinalBalance = new(big.Int).Rsh(r.FinalBalance, 1)
		}
	case 3:
		if flush {
			s.IntermediateRoot(op.del)
		} else {
			s.Finalise(op.del)
		}
	case 4:
		if flush {
			s.Commit(op.del)
		} else {
			s.Finalise(op.del)
		}
	}
}

type zzC10qRec struct {
	nonce, height uint64
	finished      uint8
	initial, fin  *big.Int
}

func zzC10qObserve(s *StateDB) []zzC10qRec {
	var out []zzC10qRec
	for _, r := range s.GetWithdrawQueue().Records {
		out = append(out, zzC10qRec{r.Nonce, r.CompletionHeight, r.Finished, new(big.Int).Set(r.InitialBalance), new(big.Int).Set(r.FinalBalance)})
	}
	return out
}

func zzC10qSame(x, y []zzC10qRec) bool {
	if len(x) != len(y) {
		return false
	}
	oks := []bool{true}
	for i := range x {
		oks = append(oks, x[i].nonce == y[i].nonce, x[i].height == y[i].height, x[i].finished == y[i].finished, x[i].initial.Cmp(y[i].initial) == 0, x[i].fin.Cmp(y[i].fin) == 0)
	}
	return zzverif.All(oks...)
}

// zzH_C10_reopen_queue: withdraw records added, paid (finished in place) and penalised (balance
// lowered in place) with intermediate roots and commits at arbitrary positions: the queue
// reopened from the committed roots is the live queue, and that of a single-flush twin.
func zzH_C10_reopen_queue() {
	nops := zzverif.Bound("operations (withdraw queue)", 3, 4)
	ops := make([]zzC10qOp, nops)
	for i := range ops {
		ops[i] = zzC10qOp{kind: zzverif.Choose("op", 5), height: uint64(zzverif.U16("op.height")), amt: zzverif.Big("op.amount", 64), del: zzverif.Bool("op.deleteEmpty")}
	}
	a := zzC10rNew()
	for k, op := range ops {
		zzC10qApply(a, k, op, true)
	}
	root, valRoot, stakingRoot, err := a.Commit(true)
	zzverif.Assert(err == nil && a.Error() == nil, "commit succeeds")
	ra, err := New(root, valRoot, stakingRoot, zzC10rDB)
	zzverif.Assert(err == nil, "the committed roots open")
	if err != nil {
		return
	}
	zzverif.Reach("reopened")
	live, reopened := zzC10qObserve(a), zzC10qObserve(ra)
	zzverif.Assert(zzC10qSame(live, reopened), "the withdraw queue reopened from the committed roots is the live queue, in-place changes of its records included")
	b := zzC10rNew()
	for k, op := range ops {
		zzC10qApply(b, k, op, false)
	}
	rootB, valRootB, stakingRootB, err := b.Commit(true)
	zzverif.Assert(err == nil && b.Error() == nil, "commit succeeds (single flush)")
	rb, err := New(rootB, valRootB, stakingRootB, zzC10rDB)
	zzverif.Assert(err == nil, "the committed roots open (single flush)")
	if err != nil {
		return
	}
	zzverif.Assert(zzC10qSame(reopened, zzC10qObserve(rb)), "the committed queue does not depend on where intermediate roots and commits were taken")
	zzverif.Reach("end")
}
