package core

// C20 (pool level) — bounded symbolic histories over the real TxPool bookkeeping
// (add, enqueueTx, promoteTx, promoteExecutables, demoteUnexecutables, reset to a new head,
// truncatePending/Queue, removeTx, the real txList/txSortedMap/txPricedList/txLookup/txNoncer)
// with the views checked at every quiescent point (after the reorg step that the pool's
// loop runs after every batch of additions and every new head).

import (
	"math/big"
	"time"

	"github.com/youchainhq/go-youchain/common"
	"github.com/youchainhq/go-youchain/core/state"
	"github.com/youchainhq/go-youchain/core/types"
	"github.com/youchainhq/go-youchain/event"
	"github.com/youchainhq/go-youchain/zzverif"
)

//verif:mode int
//verif:replace $M/core/types.Sender zzC20pSender
//verif:replace (*$M/core/types.Transaction).Hash zzC20pHash
//verif:replace (*$M/core/types.Transaction).Size zzC20pSize
//verif:noop (*$M/core.TxPool).queueTxEvent
//verif:noop (*$M/event.Feed).Send
//verif:noop (*$M/core.txSenderCacher).recover

// the sender of a harness transaction is carried in its payload (signature recovery is C17's subject)
func zzC20pSender(signer types.Signer, tx *types.Transaction) (common.Address, error) {
	return common.Address{0x10 + tx.Data()[0]}, nil
}

// transaction identity: an injective function of (sender, nonce, price)
func zzC20pHash(tx *types.Transaction) common.Hash {
	return common.Hash{0x77, tx.Data()[0], byte(tx.Nonce()), byte(tx.GasPrice().Uint64())}
}

func zzC20pSize(tx *types.Transaction) common.StorageSize { return 120 }

type zzC20pChain struct{ next *state.StateDB }

func (c *zzC20pChain) CurrentBlock() *types.Block                            { return nil }
func (c *zzC20pChain) GetBlock(hash common.Hash, number uint64) *types.Block { return nil }
func (c *zzC20pChain) StateAt(root, valRoot, stakingRoot common.Hash) (*state.StateDB, error) {
	return c.next, nil
}
func (c *zzC20pChain) Processor() Processor { return nil }
func (c *zzC20pChain) SubscribeChainHeadEvent(ch chan<- ChainHeadEvent) event.Subscription {
	return nil
}

const zzC20pAccounts = 2

func zzC20pState(nonce [zzC20pAccounts]uint64, bal [zzC20pAccounts]*big.Int) *state.StateDB {
	s := zzNewState()
	for i := 0; i < zzC20pAccounts; i++ {
		s.SetNonce(common.Address{0x10 + byte(i)}, nonce[i])
		s.SetBalance(common.Address{0x10 + byte(i)}, bal[i])
	}
	s.Finalise(false)
	return s
}

// the views of the statement, at a quiescent point
func zzC20pCheck(pool *TxPool, when string) {
	total := 0
	for i := 0; i < zzC20pAccounts; i++ {
		addr := common.Address{0x10 + byte(i)}
		base := pool.currentState.GetNonce(addr)
		bal := pool.currentState.GetBalance(addr)
		np := 0
		var lastPending uint64
		if l := pool.pending[addr]; l != nil {
			zzverif.Assert(!l.Empty(), "no empty pending list is kept ("+when+")")
			txs := l.Flatten()
			np = len(txs)
			for k, tx := range txs {
				zzverif.Assert(tx.Nonce() == base+uint64(k), "pending transactions form a gap-free nonce sequence from the account nonce ("+when+")")
				zzverif.Assert(tx.Cost().Cmp(bal) <= 0, "pending transactions are affordable ("+when+")")
				zzverif.Assert(pool.all.Get(zzC20pHash(tx)) == tx, "every pending transaction is in the lookup ("+when+")")
				lastPending = tx.Nonce()
			}
		}
		zzverif.Assert(pool.pendingNonces.get(addr) == base+uint64(np), "the pending nonce is one past the last pending transaction ("+when+")")
		nq := 0
		if l := pool.queue[addr]; l != nil {
			zzverif.Assert(!l.Empty(), "no empty queue list is kept ("+when+")")
			txs := l.Flatten()
			nq = len(txs)
			for _, tx := range txs {
				zzverif.Assert(tx.Nonce() >= base && (np == 0 || tx.Nonce() > lastPending), "queued transactions lie strictly above the pending ones ("+when+")")
				zzverif.Assert(pool.all.Get(zzC20pHash(tx)) == tx, "every queued transaction is in the lookup ("+when+")")
				if np > 0 || true {
					// not both pending and queued
					if pl := pool.pending[addr]; pl != nil {
						zzverif.Assert(pl.txs.Get(tx.Nonce()) != tx, "a transaction is pending or queued, not both ("+when+")")
					}
				}
			}
			if !pool.locals.contains(addr) {
				zzverif.Assert(uint64(nq) <= pool.config.AccountQueue, "the per-account queue limit is respected ("+when+")")
			}
		}
		total += np + nq
	}
	zzverif.Assert(pool.all.Count() == total, "the lookup holds exactly the pending and queued transactions ("+when+")")
	zzverif.Assert(len(*pool.priced.items) == pool.all.Count()+pool.priced.stales && pool.priced.stales >= 0, "the price heap holds every pooled transaction plus the counted stale entries ("+when+")")
	// what the pool reports as pending is what the lists hold
	rep, _ := pool.Pending()
	for i := 0; i < zzC20pAccounts; i++ {
		addr := common.Address{0x10 + byte(i)}
		want := 0
		if l := pool.pending[addr]; l != nil {
			want = l.Len()
		}
		zzverif.Assert(len(rep[addr]) == want, "Pending() reports exactly the pending lists ("+when+")")
	}
}

// one entry per first operation, so that the sub-trees are explored in parallel
func zzH_C20_pool_add()  { zzC20Pool(0) }
func zzH_C20_pool_head() { zzC20Pool(1) }

func zzC20Pool(firstOp int) {
	ops := zzverif.Bound("poolOps", 3, 3)
	var nonce [zzC20pAccounts]uint64
	var bal [zzC20pAccounts]*big.Int
	for i := range nonce {
		nonce[i] = uint64(zzverif.U8("account.nonce") & 1)
		bal[i] = big.NewInt(1 << 40)
	}
	st := zzC20pState(nonce, bal)
	chain := &zzC20pChain{}
	signer := types.NewYouSigner(1)
	pool := &TxPool{
		config:        TxPoolConfig{PriceBump: 10, AccountSlots: 1, GlobalSlots: 3, AccountQueue: 2, GlobalQueue: 3, Lifetime: time.Hour},
		chain:         chain,
		signer:        signer,
		gasPrice:      big.NewInt(1),
		currentState:  st,
		pendingNonces: newTxNoncer(st),
		currentMaxGas: 1 << 30,
		router:        &StateProcessor{defaultConverter: &DefaultConverter{}, txConverters: map[common.Address]TxConverter{}},
		locals:        newAccountSet(signer),
		pending:       map[common.Address]*txList{},
		queue:         map[common.Address]*txList{},
		beats:         map[common.Address]time.Time{},
		all:           newTxLookup(),
	}
	pool.priced = newTxPricedList(pool.all)
	to := common.Address{0x99}
	dirty := newAccountSet(signer)
	reorg := func(reset *txpoolResetRequest) {
		pool.runReorg(make(chan struct{}), reset, dirty, map[common.Address]*txSortedMap{})
		dirty = newAccountSet(signer)
	}
	for step := 0; step < ops; step++ {
		op := firstOp
		if step > 0 {
			op = zzverif.Choose("op", 3)
		}
		switch op {
		case 0: // a transaction arrives, then the loop's promotion step runs
			who := byte(zzverif.Choose("tx.sender", zzC20pAccounts))
			n := uint64(zzverif.U8("tx.nonce"))
			zzverif.Assume(n < uint64(zzverif.Bound("txNonceBelow", 4, 5)))
			price := int64(zzverif.U8("tx.price"))
			zzverif.Assume(price >= 1 && price <= int64(zzverif.Bound("txPriceUpTo", 3, 4)))
			tx := types.NewTransaction(n, to, new(big.Int), 30000, big.NewInt(price), []byte{who})
			_, err := pool.add(tx, false)
			if err == nil {
				zzverif.Reach("added")
				dirty.add(common.Address{0x10 + who})
				reorg(nil)
			} else {
				zzverif.Reach("refused")
			}
		case 1: // a new head: account nonces advance, balances may shrink
			for i := range nonce {
				nonce[i] += uint64(zzverif.U8("head.nonceAdvance") & 1)
				if zzverif.Bool("head.poor") {
					bal[i] = big.NewInt(70000) // affords a 30000-gas transaction at price 1 or 2 only
				}
			}
			chain.next = zzC20pState(nonce, bal)
			zzverif.Reach("new-head")
			reorg(&txpoolResetRequest{nil, &types.Header{Number: big.NewInt(int64(step + 1)), GasLimit: 1 << 30}})
		case 2: // an explicit removal (as the eviction loop and the price cap do)
			who := byte(zzverif.Choose("rm.sender", zzC20pAccounts))
			n := uint64(zzverif.U8("rm.nonce"))
			zzverif.Assume(n < 4)
			var victim *types.Transaction
			addr := common.Address{0x10 + who}
			if l := pool.pending[addr]; l != nil {
				victim = l.txs.Get(n)
			}
			if l := pool.queue[addr]; victim == nil && l != nil {
				victim = l.txs.Get(n)
			}
			if victim == nil {
				zzverif.Assume(false)
			}
			zzverif.Reach("removed")
			pool.removeTx(zzC20pHash(victim), true)
			dirty.add(addr)
			reorg(nil)
		}
		zzC20pCheck(pool, "after the reorg step")
	}
	zzverif.Reach("end")
}

// zzH_C20_truncate_pending: the global pending limit, from a directly constructed pool: three
// accounts with 0..5 gap-free pending transactions each (one of them possibly local),
// AccountSlots 1, GlobalSlots 4; one call of the real truncatePending.  Afterwards the pool
// is within the global limit unless every remote account is within its own allowance;
// locals and accounts within their allowance lose nothing; eviction stops within one round of the limit;
// every list is still gap-free and lookup, price heap and pending nonces follow.
func zzH_C20_truncate_pending() {
	const accounts = 3
	st := zzNewState()
	for i := 0; i < accounts; i++ {
		st.SetBalance(common.Address{0x10 + byte(i)}, big.NewInt(1<<40))
	}
	st.Finalise(false)
	signer := types.NewYouSigner(1)
	pool := &TxPool{
		config:        TxPoolConfig{PriceBump: 10, AccountSlots: 1, GlobalSlots: 4, AccountQueue: 2, GlobalQueue: 3, Lifetime: time.Hour},
		chain:         &zzC20pChain{},
		signer:        signer,
		gasPrice:      big.NewInt(1),
		currentState:  st,
		pendingNonces: newTxNoncer(st),
		currentMaxGas: 1 << 30,
		locals:        newAccountSet(signer),
		pending:       map[common.Address]*txList{},
		queue:         map[common.Address]*txList{},
		beats:         map[common.Address]time.Time{},
		all:           newTxLookup(),
	}
	pool.priced = newTxPricedList(pool.all)
	to := common.Address{0x99}
	var before [accounts]int
	total := 0
	for i := 0; i < accounts; i++ {
		addr := common.Address{0x10 + byte(i)}
		before[i] = zzverif.Choose("account.pending", 6)
		if before[i] == 0 {
			continue
		}
		pool.pending[addr] = newTxList(true)
		for n := 0; n < before[i]; n++ {
			tx := types.NewTransaction(uint64(n), to, new(big.Int), 30000, big.NewInt(1), []byte{byte(i)})
			pool.pending[addr].Add(tx, 10)
			pool.all.Add(tx)
			pool.priced.Put(tx)
		}
		pool.pendingNonces.set(addr, uint64(before[i]))
		total += before[i]
	}
	local := zzverif.Bool("thirdAccountIsLocal")
	if local {
		pool.locals.add(common.Address{0x10 + 2})
	}
	pool.truncatePending()
	after, offenders := 0, false
	for i := 0; i < accounts; i++ {
		addr := common.Address{0x10 + byte(i)}
		n := 0
		if l := pool.pending[addr]; l != nil {
			n = l.Len()
			for k, tx := range l.Flatten() {
				zzverif.Assert(tx.Nonce() == uint64(k), "a truncated pending list is still gap-free from the account nonce")
			}
		}
		after += n
		isLocal := local && i == 2
		if !isLocal && uint64(n) > pool.config.AccountSlots {
			offenders = true
		}
		if isLocal || uint64(before[i]) <= pool.config.AccountSlots {
			zzverif.Assert(n == before[i], "locals and accounts within their allowance lose nothing")
		}
		zzverif.Assert(n <= before[i] && (n == before[i] || uint64(n) >= pool.config.AccountSlots), "nobody is cut below the per-account allowance")
		if n < before[i] {
			zzverif.Assert(pool.pendingNonces.get(addr) == uint64(n), "the pending nonce follows the truncation")
		}
	}
	zzverif.Assert(uint64(after) <= pool.config.GlobalSlots || !offenders, "the pool is within the global pending limit unless every remote account is within its own allowance")
	if uint64(total) <= pool.config.GlobalSlots {
		zzverif.Assert(after == total, "nothing is evicted from a pool within the limit")
	} else {
		// (a round takes one transaction from every offender, so the last round may overshoot by
		// fewer than the number of offenders - the statement asks for the limits, not for minimal eviction)
		zzverif.Assert(uint64(after)+accounts-1 >= pool.config.GlobalSlots, "eviction stops within one round of the limit")
		zzverif.Reach("truncated")
	}
	zzverif.Assert(pool.all.Count() == after, "the lookup holds exactly the remaining transactions")
	zzverif.Reach("end")
}
