package core

// C20 — the per-account transaction lists the pool is built from stay consistent:
// inductive step over txSortedMap / txList from an arbitrary invariant-satisfying
// state with three transactions of symbolic nonce, price, gas and value.

import (
	"math/big"

	"github.com/youchainhq/go-youchain/common"
	"github.com/youchainhq/go-youchain/core/types"
	"github.com/youchainhq/go-youchain/zzverif"
)

//verif:mode bv W=200

func zzC20Tx(tag string) *types.Transaction {
	nonce := zzverif.U64(tag + ".nonce")
	price := new(big.Int).SetUint64(uint64(zzverif.U32(tag + ".price")))
	value := new(big.Int).SetUint64(uint64(zzverif.U32(tag + ".value")))
	gas := uint64(zzverif.U32(tag + ".gas"))
	return types.NewTransaction(nonce, common.Address{1}, value, gas, price, nil)
}

// zzC20State: an arbitrary txSortedMap with n (<= 3) transactions of distinct symbolic
// nonces, an arbitrary heap-ordered index and an optionally populated cache.
func zzC20State() (*txSortedMap, []*types.Transaction) {
	n := zzverif.Choose("size", 4)
	m := newTxSortedMap()
	var txs []*types.Transaction
	for i := 0; i < n; i++ {
		tx := zzC20Tx("tx")
		for _, o := range txs {
			zzverif.Assume(o.Nonce() != tx.Nonce())
		}
		txs = append(txs, tx)
		m.items[tx.Nonce()] = tx
		*m.index = append(*m.index, tx.Nonce())
	}
	// any arrangement of the index that satisfies the min-heap law
	if n >= 2 {
		zzverif.Assume((*m.index)[0] <= (*m.index)[1])
	}
	if n >= 3 {
		zzverif.Assume((*m.index)[0] <= (*m.index)[2])
	}
	if zzverif.Bool("cached") {
		m.Flatten()
	}
	return m, txs
}

// zzC20Inv: items keyed by their own nonce; index = the key set, heap-ordered; cache nil or sorted content.
func zzC20Inv(m *txSortedMap) bool {
	idx := *m.index
	var oks []bool
	oks = append(oks, len(idx) == len(m.items))
	for k, tx := range m.items {
		oks = append(oks, tx != nil && tx.Nonce() == k)
		cnt := 0
		for _, x := range idx {
			if x == k {
				cnt++
			}
		}
		oks = append(oks, cnt == 1)
	}
	for i := range idx {
		if 2*i+1 < len(idx) {
			oks = append(oks, idx[i] <= idx[2*i+1])
		}
		if 2*i+2 < len(idx) {
			oks = append(oks, idx[i] <= idx[2*i+2])
		}
	}
	if m.cache != nil {
		oks = append(oks, len(m.cache) == len(m.items))
		for i := range m.cache {
			oks = append(oks, m.items[m.cache[i].Nonce()] == m.cache[i])
			if i+1 < len(m.cache) {
				oks = append(oks, m.cache[i].Nonce() < m.cache[i+1].Nonce())
			}
		}
	}
	return zzverif.All(oks...)
}

func zzC20Has(list types.Transactions, tx *types.Transaction) bool {
	for _, x := range list {
		if x == tx {
			return true
		}
	}
	return false
}

func zzC20Ascending(list types.Transactions) bool {
	for i := 0; i+1 < len(list); i++ {
		if list[i].Nonce() >= list[i+1].Nonce() {
			return false
		}
	}
	return true
}

func zzH_C20_sortedmap() {
	m, txs := zzC20State()
	zzverif.Assume(zzC20Inv(m))
	zzverif.Reach("pre")
	switch zzverif.Choose("op", 7) {
	case 0: // Put (new nonce or replacing)
		tx := zzC20Tx("new")
		m.Put(tx)
		zzverif.Assert(m.Get(tx.Nonce()) == tx, "Put stores the transaction under its nonce")
		for _, o := range txs {
			zzverif.Assert((m.Get(o.Nonce()) == o) == (o.Nonce() != tx.Nonce()), "Put replaces exactly the transaction with the same nonce")
		}
	case 1: // Forward
		t := zzverif.U64("threshold")
		rem := m.Forward(t)
		zzverif.Assert(zzC20Ascending(rem), "Forward returns ascending nonces")
		for _, o := range txs {
			zzverif.Assert(zzC20Has(rem, o) == (o.Nonce() < t), "Forward removes exactly the nonces below the threshold")
			zzverif.Assert((m.Get(o.Nonce()) == o) == (o.Nonce() >= t), "Forward keeps exactly the nonces at or above the threshold")
		}
	case 2: // Filter
		x := zzverif.U64("filter.above")
		rem := m.Filter(func(tx *types.Transaction) bool { return tx.Nonce() > x })
		for _, o := range txs {
			zzverif.Assert(zzC20Has(rem, o) == (o.Nonce() > x) && (m.Get(o.Nonce()) == o) == (o.Nonce() <= x), "Filter removes exactly the matching transactions")
		}
	case 3: // Cap
		k := zzverif.Choose("cap", 4)
		drops := m.Cap(k)
		zzverif.Assert(m.Len() <= k && m.Len()+len(drops) == len(txs), "Cap leaves at most the limit")
		for _, o := range txs {
			lower := 0
			for _, p := range txs {
				if p.Nonce() < o.Nonce() {
					lower++
				}
			}
			kept := len(txs) <= k || lower < k
			zzverif.Assert((m.Get(o.Nonce()) == o) == kept && zzC20Has(drops, o) == !kept, "Cap drops exactly the highest nonces")
		}
	case 4: // Remove
		n := zzverif.U64("remove")
		present := m.Get(n) != nil
		zzverif.Assert(m.Remove(n) == present, "Remove reports whether the nonce was present")
		for _, o := range txs {
			zzverif.Assert((m.Get(o.Nonce()) == o) == (o.Nonce() != n), "Remove deletes exactly that nonce")
		}
	case 5: // Ready
		s := zzverif.U64("start")
		ready := m.Ready(s)
		zzverif.Assert(zzC20Ascending(ready), "Ready returns ascending nonces")
		// specification: the maximal gap-free run from the lowest nonce, provided the lowest nonce <= start
		for _, o := range txs {
			lowest := true
			for _, p := range txs {
				if p.Nonce() < o.Nonce() {
					lowest = false
				}
			}
			// o is in the run iff lowest-nonce <= start and every nonce between the lowest and o.Nonce() is present
			inRun := false
			for _, l := range txs {
				isLowest := true
				for _, p := range txs {
					if p.Nonce() < l.Nonce() {
						isLowest = false
					}
				}
				if isLowest && l.Nonce() <= s {
					present := 0
					for _, p := range txs {
						if p.Nonce() >= l.Nonce() && p.Nonce() <= o.Nonce() {
							present++
						}
					}
					inRun = uint64(present) == o.Nonce()-l.Nonce()+1
				}
			}
			_ = lowest
			zzverif.Assert(zzC20Has(ready, o) == inRun && (m.Get(o.Nonce()) == o) == !inRun, "Ready returns and removes exactly the gap-free run from the lowest nonce")
		}
	case 6: // Flatten
		fl := m.Flatten()
		zzverif.Assert(len(fl) == len(txs) && zzC20Ascending(fl), "Flatten lists every transaction in nonce order")
		for _, o := range txs {
			zzverif.Assert(zzC20Has(fl, o), "Flatten lists every transaction")
		}
	}
	zzverif.Assert(zzC20Inv(m), "representation invariant preserved (heap index = key set, cache nil or sorted)")
	zzverif.Reach("end")
}

// zzH_C20_list: txList on top — Add's replacement rule, caps as upper bounds, and
// strict Filter leaving no nonce above a removed one (the gap-free pending core).
//
//verif:mode int
func zzH_C20_list() {
	l := newTxList(true)
	var txs []*types.Transaction
	n := zzverif.Choose("size", zzverif.Bound("listSize", 2, 3)+1)
	for i := 0; i < n; i++ {
		tx := zzC20Tx("tx")
		for _, o := range txs {
			zzverif.Assume(o.Nonce() != tx.Nonce())
		}
		ok, old := l.Add(tx, 10)
		zzverif.Assert(ok && old == nil, "Add accepts a fresh nonce")
		txs = append(txs, tx)
	}
	capsOK := func() bool {
		var oks []bool
		for _, tx := range l.Flatten() {
			oks = append(oks, l.costcap.Cmp(tx.Cost()) >= 0, l.gascap >= tx.Gas())
		}
		return zzverif.All(oks...)
	}
	zzverif.Assert(capsOK(), "costcap / gascap bound every member after Add")
	switch zzverif.Choose("op", 2) {
	case 0: // replacement
		if n == 0 {
			zzverif.Assume(false)
		}
		old := txs[0]
		nt := zzC20Tx("repl")
		zzverif.Assume(nt.Nonce() == old.Nonce())
		ok, prev := l.Add(nt, 10)
		// specification: accepted iff price > old price and price >= old price * 110 / 100
		th := new(big.Int).Div(new(big.Int).Mul(old.GasPrice(), big.NewInt(110)), big.NewInt(100))
		want := nt.GasPrice().Cmp(old.GasPrice()) > 0 && nt.GasPrice().Cmp(th) >= 0
		zzverif.Assert(ok == want, "a same-nonce transaction replaces only with the price bump")
		if ok {
			zzverif.Reach("replaced")
			zzverif.Assert(prev == old && l.txs.Get(old.Nonce()) == nt, "the replaced transaction is returned")
		} else {
			zzverif.Assert(l.txs.Get(old.Nonce()) == old, "a rejected replacement changes nothing")
		}
		zzverif.Assert(capsOK(), "caps bound every member after a replacement")
	case 1: // Filter by balance / gas limit in strict mode
		costLimit := new(big.Int).SetUint64(zzverif.U64("costLimit"))
		gasLimit := uint64(zzverif.U32("gasLimit"))
		removed, invalids := l.Filter(costLimit, gasLimit)
		zzverif.Reach("filtered")
		for _, o := range txs {
			over := o.Cost().Cmp(costLimit) > 0 || o.Gas() > gasLimit
			zzverif.Assert(zzC20Has(removed, o) == over, "Filter removes exactly the unaffordable / over-limit transactions")
			// strict: nothing stays above a removed nonce
			above := false
			for _, p := range txs {
				pOver := p.Cost().Cmp(costLimit) > 0 || p.Gas() > gasLimit
				if pOver && p.Nonce() < o.Nonce() {
					above = true
				}
			}
			zzverif.Assert(zzC20Has(invalids, o) == (!over && above), "strict Filter invalidates exactly the survivors above a removed nonce")
			zzverif.Assert((l.txs.Get(o.Nonce()) == o) == (!over && !above), "what stays is affordable and below every removed nonce")
		}
		zzverif.Assert(capsOK(), "caps bound every member after Filter")
	}
	zzverif.Assert(zzC20Inv(l.txs), "representation invariant preserved")
	zzverif.Reach("end")
}
