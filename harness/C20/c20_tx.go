package types

// C20 (what the pool judges by) — the transaction accessors the pool's admission and
// affordability rules are computed from: Cost() is amount + price x gas limit over the
// integers for every price, gas limit and amount (no machine-word wrap), and the
// accessors return the constructor's values as independent copies.

import (
	"math/big"

	"github.com/youchainhq/go-youchain/common"
	"github.com/youchainhq/go-youchain/zzverif"
)

//verif:mode int

func zzH_C20_tx_cost() {
	nonce, gas := zzverif.U64("nonce"), zzverif.U64("gasLimit")
	price, amount := zzverif.Big("gasPrice", 100), zzverif.Big("amount", 100)
	var tx *Transaction
	if zzverif.Bool("creation") {
		tx = NewContractCreation(nonce, amount, gas, price, nil)
	} else {
		tx = NewTransaction(nonce, common.Address{1}, amount, gas, price, nil)
	}
	want := new(big.Int).Mul(price, new(big.Int).SetUint64(gas))
	want.Add(want, amount)
	zzverif.Assert(tx.Cost().Cmp(want) == 0, "Cost is amount + gas price x gas limit over the integers")
	zzverif.Assert(tx.Gas() == gas && tx.Nonce() == nonce && tx.GasPrice().Cmp(price) == 0 && tx.Value().Cmp(amount) == 0, "accessors return the constructor's values")
	p := tx.GasPrice()
	p.Add(p, big.NewInt(1))
	zzverif.Assert(tx.GasPrice().Cmp(price) == 0 && tx.Cost().Cmp(want) == 0, "a returned price is a copy: changing it does not change the transaction")
	zzverif.Reach("end")
}
