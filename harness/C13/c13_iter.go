package trie

// C13 (iteration) — the real nodeIterator / Iterator over a trie built from symbolic
// keys (fully loaded, reopened, or with the root itself unloaded) returns exactly the surviving pairs, each once, in ascending key order
// whenever no key is a prefix of another.

import (
	"bytes"

	"github.com/youchainhq/go-youchain/zzverif"
)

//verif:mode bv
//verif:replace $M/rlp.Encode zzC13pEncode
//verif:replace (*$M/trie.hasher).makeHashNode zzC13pHash
//verif:replace $M/trie.newHasher zzC13pNewHasher
//verif:noop $M/trie.returnHasherToPool

//verif:replace (*$M/trie.Trie).resolveHash zzC13Resolve
func zzH_C13_iterate() {
	ops := zzverif.Bound("iterOps", 3, 4)
	zzC13pNodes = nil
	zzC13Store, zzC13Next = map[byte]node{}, 0
	t := &Trie{db: new(Database)}
	var model []zzC13KV
	lens := 1 + zzverif.Choose("prefixKeys", 2)
	g := &zzC13Keys{lens: lens}
	for i := 0; i < ops; i++ {
		if lens == 2 {
			g.fixed = 1 + i%2
		}
		k := g.next("key")
		var v []byte
		if i == 0 || !zzverif.Bool("delete") {
			v = []byte{zzverif.U8("val")}
		}
		t.TryUpdate(k, v)
		model = append(model, zzC13KV{k, v})
	}
	// the surviving pairs
	var live []zzC13KV
	for i, e := range model {
		last := true
		for _, later := range model[i+1:] {
			if bytes.Equal(later.k, e.k) {
				last = false
			}
		}
		if last && e.v != nil {
			live = append(live, e)
		}
	}
	// how much of the trie is loaded: everything; only the root (after Commit + New); or
	// nothing, the root itself a hash reference (Commit unloads a clean, aged root)
	switch zzverif.Choose("loaded", 3) {
	case 1:
		t.root = zzC13Hashify(t.root, true)
		zzverif.Reach("reopened")
	case 2:
		t.root = zzC13Hashify(t.root, false)
		zzverif.Reach("root-unloaded")
	}
	it := NewIterator(t.NodeIterator(nil))
	var got []zzC13KV
	for it.Next() {
		got = append(got, zzC13KV{append([]byte(nil), it.Key...), append([]byte(nil), it.Value...)})
		if len(got) > len(model) {
			break
		}
	}
	zzverif.Reach("iterated")
	zzverif.Assert(it.Err == nil, "iteration ends without an error")
	zzverif.Assert(len(got) == len(live), "iteration returns as many pairs as survive")
	for _, e := range live {
		n := 0
		for _, x := range got {
			if bytes.Equal(x.k, e.k) && bytes.Equal(x.v, e.v) {
				n++
			}
		}
		zzverif.Assert(n == 1, "every surviving pair is returned exactly once")
	}
	if lens == 1 {
		for i := 1; i < len(got); i++ {
			zzverif.Assert(bytes.Compare(got[i-1].k, got[i].k) < 0, "keys come in ascending order when no key is a prefix of another")
		}
	}
	zzverif.Reach("end")
}
