package trie

// C10 / C13 — a copied trie is independent of its original.  StateDB.Copy and
// stateObject.deepCopy copy tries shallowly (SecureTrie.Copy / CopyTrie copy the Trie
// struct, both share the node graph) and rely on insert / delete never modifying a node
// in place.  The real Trie runs any updates, is copied, and both copies then take
// further updates in any interleaving; each must read exactly its own content.

import (
	"bytes"

	"github.com/youchainhq/go-youchain/zzverif"
)

//verif:mode bv

func zzC13cOp(t *Trie, g *zzC13Keys, model []zzC13KV) []zzC13KV {
	k := g.next("key")
	var v []byte
	if !zzverif.Bool("delete") {
		v = []byte{zzverif.U8("val")}
	}
	if err := t.TryUpdate(k, v); err != nil {
		zzverif.Assert(false, "in-memory update does not fail")
	}
	return append(model, zzC13KV{k, v})
}

func zzC13cCheck(t *Trie, model []zzC13KV, q []byte, label string) {
	got, err := t.TryGet(q)
	want := zzC13ModelGet(model, q)
	zzverif.Assert(err == nil && bytes.Equal(got, want) && (got == nil) == (want == nil), label)
}

func zzH_C13_copy() {
	t := &Trie{db: new(Database)}
	g := &zzC13Keys{lens: 1}
	var model []zzC13KV
	pre := zzverif.Bound("copyPreOps", 2, 2)
	post := zzverif.Bound("copyPostOps", 1, 2)
	for i := 0; i < pre; i++ {
		model = zzC13cOp(t, g, model)
	}
	cp := *t // SecureTrie.Copy / cachingDB.CopyTrie
	c := &cp
	modelC := append([]zzC13KV(nil), model...)
	for i := 0; i < post; i++ {
		if zzverif.Bool("onCopy") {
			modelC = zzC13cOp(c, g, modelC)
		} else {
			model = zzC13cOp(t, g, model)
		}
	}
	q := g.next("query")
	zzC13cCheck(t, model, q, "the original reads its own content after the copy was written to")
	zzC13cCheck(c, modelC, q, "the copy reads its own content after the original was written to")
	zzverif.Reach("end")
}
