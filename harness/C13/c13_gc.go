package trie

// C13 (garbage collection) — "garbage-collecting unrelated roots loses nothing".  The real
// node database (InsertBlob, Reference, Dereference with its reference counts and cascade)
// over three blobs and every schedule of parent→child links, root references (a root may
// be referenced several times, e.g. by two blocks with the same state root) and releases
// of references the caller holds: a node reachable from a root that is still referenced
// stays readable from memory.

import (
	"errors"

	"github.com/youchainhq/go-youchain/common"
	"github.com/youchainhq/go-youchain/youdb"
	"github.com/youchainhq/go-youchain/zzverif"
)

//verif:mode bv

type zzC13gDisk struct{ youdb.Database }

func (zzC13gDisk) Get(k []byte) ([]byte, error) { return nil, errors.New("not found") }
func (zzC13gDisk) Has(k []byte) (bool, error)   { return false, nil }

func zzH_C13_gc() {
	db := NewDatabase(zzC13gDisk{})
	var h [3]common.Hash
	for i := range h {
		h[i] = common.Hash{0xD0, byte(i + 1)}
		db.InsertBlob(h[i], []byte{byte(i + 1)})
	}
	links := [][2]int{{1, 0}, {2, 0}, {2, 1}} // child, parent
	var linked [3]bool
	var held [3]int // references from the meta root the callers hold
	present := func(i int) bool { _, err := db.Node(h[i]); return err == nil }
	n := zzverif.Bound("gcOps", 4, 5)
	for k := 0; k < n; k++ {
		op := zzverif.Choose("op", 9)
		switch {
		case op < 3:
			l := links[op]
			// (references are taken between nodes that are in the cache: a commit inserts its
			// nodes and then references them; what was collected is gone for good here)
			if !present(l[0]) || !present(l[1]) {
				continue
			}
			db.Reference(h[l[0]], h[l[1]])
			linked[op] = true
		case op < 6:
			if !present(op - 3) {
				continue
			}
			db.Reference(h[op-3], common.Hash{})
			held[op-3]++
		default:
			i := op - 6
			if held[i] == 0 {
				continue // nobody releases a reference it does not hold
			}
			db.Dereference(h[i])
			held[i]--
			zzverif.Reach("released")
		}
		// liveness by reachability from still-referenced roots
		var live [3]bool
		for i := range live {
			live[i] = held[i] > 0
		}
		for round := 0; round < 2; round++ {
			for li, l := range links {
				if linked[li] && live[l[1]] {
					live[l[0]] = true
				}
			}
		}
		for i := range live {
			if live[i] {
				_, err := db.Node(h[i])
				zzverif.Assert(err == nil, "a node reachable from a root that is still referenced stays in the node cache")
			}
		}
	}
	zzverif.Reach("end")
}
