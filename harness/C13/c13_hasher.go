package trie

// C13 (embedding rule of the hasher) — the standard Merkle-Patricia root embeds a child whose
// RLP encoding is shorter than 32 bytes in its parent and references every other child by the
// hash of its encoding; the root itself is always hashed.  hasher.store is run with the node's
// encoding an arbitrary byte string of every length 0..40 (the reflective encoder is outside
// the model) and the hash function a stand-in.

import (
	"io"

	"github.com/youchainhq/go-youchain/zzverif"
)

//verif:mode bv
//verif:replace $M/rlp.Encode zzC13hEncode
//verif:replace (*$M/trie.hasher).makeHashNode zzC13hHash

var zzC13hLen int
var zzC13hSeen []byte

func zzC13hEncode(w io.Writer, val interface{}) error {
	w.Write(zzverif.Bytes("nodeEncoding", zzC13hLen))
	return nil
}

func zzC13hHash(h *hasher, data []byte) hashNode {
	zzC13hSeen = append([]byte(nil), data...)
	n := make(hashNode, 32)
	n[0] = 0xAB
	return n
}

func zzH_C13_embedding() {
	zzC13hLen = zzverif.Choose("encodedLength", 41)
	zzC13hSeen = nil
	force := zzverif.Bool("isRoot")
	n := &shortNode{Key: []byte{1, 16}, Val: valueNode{7}}
	h := &hasher{}
	got, err := h.store(n, nil, force)
	zzverif.Assert(err == nil, "store succeeds")
	if zzC13hLen < 32 && !force {
		zzverif.Reach("embedded")
		zzverif.Assert(got == node(n), "a node whose encoding is shorter than 32 bytes is embedded in its parent")
	} else {
		zzverif.Reach("hashed")
		hn, ok := got.(hashNode)
		zzverif.Assert(ok && len(hn) == 32, "a node of 32 bytes or more (and the root) is referenced by its hash")
		zzverif.Assert(len(zzC13hSeen) == zzC13hLen, "the hash is taken over the whole encoding")
	}
	zzverif.Reach("end")
}
