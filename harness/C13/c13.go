package trie

// C13 — the Merkle-Patricia trie is a faithful, canonical, provable map
// (structural half: key encodings, node decoding of hostile bytes, in-memory
// insert/delete/get against an association-list model and a canonical rebuild).

import (
	"bytes"

	"github.com/youchainhq/go-youchain/zzverif"
)

//verif:mode bv

func zzC13Nibbles(name string, maxLen int) []byte {
	l := zzverif.Choose(name+".len", maxLen+1)
	h := zzverif.Bytes(name, l)
	for _, b := range h {
		zzverif.Assume(b < 16)
	}
	return h
}

// zzH_C13_compact: compact (hex-prefix) encoding is a bijection with the Yellow-Paper flag bits.
func zzH_C13_compact() {
	n := zzverif.Bound("nibbles", 7, 12)
	h := zzC13Nibbles("hex", n)
	term := zzverif.Bool("terminator")
	in := append([]byte(nil), h...)
	if term {
		in = append(in, 16)
	}
	saved := append([]byte(nil), in...)
	c := hexToCompact(in)
	zzverif.Assert(bytes.Equal(in, saved), "hexToCompact does not modify its argument")
	zzverif.Assert(len(c) == len(h)/2+1, "compact length is floor(n/2)+1")
	zzverif.Assert((c[0]>>5 == 1) == term && c[0]>>6 == 0, "terminator flag is bit 5 of the first byte")
	zzverif.Assert((c[0]>>4)&1 == byte(len(h)&1), "odd-length flag is bit 4 of the first byte")
	if len(h)&1 == 0 {
		zzverif.Assert(c[0]&0x0f == 0, "even length: low nibble of the flag byte is zero")
	} else {
		zzverif.Assert(c[0]&0x0f == h[0], "odd length: the first nibble rides in the flag byte")
	}
	back := compactToHex(c)
	zzverif.Assert(bytes.Equal(back, saved), "compactToHex inverts hexToCompact")
	zzverif.Reach("end")
}

// zzH_C13_keybytes: keybytesToHex / hexToKeybytes round trip, prefixLen specification.
func zzH_C13_keybytes() {
	n := zzverif.Bound("keybytes", 4, 6)
	k := zzverif.Bytes("key", zzverif.Choose("key.len", n+1))
	hx := keybytesToHex(k)
	zzverif.Assert(len(hx) == 2*len(k)+1 && hx[len(hx)-1] == 16, "hex form has two nibbles per byte plus the terminator")
	for i := range k {
		zzverif.Assert(hx[2*i] == k[i]>>4 && hx[2*i+1] == k[i]&15, "nibbles are the high and low halves")
	}
	zzverif.Assert(bytes.Equal(hexToKeybytes(hx), k), "hexToKeybytes inverts keybytesToHex")
	o := zzverif.Bytes("other", zzverif.Choose("other.len", n+1))
	p := prefixLen(k, o)
	zzverif.Assert(p <= len(k) && p <= len(o), "prefixLen within both arguments")
	zzverif.Assert(bytes.Equal(k[:p], o[:p]), "the first prefixLen bytes agree")
	zzverif.Assert(p == len(k) || p == len(o) || k[p] != o[p], "prefixLen is maximal")
	zzverif.Reach("end")
}

// zzH_C13_decode: decodeNode on every byte string up to N bytes never panics, and an
// accepted short node carries a well-formed hex key.
func zzH_C13_decode() {
	n := zzverif.Bound("nodeBytes", 6, 9)
	buf := zzverif.Bytes("node", zzverif.Choose("node.len", n+1))
	nd, err := decodeNode(nil, buf, 0)
	if err != nil {
		zzverif.Reach("rejected")
		return
	}
	zzverif.Reach("accepted")
	switch v := nd.(type) {
	case *shortNode:
		zzverif.Reach("short")
		for i, b := range v.Key {
			zzverif.Assert(b < 16 || (b == 16 && i == len(v.Key)-1), "decoded key is nibbles with an optional final terminator")
		}
	case *fullNode:
		// (17 items do not fit in the fully symbolic bound; see zzH_C13_decode_shapes)
	default:
		zzverif.Assert(false, "decodeNode yields a short or a full node")
	}
	zzverif.Reach("end")
}

// zzH_C13_decode_shapes: longer encodings by shape — a 17-item full node with three
// symbolic single-byte items (first child, last child, value slot), and a full node
// whose first child is an embedded 2-item node with symbolic key and value bytes.
func zzH_C13_decode_shapes() {
	var body []byte
	var sym [3]byte
	if zzverif.Bool("embedded") {
		k, v := zzverif.U8("emb.key"), zzverif.U8("emb.val")
		zzverif.Assume(k >= 0x20 && k < 0x40 && v < 0x80) // a leaf: terminator flag set
		body = append(body, 0xc2, k, v)
		for i := 1; i < 17; i++ {
			body = append(body, 0x80)
		}
		buf := append([]byte{0xc0 + byte(len(body))}, body...)
		nd, err := decodeNode(nil, buf, 0)
		zzverif.Assert(err == nil, "a full node with a well-formed embedded short node decodes")
		if err == nil {
			zzverif.Reach("embedded-accepted")
			fn, ok := nd.(*fullNode)
			zzverif.Assert(ok, "17 items decode to a full node")
			sn, ok2 := fn.Children[0].(*shortNode)
			zzverif.Assert(ok2 && bytes.Equal(sn.Key, compactToHex([]byte{k})), "the embedded child is the short node spelled by its bytes")
		}
		zzverif.Reach("end")
		return
	}
	for i := range sym {
		sym[i] = zzverif.U8("item")
		zzverif.Assume(sym[i] <= 0x80)
	}
	for i := 0; i < 17; i++ {
		switch i {
		case 0:
			body = append(body, sym[0])
		case 15:
			body = append(body, sym[1])
		case 16:
			body = append(body, sym[2])
		default:
			body = append(body, 0x80)
		}
	}
	buf := append([]byte{0xc0 + byte(len(body))}, body...)
	nd, err := decodeNode(nil, buf, 0)
	zzverif.Assert((err == nil) == (sym[0] == 0x80 && sym[1] == 0x80), "a full node is accepted exactly when every child reference is empty, embedded or a hash")
	if err == nil {
		zzverif.Reach("full-accepted")
		fn, ok := nd.(*fullNode)
		zzverif.Assert(ok, "17 items decode to a full node")
		zzverif.Assert((fn.Children[16] != nil) == (sym[2] != 0x80), "the 17th item is the value slot")
	} else {
		zzverif.Reach("full-rejected")
	}
	zzverif.Reach("end")
}

// ---- map conformance and canonicity on in-memory tries ----

type zzC13KV struct {
	k []byte
	v []byte // nil = absent
}

// zzC13Keys hands out symbolic keys whose nibbles are canonically labelled: the
// nibble of the j-th key at position p is at most one more than the largest nibble
// earlier keys used at p (restricted-growth labelling).  The trie code treats nibble
// values only through equality and as child indexes, so every key set is a
// per-position relabelling of a canonically labelled one.
type zzC13Keys struct {
	max   [4]byte // per nibble position: largest label used so far + 1 (0 = none yet)
	lens  int     // number of key-length choices (1 = one byte only, 2 = one or two bytes)
	fixed int     // if non-zero: the length of the next key
}

func (g *zzC13Keys) next(name string) []byte {
	l := g.fixed
	if l == 0 {
		l = zzverif.Choose(name+".len", g.lens) + 1
	}
	k := make([]byte, l)
	for i := 0; i < l; i++ {
		hi, lo := zzverif.U8(name+".hi"), zzverif.U8(name+".lo")
		zzverif.Assume(hi <= g.max[2*i] && lo <= g.max[2*i+1])
		// the label bound grows only when the fresh label was used (concretised so the bound stays concrete)
		h, l2 := zzverif.Concretize8(hi), zzverif.Concretize8(lo)
		if h == g.max[2*i] {
			g.max[2*i]++
		}
		if l2 == g.max[2*i+1] {
			g.max[2*i+1]++
		}
		k[i] = h<<4 | l2
	}
	return k
}

func zzC13ModelGet(m []zzC13KV, q []byte) []byte {
	var res []byte
	for _, e := range m {
		if bytes.Equal(e.k, q) {
			res = e.v
		}
	}
	return res
}

// zzC13Same: structural equality of two in-memory node graphs (flags ignored).
func zzC13Same(a, b node) bool {
	switch x := a.(type) {
	case nil:
		return b == nil
	case valueNode:
		y, ok := b.(valueNode)
		return ok && bytes.Equal(x, y)
	case *shortNode:
		y, ok := b.(*shortNode)
		return ok && bytes.Equal(x.Key, y.Key) && zzC13Same(x.Val, y.Val)
	case *fullNode:
		y, ok := b.(*fullNode)
		if !ok {
			return false
		}
		for i := range x.Children {
			if !zzC13Same(x.Children[i], y.Children[i]) {
				return false
			}
		}
		return true
	}
	return false
}

// zzH_C13_map: after any sequence of updates/deletes with symbolic keys and values,
// TryGet agrees with an association-list model for an arbitrary query key, and the
// node graph is identical to the one built from the surviving pairs alone.
func zzH_C13_map() { zzC13Map(zzverif.Bound("trieOps", 3, 4), 1) }

// zzH_C13_prefixkeys: the same with keys of one or two bytes, so that keys are
// nibble-prefixes of each other (value in child 16, short-node merge on delete).
func zzH_C13_prefixkeys() { zzC13Map(zzverif.Bound("prefixOps", 2, 3), 2) }

func zzC13Map(ops, lens int) {
	t := &Trie{db: new(Database)}
	var model []zzC13KV
	g := &zzC13Keys{lens: lens}
	for i := 0; i < ops; i++ {
		k := g.next("key")
		var v []byte
		if !zzverif.Bool("delete") {
			v = []byte{zzverif.U8("val")}
		}
		if err := t.TryUpdate(k, v); err != nil {
			zzverif.Assert(false, "in-memory update does not fail")
		}
		model = append(model, zzC13KV{k, v})
	}
	zzverif.Reach("built")
	q := g.next("query")
	got, err := t.TryGet(q)
	want := zzC13ModelGet(model, q)
	zzverif.Assert(err == nil && bytes.Equal(got, want) && (got == nil) == (want == nil), "lookup returns exactly the surviving value of the key")
	// canonical rebuild: insert each surviving pair once, in model order
	c := &Trie{db: new(Database)}
	for i, e := range model {
		last := true
		for _, later := range model[i+1:] {
			if bytes.Equal(later.k, e.k) {
				last = false
			}
		}
		if last && e.v != nil {
			c.TryUpdate(e.k, e.v)
		}
	}
	zzverif.Assert(zzC13Same(t.root, c.root), "the node graph depends only on the surviving content, not on the history")
	zzverif.Reach("end")
}

// ---- tries with unloaded (hash) nodes: the state after commit + reopen ----

var (
	zzC13Store map[byte]node // "node database": hash id -> node
	zzC13Next  byte
)

// resolveHash: lookup in the harness node table (the real one reads the node database)
func zzC13Resolve(t *Trie, n hashNode, prefix []byte) (node, error) {
	nd, ok := zzC13Store[n[0]]
	if !ok {
		return nil, &MissingNodeError{Path: prefix}
	}
	// what the node database does with a committed node: it keeps the collapsed form (compact
	// keys) simplified, and expands it again when the node is loaded (real simplifyNode / expandNode)
	var collapsed node = nd
	switch x := nd.(type) {
	case *shortNode:
		collapsed = &shortNode{Key: hexToCompact(x.Key), Val: x.Val}
	case *fullNode:
		collapsed = x.copy()
	}
	return expandNode(n, simplifyNode(collapsed), 0), nil
}

// zzC13Hashify replaces every non-root interior node by a hash reference into the node
// table, as a trie looks right after Commit and New(root): nothing below the root is loaded.
func zzC13Hashify(n node, root bool) node {
	switch x := n.(type) {
	case *shortNode:
		c := &shortNode{Key: x.Key, Val: zzC13Hashify(x.Val, false)}
		if root {
			return c
		}
		return zzC13Ref(c)
	case *fullNode:
		c := &fullNode{}
		for i, ch := range x.Children {
			if ch != nil {
				c.Children[i] = zzC13Hashify(ch, false)
			}
		}
		if root {
			return c
		}
		return zzC13Ref(c)
	}
	return n
}

func zzC13Ref(n node) node {
	zzC13Next++
	zzC13Store[zzC13Next] = n
	h := make(hashNode, 32)
	h[0] = zzC13Next
	return h
}

// zzC13SameR: structural equality modulo loading (hash references are followed).
func zzC13SameR(a, b node) bool {
	if h, ok := a.(hashNode); ok {
		a = zzC13Store[h[0]]
	}
	if h, ok := b.(hashNode); ok {
		b = zzC13Store[h[0]]
	}
	switch x := a.(type) {
	case nil:
		return b == nil
	case valueNode:
		y, ok := b.(valueNode)
		return ok && bytes.Equal(x, y)
	case *shortNode:
		y, ok := b.(*shortNode)
		return ok && bytes.Equal(x.Key, y.Key) && zzC13SameR(x.Val, y.Val)
	case *fullNode:
		y, ok := b.(*fullNode)
		if !ok {
			return false
		}
		for i := range x.Children {
			if !zzC13SameR(x.Children[i], y.Children[i]) {
				return false
			}
		}
		return true
	}
	return false
}

// zzH_C13_reopened: a trie built from symbolic pairs is "committed and reopened" (every
// node below the root unloaded); one more update or delete then leaves exactly the
// canonical trie of the surviving content, and lookups agree with the model.
//
//verif:replace (*$M/trie.Trie).resolveHash zzC13Resolve
func zzH_C13_reopened() { zzC13Reopened(zzverif.Bound("reopenedOps", 2, 3), 1) }

// the same with keys of one or two bytes, so that keys are prefixes of each other and
// branch nodes carry a value of their own
//
//verif:replace (*$M/trie.Trie).resolveHash zzC13Resolve
func zzH_C13_reopened_prefix() { zzC13Reopened(zzverif.Bound("reopenedPrefixOps", 2, 2), 2) }

func zzC13Reopened(ops, lens int) {
	zzC13Store, zzC13Next = map[byte]node{}, 0
	t := &Trie{db: new(Database)}
	var model []zzC13KV
	g := &zzC13Keys{lens: lens}
	for i := 0; i < ops; i++ {
		if lens == 2 {
			g.fixed = 1 + i%2 // a one-byte key, then a two-byte key, ...
		}
		k := g.next("key")
		v := []byte{zzverif.U8("val")}
		t.TryUpdate(k, v)
		model = append(model, zzC13KV{k, v})
	}
	g.fixed = 0
	t.root = zzC13Hashify(t.root, true)
	zzverif.Reach("reopened")
	// one more operation on the reopened trie
	k := g.next("opkey")
	var v []byte
	if !zzverif.Bool("delete") {
		v = []byte{zzverif.U8("opval")}
	}
	if err := t.TryUpdate(k, v); err != nil {
		zzverif.Assert(false, "every referenced node is in the node table")
	}
	model = append(model, zzC13KV{k, v})
	var q []byte
	if lens == 2 {
		q = model[zzverif.Choose("query.key", len(model))].k // one of the keys written so far
	} else {
		q = g.next("query")
	}
	got, err := t.TryGet(q)
	want := zzC13ModelGet(model, q)
	zzverif.Assert(err == nil && bytes.Equal(got, want) && (got == nil) == (want == nil), "lookup on the reopened trie returns exactly the surviving value")
	c := &Trie{db: new(Database)}
	for i, e := range model {
		last := true
		for _, later := range model[i+1:] {
			if bytes.Equal(later.k, e.k) {
				last = false
			}
		}
		if last && e.v != nil {
			c.TryUpdate(e.k, e.v)
		}
	}
	zzverif.Assert(zzC13SameR(t.root, c.root), "after commit and reopen an update or delete still yields the canonical trie of the content")
	zzverif.Reach("end")
}
