package trie

// C13 (proofs) — a proof produced by the real Prove for any key of a non-empty trie verifies
// with the real VerifyProof against the trie's root to exactly the stored value or to absence;
// a proof with one element removed never verifies to a different answer.  The real hasher
// (hash, hashChildren, store) and both proof functions run; the node encoding and the hash
// function are stand-ins that keep content addressing (a blob names the collapsed node it
// encodes, its hash names the blob), every node's encoding counts as 32 bytes or more.

import (
	"bytes"
	"errors"
	"io"

	"github.com/youchainhq/go-youchain/common"

	"github.com/youchainhq/go-youchain/zzverif"
)

//verif:mode bv
//verif:replace $M/rlp.Encode zzC13pEncode
//verif:replace $M/rlp.EncodeToBytes zzC13pEncodeToBytes
//verif:replace (*$M/trie.hasher).makeHashNode zzC13pHash
//verif:replace $M/trie.decodeNode zzC13pDecode
//verif:replace $M/trie.newHasher zzC13pNewHasher
//verif:noop $M/trie.returnHasherToPool

var zzC13pNodes []node // collapsed nodes by blob id

func zzC13pNewHasher(cachegen, cachelimit uint16, onleaf LeafCallback) *hasher {
	return &hasher{cachegen: cachegen, cachelimit: cachelimit, onleaf: onleaf}
}

// content addressing: a collapsed node that was encoded before gets the same blob again
func zzC13pEqual(a, b node) bool {
	switch x := a.(type) {
	case nil:
		return b == nil
	case valueNode:
		y, ok := b.(valueNode)
		return ok && bytes.Equal(x, y)
	case hashNode:
		y, ok := b.(hashNode)
		return ok && bytes.Equal(x, y)
	case *shortNode:
		y, ok := b.(*shortNode)
		return ok && bytes.Equal(x.Key, y.Key) && zzC13pEqual(x.Val, y.Val)
	case *fullNode:
		y, ok := b.(*fullNode)
		if !ok {
			return false
		}
		for i := range x.Children {
			if !zzC13pEqual(x.Children[i], y.Children[i]) {
				return false
			}
		}
		return true
	}
	return false
}

func zzC13pBlob(n node) []byte {
	id := 0
	for i, old := range zzC13pNodes {
		if zzC13pEqual(old, n) {
			id = i + 1
			break
		}
	}
	if id == 0 {
		zzC13pNodes = append(zzC13pNodes, n)
		id = len(zzC13pNodes)
	}
	b := make([]byte, 33)
	b[0], b[1] = 0xF0, byte(id)
	return b
}

func zzC13pEncode(w io.Writer, val interface{}) error {
	w.Write(zzC13pBlob(val.(node)))
	return nil
}

func zzC13pEncodeToBytes(val interface{}) ([]byte, error) { return zzC13pBlob(val.(node)), nil }

// the hash names the blob
func zzC13pHash(h *hasher, data []byte) hashNode {
	n := make(hashNode, 32)
	n[0], n[1] = 0xAB, data[1]
	return n
}

func zzC13pDecode(hash, buf []byte, cachegen uint16) (node, error) {
	if len(buf) != 33 || buf[0] != 0xF0 || buf[1] == 0 || int(buf[1]) > len(zzC13pNodes) {
		return nil, errors.New("bad node")
	}
	switch n := zzC13pNodes[buf[1]-1].(type) {
	case *shortNode:
		return &shortNode{Key: compactToHex(n.Key), Val: n.Val}, nil
	case *fullNode:
		return n.copy(), nil
	}
	return nil, errors.New("bad node")
}

type zzC13pDB struct{ m map[string][]byte }

func (d *zzC13pDB) Put(k, v []byte) error { d.m[string(k)] = append([]byte(nil), v...); return nil }
func (d *zzC13pDB) Get(k []byte) ([]byte, error) {
	if v, ok := d.m[string(k)]; ok {
		return v, nil
	}
	return nil, errors.New("not found")
}
func (d *zzC13pDB) Has(k []byte) (bool, error) { _, ok := d.m[string(k)]; return ok, nil }

func zzH_C13_proof() {
	zzC13pNodes = nil
	ops := zzverif.Bound("proofTrieKeys", 2, 3)
	t := &Trie{db: new(Database)}
	var model []zzC13KV
	g := &zzC13Keys{lens: 2}
	for i := 0; i < ops; i++ {
		g.fixed = 1 + i%2
		k := g.next("key")
		v := []byte{zzverif.U8("val")}
		t.TryUpdate(k, v)
		model = append(model, zzC13KV{k, v})
	}
	g.fixed = 0
	var q []byte
	if zzverif.Bool("query.isStoredKey") {
		q = model[zzverif.Choose("query.key", len(model))].k
	} else {
		q = g.next("query")
	}
	want := zzC13ModelGet(model, q)
	db := &zzC13pDB{m: map[string][]byte{}}
	var root common.Hash
	if zzverif.Bool("proveBeforeHashing") {
		// the trie still has un-hashed modifications when the proof is taken
		zzverif.Assert(t.Prove(q, 0, db) == nil, "a proof is produced")
		root = t.Hash()
	} else {
		root = t.Hash()
		zzverif.Assert(t.Prove(q, 0, db) == nil, "a proof is produced")
	}
	got, _, err := VerifyProof(root, q, db)
	if want != nil {
		zzverif.Reach("proved-present")
	} else {
		zzverif.Reach("proved-absent")
	}
	zzverif.Assert(err == nil && string(got) == string(want) && (got == nil) == (want == nil), "the proof verifies against the root to exactly the stored value or to absence")
	// remove one element of the proof
	if len(db.m) > 0 {
		drop := zzverif.Choose("droppedElement", len(db.m))
		i := 0
		for k := range db.m {
			if i == drop {
				delete(db.m, k)
				break
			}
			i++
		}
		got2, _, err2 := VerifyProof(root, q, db)
		zzverif.Reach("tampered")
		zzverif.Assert(err2 != nil || (string(got2) == string(want) && (got2 == nil) == (want == nil)), "a proof with an element removed is rejected or still gives the right answer, never a different one")
	}
	zzverif.Reach("end")
}
