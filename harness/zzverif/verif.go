// Package zzverif is the harness API.  It exists only in the overlay that the
// checks put on top of /repo.  Under the symbolic executor (gosym) every
// function here is intercepted by the engine; the bodies below are the native
// replay backend: inputs come from a model file (ZZVERIF_REPLAY=<json>), so the
// same harness source re-runs a solver-found counterexample against the
// gc-compiled real code.
package zzverif

import (
	"encoding/json"
	"fmt"
	"math"
	"math/big"
	"os"
	"reflect"
	"strings"
)

type replayFile struct {
	Model map[string]string `json:"model"`
}

var (
	model    map[string]*big.Int
	counters = map[string]int{}
	// Failed collects assertion failures seen natively.
	Failed []string
	// Reached collects Reach tags.
	Reached = map[string]int{}
)

type assumeFailed struct{}

func load() {
	if model != nil {
		return
	}
	model = map[string]*big.Int{}
	p := os.Getenv("ZZVERIF_REPLAY")
	if p == "" {
		return
	}
	b, err := os.ReadFile(p)
	if err != nil {
		panic(err)
	}
	var rf replayFile
	if err := json.Unmarshal(b, &rf); err != nil {
		panic(err)
	}
	for k, v := range rf.Model {
		x, ok := new(big.Int).SetString(strings.TrimPrefix(v, "0x"), 16)
		if ok {
			model[k] = x
		}
	}
}

// Reset prepares for another native run.
func Reset() {
	counters = map[string]int{}
	Failed = nil
	Reached = map[string]int{}
	AssumeStopped = false
}

// LoadReplay switches to another recorded model (translator validation runs several in one process).
func LoadReplay(path string) {
	model = nil
	os.Setenv("ZZVERIF_REPLAY", path)
	load()
}

// AssumeStopped: the native run ended at a failed assumption.
var AssumeStopped bool

// RunNative runs a harness natively, absorbing failed assumptions.
func RunNative(f func()) (panicked interface{}) {
	defer func() {
		if r := recover(); r != nil {
			if _, ok := r.(assumeFailed); ok {
				AssumeStopped = true
				return
			}
			panicked = r
		}
	}()
	f()
	return nil
}

func get(name string) *big.Int {
	load()
	counters[name]++
	full := name
	if n := counters[name]; n > 1 {
		full = fmt.Sprintf("%s#%d", name, n)
	}
	if v, ok := model[full]; ok {
		return v
	}
	return new(big.Int)
}

func U8(name string) uint8   { return uint8(get(name).Uint64()) }
func U16(name string) uint16 { return uint16(get(name).Uint64()) }
func U32(name string) uint32 { return uint32(get(name).Uint64()) }
func U64(name string) uint64 { return get(name).Uint64() }
func I64(name string) int64  { return int64(get(name).Uint64()) }
func I32(name string) int32  { return int32(get(name).Uint64()) }
func Int(name string) int    { return int(get(name).Uint64()) }
func Bool(name string) bool  { return get(name).Sign() != 0 }

func Bytes(name string, n int) []byte {
	out := make([]byte, n)
	for i := range out {
		out[i] = U8(fmt.Sprintf("%s[%d]", name, i))
	}
	return out
}

func Big(name string, bits int) *big.Int { return new(big.Int).Set(get(name)) }

func Choose(name string, n int) int { return int(get(name).Uint64()) }

func Assume(c bool) {
	if !c {
		panic(assumeFailed{})
	}
}

func Assert(c bool, label string) {
	if !c {
		Failed = append(Failed, label)
	}
}

// AssertKF is Assert with a known-finding carve-out: violations that satisfy
// kfCond are attributed to the known finding id.
func AssertKF(c bool, label string, id string, kfCond bool) {
	if !c {
		Failed = append(Failed, label)
	}
}

func Reach(tag string) { Reached[tag]++ }

func Bound(name string, quick, thorough int) int {
	if os.Getenv("VERIF_TIER") == "thorough" {
		return thorough
	}
	return quick
}

func Thorough() bool { return os.Getenv("VERIF_TIER") == "thorough" }

// Symbolic reports whether the harness runs under the symbolic executor.
func Symbolic() bool { return false }

func Note(s string)              {}
func PermuteMaps(on bool)        {}
func Concretize(x uint64) uint64 { return x }

func ufKey(name string, args []interface{}) string {
	return name
}

// UF is an uninterpreted function with a 64-bit result.
func UF(name string, args ...interface{}) uint64 {
	load()
	return lookupUF(name, args).Uint64()
}

func UFBool(name string, args ...interface{}) bool {
	load()
	return lookupUF(name, args).Sign() != 0
}

func UF32(name string, args ...interface{}) [32]byte {
	load()
	var out [32]byte
	b := lookupUF(name, args).Bytes()
	copy(out[32-len(b):], b)
	return out
}

func InjUF(name string, args ...interface{}) [32]byte { return UF32(name, args...) }

func lookupUF(name string, args []interface{}) *big.Int {
	var as []string
	sig := name
	for _, a := range args {
		flat(a, &as, &sig)
	}
	k := "uf:" + sig + "(" + strings.Join(as, ",") + ")"
	if v, ok := model[k]; ok {
		return v
	}
	return new(big.Int)
}

func flat(a interface{}, as *[]string, sig *string) {
	add := func(w int, v *big.Int) {
		*sig += fmt.Sprintf("_b%d", w)
		*as = append(*as, "0x"+v.Text(16))
	}
	switch x := a.(type) {
	case uint8:
		add(8, new(big.Int).SetUint64(uint64(x)))
	case uint16:
		add(16, new(big.Int).SetUint64(uint64(x)))
	case uint32:
		add(32, new(big.Int).SetUint64(uint64(x)))
	case uint64:
		add(64, new(big.Int).SetUint64(x))
	case int:
		add(64, new(big.Int).SetUint64(uint64(x)))
	case int64:
		add(64, new(big.Int).SetUint64(uint64(x)))
	case bool:
		*sig += "_o"
		if x {
			*as = append(*as, "0x1")
		} else {
			*as = append(*as, "0x0")
		}
	case []byte:
		for _, b := range x {
			add(8, new(big.Int).SetUint64(uint64(b)))
		}
	case [32]byte:
		add(256, new(big.Int).SetBytes(x[:]))
	case [20]byte:
		add(160, new(big.Int).SetBytes(x[:]))
	case *big.Int:
		add(0, x)
	default:
		// named byte-array types (common.Hash, common.Address, ...)
		if rv := reflect.ValueOf(a); rv.Kind() == reflect.Array && rv.Type().Elem().Kind() == reflect.Uint8 {
			b := make([]byte, rv.Len())
			for i := range b {
				b[i] = byte(rv.Index(i).Uint())
			}
			add(8*len(b), new(big.Int).SetBytes(b))
			return
		}
		panic(fmt.Sprintf("zzverif: unsupported UF argument %T", a))
	}
}

func Observe(label string, v interface{}) {}

// SameObject reports whether two pointers are the same object.
func SameObject(a, b interface{}) bool { return a == b }

// AllocReset / AllocMax expose the largest make/append capacity seen by the
// symbolic executor since the last reset (natively: not measured).
func AllocReset()   {}
func AllocMax() int { return 0 }

var (
	two256  = new(big.Int).Lsh(big.NewInt(1), 256)
	mask256 = new(big.Int).Sub(two256, big.NewInt(1))
	two255  = new(big.Int).Lsh(big.NewInt(1), 255)
)

func s256(x *big.Int) *big.Int {
	if x.Cmp(two255) < 0 {
		return new(big.Int).Set(x)
	}
	return new(big.Int).Sub(x, two256)
}

func b2i(b bool) *big.Int {
	if b {
		return big.NewInt(1)
	}
	return big.NewInt(0)
}

// BV256 evaluates an EVM word operation in the theory of 256-bit bit-vectors.
// Under gosym it is an SMT-LIB term; natively it is computed with math/big.
func BV256(op string, xx, yy *big.Int) *big.Int {
	x := new(big.Int).And(xx, mask256)
	y := x
	if yy != nil {
		y = new(big.Int).And(yy, mask256)
	}
	r := new(big.Int)
	switch op {
	case "add":
		r.Add(x, y)
	case "sub":
		r.Sub(x, y)
	case "mul":
		r.Mul(x, y)
	case "and":
		r.And(x, y)
	case "or":
		r.Or(x, y)
	case "xor":
		r.Xor(x, y)
	case "not":
		r.Xor(x, mask256)
	case "shl":
		if y.Cmp(big.NewInt(256)) < 0 {
			r.Lsh(x, uint(y.Uint64()))
		}
	case "lshr":
		if y.Cmp(big.NewInt(256)) < 0 {
			r.Rsh(x, uint(y.Uint64()))
		}
	case "ashr":
		sx := s256(x)
		if y.Cmp(big.NewInt(256)) < 0 {
			r.Rsh(sx, uint(y.Uint64()))
		} else if sx.Sign() < 0 {
			r.SetInt64(-1)
		}
	case "ult":
		r = b2i(x.Cmp(y) < 0)
	case "ugt":
		r = b2i(x.Cmp(y) > 0)
	case "slt":
		r = b2i(s256(x).Cmp(s256(y)) < 0)
	case "sgt":
		r = b2i(s256(x).Cmp(s256(y)) > 0)
	case "eq":
		r = b2i(x.Cmp(y) == 0)
	case "iszero":
		r = b2i(x.Sign() == 0)
	case "byte":
		if x.Cmp(big.NewInt(32)) < 0 {
			r.Rsh(y, 8*(31-uint(x.Uint64())))
			r.And(r, big.NewInt(0xff))
		}
	case "signextend":
		if x.Cmp(big.NewInt(31)) < 0 {
			sh := 248 - 8*uint(x.Uint64())
			t := new(big.Int).Lsh(y, sh)
			t.And(t, mask256)
			r.Rsh(s256(t), sh)
		} else {
			r.Set(y)
		}
	default:
		panic("BV256: unknown op " + op)
	}
	return r.And(r, mask256)
}

// All / Any: conjunction / disjunction without short-circuit forks.
func All(bs ...bool) bool {
	for _, b := range bs {
		if !b {
			return false
		}
	}
	return true
}

func Any(bs ...bool) bool {
	for _, b := range bs {
		if b {
			return true
		}
	}
	return false
}

// IteBig / IteU64: a value selected by a condition, as a term (no fork).
func IteBig(c bool, a, b *big.Int) *big.Int {
	if c {
		return new(big.Int).Set(a)
	}
	return new(big.Int).Set(b)
}

func IteU64(c bool, a, b uint64) uint64 {
	if c {
		return a
	}
	return b
}

// Concretize8 forks over every feasible value of x (natively the identity).
func Concretize8(x uint8) uint8 { return x }

// UFF64: uninterpreted function with a float64 result (symbolic executor only).
func UFF64(name string, args ...interface{}) float64 { return 0 }

// F64: a symbolic float64 input.
func F64(name string) float64 {
	return math.Float64frombits(get(name).Uint64())
}

// Keccak: keccak256 (under the executor: concrete on concrete bytes, injective UF otherwise).
func Keccak(b []byte) [32]byte { panic("zzverif.Keccak is only available under the symbolic executor") }

// DeepCopy / Restore exist only under the symbolic executor (harness stand-ins for a
// serialisation round trip); natively the real codec runs instead of the stand-ins.
func DeepCopy(x interface{}) interface{} {
	panic("zzverif.DeepCopy is only available under the symbolic executor")
}
func Restore(dst, src interface{}) {
	panic("zzverif.Restore is only available under the symbolic executor")
}
