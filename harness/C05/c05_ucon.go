package ucon

// C05 — the voting side of zzH_C05_lookback_set (c05_core.go): the header number whose
// validator set a round's voters are drawn from and indexed in.

import (
	"math/big"

	"github.com/youchainhq/go-youchain/params"
	"github.com/youchainhq/go-youchain/zzverif"
)

//verif:mode bv W=264

func zzH_C05_lookback_voting() {
	cp := &params.CaravelParams{StakeLookBack: uint64(zzverif.U16("stakeLookBack")), SeedLookBack: uint64(zzverif.U16("seedLookBack"))}
	r := uint64(zzverif.U32("round"))
	lb := params.LookBackPos
	back := cp.StakeLookBack
	if zzverif.Bool("certificateVotes") {
		lb = params.LookBackCert
		back = 2 * params.ACoCHTFrequency
	}
	s := &Server{}
	got := s.GetLookBackBlockNumber(cp, new(big.Int).SetUint64(r), params.TurnToStakeType(lb))
	want := uint64(0)
	if r > back {
		want = r - back
	}
	zzverif.Assert(got != nil && got.IsUint64() && got.Uint64() == want, "voters of a round are indexed in the set at round - StakeLookBack (certificate votes: round - 2 CHT periods, genesis when the chain is shorter)")
	zzverif.Reach("end")
}
