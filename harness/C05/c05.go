package staking

// C05 — only real equivocation is slashable, exactly once, capped.

import (
	"errors"
	"math/big"

	"github.com/youchainhq/go-youchain/bls"
	"github.com/youchainhq/go-youchain/common"
	"github.com/youchainhq/go-youchain/core"
	"github.com/youchainhq/go-youchain/core/state"
	"github.com/youchainhq/go-youchain/core/types"
	"github.com/youchainhq/go-youchain/params"
	"github.com/youchainhq/go-youchain/zzverif"
)

//verif:mode int
//verif:replace $M/rlp.DecodeBytes zzC05Decode
//verif:replace $M/rlp.EncodeToBytes zzC05Encode
//verif:replace (*$M/core.BlockChain).LookBackVldReaderForRound zzC05LookBack
//verif:replace $M/core/state.PubToAddress zzPubToAddress

var (
	zzC05Ev      EvidenceDoubleSignV5
	zzC05Reader  state.ValidatorReader
	zzC05Honest  bool
	zzC05CertSet bool
)

// RLP of the evidence blob: an arbitrary well-typed value.
func zzC05Decode(b []byte, val interface{}) error {
	*(val.(*EvidenceDoubleSignV5)) = zzC05Ev
	return nil
}

func zzC05Encode(val interface{}) ([]byte, error) { return []byte{1}, nil }

func zzC05LookBack(bc *core.BlockChain, r uint64, isCert bool) (state.ValidatorReader, error) {
	zzC05CertSet = isCert
	// vote kinds travel as the consensus layer's numbers (consensus/ucon/types.go: Certificate = 5,
	// pinned against this package's copy by zzH_C05_detector)
	zzverif.Assert(isCert == (zzC05Ev.VoteType == 5) && r == zzC05Ev.Round, "the signer index is resolved in the certificate look-back set exactly for certificate votes, at the evidence's round")
	return zzC05Reader, nil
}

type zzC05Reader1 struct{ vals *state.Validators }

func (r zzC05Reader1) GetValidatorsStat() (*state.ValidatorsStat, error)        { return nil, nil }
func (r zzC05Reader1) GetValidatorByMainAddr(a common.Address) *state.Validator { return nil }
func (r zzC05Reader1) GetValidators() *state.Validators                         { return r.vals }

// ---- idealised BLS with a signing oracle ----

type zzC05Sig struct{ v uint64 }

func (s *zzC05Sig) Compress() (c bls.CompressedSignature) { return }

type zzC05PK struct{ id byte }

func (p *zzC05PK) Aggregate(bls.PublicKey) error      { return nil }
func (p *zzC05PK) Compress() (c bls.CompressedPublic) { return }
func (p *zzC05PK) Verify(m bls.Message, sig bls.Signature) error {
	var h common.Hash
	copy(h[:], m[:32])
	s := sig.(*zzC05Sig)
	// unforgeability: the only valid signature of a payload is the oracle's
	if s.v != zzverif.UF("blsSign", p.id, []byte(m)) {
		return errors.New("bad signature")
	}
	if !zzC05Signed(h) {
		return errors.New("never signed")
	}
	return nil
}

// zzC05Signed: did the validator sign hash||round||index (round/index of the evidence under test)?
// An honest validator signs at most one hash per vote kind for a round and index (C02).
func zzC05Signed(h common.Hash) bool {
	if !zzC05Honest {
		return zzverif.UFBool("byzantineSigned", h)
	}
	for _, kind := range []uint8{Prevote, Precommit, Certificate} {
		voted := zzverif.UFBool("honestVoted", kind, zzC05Ev.Round, zzC05Ev.RoundIndex)
		vote := zzverif.UF32("honestVote", kind, zzC05Ev.Round, zzC05Ev.RoundIndex)
		if voted && common.Hash(vote) == h {
			return true
		}
	}
	return false
}

type zzC05Mgr struct{ bls.BlsManager }

func (zzC05Mgr) DecPublicKey(b []byte) (bls.PublicKey, error) { return &zzC05PK{id: b[1]}, nil }
func (zzC05Mgr) DecSignature(b []byte) (bls.Signature, error) {
	if len(b) != 8 {
		return nil, errors.New("bad length")
	}
	var v uint64
	for _, x := range b {
		v = v*256 + uint64(x)
	}
	return &zzC05Sig{v: v}, nil
}

func zzC05Setup(pairs int) (*Staking, *state.StateDB, *params.YouParams, *types.Header, common.Address) {
	s := zzNewState()
	tok := zzverif.Big("val.token", 90)
	v := s.CreateValidator("v", common.Address{1}, common.Address{1}, params.RoleSenator, zzPub(1), zzPub(1), tok, params.YOUToStake(tok), 1, 0, uint16(zzverif.U16("val.risk")), params.ValidatorOnline)
	s.Finalise(false)
	zzC05Reader = zzC05Reader1{vals: state.NewValidators([]*state.Validator{v.DeepCopy()})}
	cfg := &params.YouParams{}
	cfg.Version = params.YouV5
	cfg.PenaltyFractionForDoubleSign = uint64(zzverif.U8("fraction"))
	zzverif.Assume(cfg.PenaltyFractionForDoubleSign <= 100)
	cfg.ExpelledRoundForDoubleSign = 100
	cfg.PenaltyTo = common.Address{0xee}
	cfg.MaxEvidenceExpiredIn = 10
	round := uint64(zzverif.U16("ev.round"))
	zzC05Ev = EvidenceDoubleSignV5{Round: round, RoundIndex: uint32(zzverif.U8("ev.index")), SignerIdx: uint32(zzverif.U8("ev.signerIdx")), VoteType: zzverif.U8("ev.voteType")}
	for i := 0; i < pairs; i++ {
		var h common.Hash
		copy(h[:], zzverif.Bytes("ev.hash", 32))
		zzC05Ev.Signs = append(zzC05Ev.Signs, &SignInfo{Hash: h, Sign: zzverif.Bytes("ev.sig", 8)})
	}
	header := &types.Header{Number: new(big.Int).SetUint64(round + 1)}
	st := &Staking{blsMgr: zzC05Mgr{}}
	return st, s, cfg, header, zzValAddr(1)
}

func zzC05Process(st *Staking, s *state.StateDB, cfg *params.YouParams, header *types.Header, parent uint64, seen map[common.Address]struct{}) *processedEvidencesResult {
	res := &processedEvidencesResult{}
	receipt := &types.Receipt{}
	st.processDoubleSignV5(cfg, s, header, parent, Evidence{Type: EvidenceTypeDoubleSignV5, Data: []byte{1}}, receipt, res, seen)
	return res
}

var zzC05Penalised bool

// the penalty itself is the subject of zzH_C05_equivocation / zzH_C05_penalty; here only
// whether evidence against an honest signer gets as far as a penalty matters
func zzC05Mark(config *params.YouParams, typ string, currentDB *state.StateDB, header *types.Header, val *state.Validator, penaltyAmount *big.Int, happenedRound uint64) (*big.Int, []*SlashWithdrawRecord, []*PenaltyRecord) {
	zzC05Penalised = true
	return new(big.Int), nil, nil
}

// zzH_C05_honest: no evidence assembled from the votes an honest validator emits is accepted.
//
//verif:replace $M/staking.doPenalize zzC05Mark
func zzH_C05_honest() {
	zzC05Penalised = false
	st, s, cfg, header, addr := zzC05Setup(2)
	zzC05Honest = true
	before := s.GetValidatorByMainAddr(addr).DeepCopy()
	parent := uint64(zzverif.U16("parentHeight"))
	zzC05Process(st, s, cfg, header, parent, map[common.Address]struct{}{})
	after := s.GetValidatorByMainAddr(addr)
	untouched := !zzC05Penalised && after != nil && after.Status == before.Status && after.Expelled == before.Expelled && after.Token.Cmp(before.Token) == 0
	zzverif.Reach("processed")
	if zzC05Ev.Signs[0].Hash == zzC05Ev.Signs[1].Hash {
		zzverif.AssertKF(untouched, "an honest validator is never slashed (evidence lists one vote twice)", "C05-duplicate-pair", true)
	} else {
		zzverif.AssertKF(untouched, "an honest validator is never slashed (evidence mixes votes of different kinds)", "C05-cross-kind", true)
	}
	zzverif.Reach("end")
}

var zzC05Penalties int

func zzC05CountPenalty(config *params.YouParams, typ string, currentDB *state.StateDB, header *types.Header, val *state.Validator, penaltyAmount *big.Int, happenedRound uint64) (*big.Int, []*SlashWithdrawRecord, []*PenaltyRecord) {
	zzC05Penalties++
	return new(big.Int).Set(penaltyAmount), nil, nil
}

// zzH_C05_across_blocks: the same (real) equivocation evidence placed in the slash data of two
// different blocks (two different parent heights, a fresh per-block de-duplication map each)
// gets as far as a penalty in at most one of them.
//
//verif:replace $M/staking.doPenalize zzC05CountPenalty
func zzH_C05_across_blocks() {
	zzC05Penalties = 0
	st, s, cfg, header, _ := zzC05Setup(2)
	zzC05Honest = false
	zzverif.Assume(zzC05Ev.Signs[0].Hash != zzC05Ev.Signs[1].Hash && zzC05Ev.SignerIdx == 0)
	zzverif.Assume(zzC05Ev.Round < 200)
	p1, p2 := uint64(zzverif.U16("parentHeight.block1")), uint64(zzverif.U16("parentHeight.block2"))
	zzverif.Assume(p1 < p2)
	zzC05Process(st, s, cfg, header, p1, map[common.Address]struct{}{})
	first := zzC05Penalties
	zzC05Process(st, s, cfg, header, p2, map[common.Address]struct{}{})
	if first == 1 {
		zzverif.Reach("penalised-in-first-block")
	}
	if zzC05Penalties-first == 1 {
		zzverif.Reach("penalised-in-second-block")
	}
	zzverif.Assert(zzC05Penalties <= 1, "one equivocation is penalised in at most one block")
	zzverif.Reach("end")
}

// zzH_C05_list_position: a real equivocation evidence is acted on wherever it stands in the
// list a block carries: entries of other (unknown, retired) types before or after it change
// nothing.
//
//verif:replace $M/staking.doPenalize zzC05CountPenalty
func zzH_C05_list_position() {
	zzC05Penalties = 0
	st, s, cfg, header, _ := zzC05Setup(2)
	zzC05Honest = false
	zzverif.Assume(zzC05Ev.Signs[0].Hash != zzC05Ev.Signs[1].Hash && zzC05Ev.SignerIdx == 0)
	zzverif.Assume(zzC05Ev.Round < 200)
	real := Evidence{Type: EvidenceTypeDoubleSignV5, Data: []byte{1}}
	other := func() Evidence {
		return Evidence{Type: []string{EvidenceTypeInactive, EvidenceTypeDoubleSign, "something-else"}[zzverif.Choose("otherEntry.type", 3)], Data: []byte{2}}
	}
	var list []Evidence
	for i, before := 0, zzverif.Choose("entriesBefore", 3); i < before; i++ {
		list = append(list, other())
	}
	list = append(list, real)
	if zzverif.Bool("entryAfter") {
		list = append(list, other())
	}
	twin := s.Copy() // the same situation, for the evidence alone
	st.processEvidences(cfg, s, header, new(big.Int).SetUint64(zzC05Ev.Round), &types.Receipt{}, list)
	alone := zzC05Penalties
	zzverif.Reach("processed")
	zzC05Penalties = 0
	st.processEvidences(cfg, twin, header, new(big.Int).SetUint64(zzC05Ev.Round), &types.Receipt{}, []Evidence{real})
	zzverif.Assert(alone == zzC05Penalties, "an evidence is acted on the same way wherever it stands in the list")
	zzverif.Reach("end")
}

// zzH_C05_equivocation: two different hashes really signed for one round/index at the
// parent height penalise the signer once, within the configured fraction, and a second
// evidence against the same signer changes nothing.
func zzH_C05_equivocation() {
	st, s, cfg, header, addr := zzC05Setup(2)
	zzC05Honest = false
	// the signer really signed both payloads and the evidence carries the real signatures
	zzverif.Assume(zzC05Ev.Signs[0].Hash != zzC05Ev.Signs[1].Hash && zzC05Ev.SignerIdx == 0)
	zzverif.Assume(zzC05Ev.Round < 200)
	before := s.GetValidatorByMainAddr(addr).DeepCopy()
	penaltyToBefore := new(big.Int).Set(s.GetBalance(cfg.PenaltyTo))
	seen := map[common.Address]struct{}{}
	res := zzC05Process(st, s, cfg, header, zzC05Ev.Round, seen)
	after := s.GetValidatorByMainAddr(addr)
	if after.Expelled {
		zzverif.Reach("penalised")
		zzverif.Assert(after.Status == params.ValidatorOffline, "a penalised validator is taken offline")
		taken := new(big.Int).Sub(before.Token, after.Token)
		limit := new(big.Int).Div(new(big.Int).Mul(before.Token, new(big.Int).SetUint64(cfg.PenaltyFractionForDoubleSign)), big.NewInt(100))
		zzverif.Assert(taken.Sign() >= 0 && taken.Cmp(limit) <= 0, "never more than the configured fraction of the stake is taken")
		zzverif.Assert(new(big.Int).Sub(s.GetBalance(cfg.PenaltyTo), penaltyToBefore).Cmp(taken) == 0, "what is taken arrives in the penalty account")
		// a second evidence in the same block
		snapshot := after.DeepCopy()
		zzC05Process(st, s, cfg, header, zzC05Ev.Round, seen)
		again := s.GetValidatorByMainAddr(addr)
		zzverif.Assert(again.Token.Cmp(snapshot.Token) == 0 && again.ExpelExpired == snapshot.ExpelExpired, "a validator is penalised once per block for double signing")
		zzverif.Assert(zzStatsFollow(s, 1), "the validator statistics follow the penalty (tokens, stake and count move from online to offline; also for a zero penalty)")
	} else {
		zzverif.Reach("not-penalised")
		// only because a signature did not verify
		zzverif.Assert(len(res.confirmedEvidences) == 0, "unverified evidence is not confirmed")
	}
	zzverif.Reach("end")
}

// zzH_C05_penalty: takePenalty from an arbitrary validator with a delegation and
// unfinished withdraw records: the amount taken is capped by the requested penalty,
// equals what left stake, delegation and pending withdrawals, nothing goes negative,
// and the new validator record is consistent.
func zzH_C05_penalty() {
	s := zzNewState()
	self := zzverif.Big("self.token", 90)
	dlg := zzverif.Big("dlg.token", 90)
	d := common.Address{7}
	s.SetBalance(d, new(big.Int))
	v := s.CreateValidator("v", common.Address{1}, common.Address{1}, params.RoleSenator, zzPub(1), zzPub(1), self, params.YOUToStake(self), 1, 0, uint16(zzverif.U16("val.risk")), params.ValidatorOnline)
	if zzverif.Bool("withDelegation") {
		zzverif.Assume(dlg.Sign() > 0)
		v, _, _, _ = s.UpdateDelegation(d, v, dlg)
	}
	// pending withdrawals of the validator itself and of the delegator
	// (a finished record has been paid out already but is retained in the queue with its FinalBalance)
	f1, f2 := zzverif.U8("w1.finished"), zzverif.U8("w2.finished")
	zzverif.Assume(f1 <= 1 && f2 <= 1)
	r1 := &state.WithdrawRecord{Operator: common.Address{1}, Validator: zzValAddr(1), Nonce: 1, InitialBalance: zzverif.Big("w1", 90), Finished: f1}
	r1.FinalBalance = new(big.Int).Set(r1.InitialBalance)
	r2 := &state.WithdrawRecord{Operator: d, Delegator: d, Validator: zzValAddr(1), Nonce: 2, InitialBalance: zzverif.Big("w2", 90), Finished: f2}
	r2.FinalBalance = new(big.Int).Set(r2.InitialBalance)
	s.AddWithdrawRecord(r1)
	s.AddWithdrawRecord(r2)
	s.Finalise(false)
	want := zzverif.Big("penalty", 90)
	zzverif.Assume(want.Sign() > 0 && want.Cmp(v.Token) <= 0)
	req := new(big.Int).Set(want)
	tokenBefore := new(big.Int).Set(v.Token)
	w1, w2 := new(big.Int).Set(r1.FinalBalance), new(big.Int).Set(r2.FinalBalance)
	nv, total, _, _ := takePenalty(s, v, want)
	zzverif.Reach("taken")
	zzverif.Assert(total.Sign() >= 0 && total.Cmp(req) <= 0, "the total taken never exceeds the requested penalty")
	left := new(big.Int).Sub(tokenBefore, nv.Token)
	left.Add(left, new(big.Int).Sub(w1, r1.FinalBalance))
	left.Add(left, new(big.Int).Sub(w2, r2.FinalBalance))
	zzverif.Assert(left.Cmp(total) == 0, "the total equals what left the stake, the delegations and the pending withdrawals")
	zzverif.Assert((f1 == 0 || r1.FinalBalance.Cmp(w1) == 0) && (f2 == 0 || r2.FinalBalance.Cmp(w2) == 0), "nothing is taken from a withdrawal that has already been paid out")
	zzverif.Assert(nv.Token.Sign() >= 0 && nv.SelfToken.Sign() >= 0 && r1.FinalBalance.Sign() >= 0 && r2.FinalBalance.Sign() >= 0, "no balance goes negative")
	sum, ssum := new(big.Int).Set(nv.SelfToken), new(big.Int).Set(nv.SelfStake)
	for _, df := range nv.Delegations {
		zzverif.Assert(df != nil && df.Token.Sign() >= 0 && df.Stake.Cmp(params.YOUToStake(df.Token)) == 0, "delegations stay non-negative with stake = token / unit")
		sum.Add(sum, df.Token)
		ssum.Add(ssum, df.Stake)
	}
	zzverif.Assert(nv.Token.Cmp(sum) == 0 && nv.Stake.Cmp(ssum) == 0 && nv.SelfStake.Cmp(params.YOUToStake(nv.SelfToken)) == 0, "validator totals = self + delegations after the penalty")
	zzverif.Reach("end")
}
