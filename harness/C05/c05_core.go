package core

// C05 — evidence is judged against the validator set the votes were cast under.
// processDoubleSignV5 resolves an evidence's signer index through
// BlockChain.LookBackVldReaderForRound; voters are indexed in the stake look-back set of
// their round (consensus/ucon getLookbackStakeInfo: the header at
// GetLookBackBlockNumber(round, stake kind)), whose number the twin harness
// zzH_C05_lookback_voting (c05_ucon.go) pins to the same formula.

import (
	"github.com/youchainhq/go-youchain/common"
	"github.com/youchainhq/go-youchain/core/state"
	"github.com/youchainhq/go-youchain/core/types"
	"github.com/youchainhq/go-youchain/params"
	"github.com/youchainhq/go-youchain/zzverif"
)

//verif:mode bv W=264
//verif:replace (*$M/core.HeaderChain).VersionForRound zzC05cVersion
//verif:replace (*$M/core.BlockChain).GetHeaderByNumber zzC05cHeader
//verif:replace (*$M/core.BlockChain).GetVldReader zzC05cReader

var (
	zzC05cYP        params.YouParams
	zzC05cVerRound  uint64
	zzC05cAsked     []uint64
	zzC05cRootAsked []common.Hash
)

func zzC05cVersion(hc *HeaderChain, r uint64) (*params.YouParams, error) {
	zzC05cVerRound = r
	return &zzC05cYP, nil
}

func zzC05cRoot(n uint64) common.Hash {
	return common.Hash{0xEE, byte(n >> 24), byte(n >> 16), byte(n >> 8), byte(n)}
}

func zzC05cHeader(bc *BlockChain, n uint64) *types.Header {
	zzC05cAsked = append(zzC05cAsked, n)
	return &types.Header{ValRoot: zzC05cRoot(n)}
}

func zzC05cReader(bc *BlockChain, root common.Hash) (state.ValidatorReader, error) {
	zzC05cRootAsked = append(zzC05cRootAsked, root)
	return nil, nil
}

// zzH_C05_lookback_set: for every round, both vote classes and every pair of look-back
// parameters of the version in force.
func zzH_C05_lookback_set() {
	zzC05cAsked, zzC05cRootAsked = nil, nil
	zzC05cYP = params.YouParams{}
	zzC05cYP.StakeLookBack = uint64(zzverif.U16("stakeLookBack"))
	zzC05cYP.SeedLookBack = uint64(zzverif.U16("seedLookBack"))
	r := uint64(zzverif.U32("round"))
	isCert := zzverif.Bool("certificateVotes")
	bc := &BlockChain{}
	_, err := bc.LookBackVldReaderForRound(r, isCert)
	zzverif.Assert(err == nil, "the look-back reader is found when header and trie exist")
	zzverif.Assert(zzC05cVerRound == r, "parameters of the version in force at the evidence's round")
	back := zzC05cYP.StakeLookBack
	if isCert {
		back = 2 * params.ACoCHTFrequency
	}
	want := uint64(0)
	if r > back {
		want = r - back
	}
	zzverif.Assert(len(zzC05cAsked) == 1 && zzC05cAsked[0] == want, "the signer index is resolved in the stake look-back set of the evidence's round (round - StakeLookBack, certificate votes: round - 2 CHT periods, genesis when the chain is shorter)")
	zzverif.Assert(len(zzC05cRootAsked) == 1 && zzC05cRootAsked[0] == zzC05cRoot(want), "through the validator trie of exactly that header")
	zzverif.Reach("end")
}
