package ucon

// C05 (where evidence comes from) — the node's own double-vote detector.  The real
// Voter.processVoteMsg receives two verified votes of one validator for one (round, index,
// kind) with different block hashes — the second possibly late, after the node moved to the
// next round index or the next round (late precommits are still processed) — and must hand
// the staking module an evidence that names exactly that round, index, kind and signer and
// carries both (hash, signature) pairs: only then do builder and validator accept it
// (processDoubleSignV5 verifies the signatures over hash ‖ round ‖ index).

import (
	"crypto/ecdsa"
	"math/big"

	"github.com/youchainhq/go-youchain/common"
	"github.com/youchainhq/go-youchain/event"
	"github.com/youchainhq/go-youchain/params"
	"github.com/youchainhq/go-youchain/staking"
	"github.com/youchainhq/go-youchain/zzverif"
)

//verif:mode bv W=264
//verif:replace (*$M/consensus/ucon.Voter).getAddrFromVote zzC05dSigner
//verif:noop (*$M/consensus/ucon.Voter).judgeVoteCount
//verif:replace (*$M/event.TypeMux).AsyncPost zzC05dPost
//verif:replace $M/staking.NewEvidence zzC05dNewEvidence

var (
	zzC05dSender   = common.Address{0xA0, 1}
	zzC05dEvidence []staking.EvidenceDoubleSignV5
	zzC05dPosted   int
)

func zzC05dSigner(v *Voter, voteType VoteType, blockHash common.Hash, vote *SingleVote, round *big.Int, roundIndex uint32) (*ecdsa.PublicKey, common.Address, error) {
	return &ecdsa.PublicKey{X: big.NewInt(1)}, zzC05dSender, nil
}

func zzC05dNewEvidence(data interface{}) staking.Evidence {
	if d, ok := data.(staking.EvidenceDoubleSignV5); ok {
		zzC05dEvidence = append(zzC05dEvidence, d)
	}
	return staking.Evidence{Type: staking.EvidenceTypeDoubleSignV5}
}

func zzC05dPost(mux *event.TypeMux, ev interface{}) error {
	if _, ok := ev.(staking.Evidence); ok {
		zzC05dPosted++
	}
	return nil
}

type zzC05dParams struct{}

func (zzC05dParams) CurrentCaravelParams() *params.CaravelParams {
	return &params.CaravelParams{EnableBls: true}
}
func (zzC05dParams) CertificateParams(round *big.Int) (*params.CaravelParams, error) {
	return &params.CaravelParams{EnableBls: true}, nil
}
func (zzC05dParams) CurrentYouParams() *params.YouParams {
	yp := &params.YouParams{}
	yp.Version = params.YouV5
	yp.EnableBls = true
	return yp
}

func zzH_C05_detector() {
	zzC05dEvidence, zzC05dPosted = nil, 0
	round, index := uint64(zzverif.U16("round"))+1, uint32(zzverif.U8("index"))+1
	v := &Voter{
		round:         new(big.Int).SetUint64(round),
		roundIndex:    index,
		votesWrappers: NewVotesWrapperList(),
		paramsMgr:     zzC05dParams{},
		getStakeFn: func(r *big.Int, addr common.Address, isProposer bool, lbType params.LookBackType) (*big.Int, *big.Int, uint64, params.ValidatorKind, uint8, error) {
			return big.NewInt(10), big.NewInt(100), 1000, params.KindChamber, params.ValidatorOnline, nil
		},
		verifySortitionFn: func(pubKey *ecdsa.PublicKey, data *SortitionData, lbType params.LookBackType) error { return nil },
	}
	kind := []VoteType{Prevote, Precommit}[zzverif.Choose("voteKind", 2)]
	signer := uint32(zzverif.U8("signerIdx"))
	var h [2]common.Hash
	var sig [2][]byte
	for i := range h {
		copy(h[i][:], zzverif.Bytes("blockHash", 32))
		sig[i] = zzverif.Bytes("signature", 4)
	}
	mk := func(i int) VoteMsgEvent {
		return VoteMsgEvent{VType: kind, Msg: &CachedVotesMessage{addr: zzC05dSender, VotesData: &BlockHashWithVotes{
			BlockHash: h[i], Round: new(big.Int).SetUint64(round), RoundIndex: index,
			Vote: &SingleVote{VoterIdx: signer, Votes: 1, Signature: sig[i], Proof: []byte{1}}}}}
	}
	// the first vote arrives in time
	err, _ := v.processVoteMsg(mk(0), msgSame)
	zzverif.Assert(err == nil && zzC05dPosted == 0, "a first vote is no evidence")
	// the second may be late
	status := msgSame
	switch zzverif.Choose("secondVoteArrives", 3) {
	case 1:
		v.roundIndex = index + 1
		status = msgOldRoundIndex
	case 2:
		v.round = new(big.Int).SetUint64(round + 1)
		v.roundIndex = 1
		status = msgOldRound
	}
	err, _ = v.processVoteMsg(mk(1), status)
	zzverif.Assert(err == nil, "a verified vote is processed without error")
	zzverif.Assert(zzC05dPosted == len(zzC05dEvidence) && zzC05dPosted <= 1, "at most one evidence per conflicting vote, every evidence built is posted")
	seen := status == msgSame || kind == Precommit // late votes other than precommits are dropped before the tally
	if h[0] != h[1] && seen {
		zzverif.Assert(zzC05dPosted == 1, "two different same-kind votes of one validator in one round and index are reported")
		zzverif.Reach("reported")
	}
	if h[0] == h[1] {
		zzverif.Assert(zzC05dPosted == 0, "the same vote twice is no evidence")
	}
	for _, e := range zzC05dEvidence {
		zzverif.Assert(e.Round == round && e.RoundIndex == index && e.VoteType == uint8(kind) && e.SignerIdx == signer, "the evidence names the round, round index, kind and signer of the two votes (not the node's current context)")
		zzverif.Assert(len(e.Signs) == 2 && e.Signs[0].Hash == h[0] && string(e.Signs[0].Sign) == string(sig[0]) && e.Signs[1].Hash == h[1] && string(e.Signs[1].Sign) == string(sig[1]), "and carries both votes' block hashes with their signatures")
	}
	// the staking module keeps its own copy of the vote kinds; evidence carries the consensus layer's
	zzverif.Assert(staking.Prevote == uint8(Prevote) && staking.Precommit == uint8(Precommit) && staking.NextIndex == uint8(NextIndex) && staking.Certificate == uint8(Certificate) && staking.Propose == uint8(Propose),
		"the staking module and the consensus layer number the vote kinds alike")
	zzverif.Reach("end")
}
