package downloader

// C18 — block download delivers every block once, in order, with a matching body.
// Bounded symbolic histories over the real download queue (Schedule, ReserveBodies /
// reserveHeaders, DeliverBodies / deliver, CancelBodies, Revoke, ExpireBodies, Results,
// countProcessableItems, the real common/prque, peerConnection.Lacks/MarkLacking) with
// a ghost count of where every scheduled header is, followed by an honest-peer
// completion phase.

import (
	"math/big"

	"github.com/youchainhq/go-youchain/common"
	"github.com/youchainhq/go-youchain/core/types"
	"github.com/youchainhq/go-youchain/zzverif"
)

//verif:mode bv
//verif:replace (*$M/core/types.Header).Hash zzC18Hash
//verif:replace $M/core/types.DeriveSha zzC18Derive
//verif:replace (*$M/core/types.Header).Size zzC18HSize
//verif:replace (*$M/core/types.Transaction).Size zzC18TSize

// header identity: an injective function of the number (harness headers differ only there)
func zzC18Hash(h *types.Header) common.Hash { return common.Hash{0x40, byte(h.Number.Uint64())} }

func zzC18HSize(h *types.Header) common.StorageSize { return 500 }

// transaction root of a body: an injective function of the body's identity (its length here)
// (types.EmptyRootHash is initialised by the package as DeriveSha of the empty list, i.e. through this function)
func zzC18Derive(list types.DerivableList) common.Hash {
	return common.Hash{0x50, byte(list.Len())}
}

func zzC18Body(n uint8) []*types.Transaction {
	out := make([]*types.Transaction, n)
	for i := range out {
		out[i] = types.NewTransaction(uint64(i), common.Address{}, nil, 0, nil, nil)
	}
	return out
}

// size accounting (RLP by reflection) only feeds the memory throttle, which is outside the claim
func zzC18TSize(tx *types.Transaction) common.StorageSize { return 100 }

// one entry per first operation, so that the six sub-trees are explored in parallel
func zzH_C18_queue_reserve0() { zzC18Queue(0, 0) }
func zzH_C18_queue_reserve1() { zzC18Queue(0, 1) }
func zzH_C18_queue_deliver0() { zzC18Queue(1, 0) }
func zzH_C18_queue_deliver1() { zzC18Queue(1, 1) }
func zzH_C18_queue_cancel()   { zzC18Queue(2, -1) }
func zzH_C18_queue_revoke()   { zzC18Queue(3, -1) }
func zzH_C18_queue_expire()   { zzC18Queue(4, -1) }
func zzH_C18_queue_results()  { zzC18Queue(5, -1) }

// a result window smaller than the scheduled range: reservations must stop at the window
// (empty blocks included) and the range still completes as the importer drains results
func zzH_C18_queue_window() {
	zzC18Window, zzC18Headers, zzC18Ops, zzC18MaxCount, zzC18AnyBody = 2, 4, 2, 4, true
	zzC18Queue(0, 0)
}

var (
	zzC18Window, zzC18Headers, zzC18Ops, zzC18MaxCount = 6, 0, 0, 2
	zzC18AnyBody                                       = false
)

func zzC18Queue(firstOp, firstPeer int) {
	n := zzverif.Bound("headers", 2, 3)
	ops := zzverif.Bound("queueOps", 3, 3)
	if zzC18Headers > 0 {
		n, ops = zzC18Headers, zzC18Ops
	}
	q := newQueue()
	q.resultCache = make([]*fetchResult, zzC18Window) // a small window instead of 8192 slots (same code paths)
	const origin = 10
	q.Prepare(origin, FullSync)
	var headers []*types.Header
	bodyOf := make([]uint8, n)
	parent := common.Hash{}
	for i := 0; i < n; i++ {
		b := zzverif.U8("body")
		zzverif.Assume(b <= 2) // 0 = empty block, 1..2 = two different non-empty bodies
		if i > 0 && !zzverif.Thorough() && !zzC18AnyBody {
			zzverif.Assume(b == 1) // quick tier: only the first block may be empty
		}
		if zzC18AnyBody {
			zzverif.Assume(b <= 1)
		}
		bodyOf[i] = b
		h := &types.Header{Number: big.NewInt(int64(origin + i)), ParentHash: parent}
		h.TxHash = zzC18Derive(types.Transactions(zzC18Body(b)))
		parent = zzC18Hash(h)
		headers = append(headers, h)
	}
	ins := q.Schedule(headers, origin)
	zzverif.Assert(len(ins) == n, "a contiguous, hash-linked batch is scheduled completely")
	peers := []*peerConnection{newPeerConnection("p0", nil, nil), newPeerConnection("p1", nil, nil)}
	released := 0

	check := func() {
		// every unreleased header is in exactly one place: task queue, a peer's request, or done
		inReq := 0
		for _, r := range q.blockPendPool {
			for _, h := range r.Headers {
				if h != nil {
					inReq++
				}
			}
		}
		done := 0
		for i := released; i < n; i++ {
			if _, ok := q.blockDonePool[zzC18Hash(headers[i])]; ok {
				done++
			}
		}
		zzverif.Assert(q.blockTaskQueue.Size()+inReq+done == n-released, "no header is lost or duplicated between task queue, peer requests and completed set")
		zzverif.Assert(len(q.blockTaskPool) == q.blockTaskQueue.Size()+inReq, "the task pool holds exactly the unfinished headers")
	}
	results := func() {
		out := q.Results(false)
		for _, r := range out {
			zzverif.Reach("released")
			zzverif.Assert(r.Header == headers[released], "blocks are released in ascending, gap-free order, each once")
			zzverif.Assert(r.Pending == 0, "only completed blocks are released")
			zzverif.Assert(len(r.Transactions) == int(bodyOf[released]), "a released block carries the body matching its transaction root")
			released++
		}
		zzverif.Assert(q.resultOffset == uint64(origin+released), "the result window advances by what was released")
	}

	for step := 0; step < ops; step++ {
		op := firstOp
		if step > 0 {
			op = zzverif.Choose("op", 6)
		}
		p := peers[0]
		if op <= 3 {
			if step == 0 && firstPeer >= 0 {
				p = peers[firstPeer]
			} else {
				p = peers[zzverif.Choose("peer", 2)]
			}
		}
		switch op {
		case 0: // reserve
			_, _, rerr := q.ReserveBodies(p, zzverif.Choose("count", zzC18MaxCount)+1)
			zzverif.Assert(rerr == nil, "reserving from a correctly scheduled range never reports an invalid chain")
		case 1: // deliver: any number of bodies, each any body identity (right, wrong, empty)
			req := q.blockPendPool[p.id]
			cnt := zzverif.Choose("delivered", 3)
			var lists [][]*types.Transaction
			for i := 0; i < cnt; i++ {
				// the i-th body is the right one for the i-th requested header, or a different one
				want := uint8(0)
				if req != nil && i < len(req.Headers) {
					want = bodyOf[req.Headers[i].Number.Uint64()-origin]
				}
				if (i == 0 || zzverif.Thorough()) && zzverif.Bool("wrongBody") {
					want = (want + 1) % 3
				}
				lists = append(lists, zzC18Body(want))
			}
			acc, err := q.DeliverBodies(p.id, lists)
			if req == nil {
				zzverif.Reach("unsolicited")
				zzverif.Assert(acc == 0 && err == errNoFetchesPending, "an unsolicited delivery is refused")
			} else {
				zzverif.Reach("delivered")
			}
		case 2: // cancel the peer's request
			if req := q.blockPendPool[p.id]; req != nil {
				q.CancelBodies(req)
			}
		case 3: // peer dropped
			q.Revoke(p.id)
		case 4: // every in-flight request timed out
			q.ExpireBodies(-1)
		case 5:
			results()
		}
		check()
	}
	// completion: a fresh honest peer answers everything it is asked
	honest := newPeerConnection("honest", nil, nil)
	for _, pc := range peers {
		q.Revoke(pc.id)
	}
	for round := 0; round < n+1 && released < n; round++ {
		req, _, rerr := q.ReserveBodies(honest, n)
		zzverif.Assert(rerr == nil, "reserving from a correctly scheduled range never reports an invalid chain")
		if req != nil {
			var lists [][]*types.Transaction
			for _, h := range req.Headers {
				lists = append(lists, zzC18Body(bodyOf[h.Number.Uint64()-origin]))
			}
			_, err := q.DeliverBodies(honest.id, lists)
			zzverif.Assert(err == nil, "an honest complete delivery is accepted")
		}
		results()
		check()
	}
	zzverif.Assert(released == n, "with one honest peer the whole range is handed to the importer")
	zzverif.Reach("end")
}
