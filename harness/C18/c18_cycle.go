package downloader

// C18 (a second sync cycle) — the importer may keep fewer blocks than the queue released
// (a rejected block, a cancelled sync, a pivot rollback), so the next cycle starts below the
// previous cycle's result window.  Cycle 1 downloads and releases k blocks from origin 10;
// then Reset, Prepare at any origin from 10 up to where cycle 1 ended, and the same honest
// peer must again be served and the new range released in order.

import (
	"math/big"

	"github.com/youchainhq/go-youchain/common"
	"github.com/youchainhq/go-youchain/core/types"
	"github.com/youchainhq/go-youchain/zzverif"
)

//verif:mode bv
//verif:replace (*$M/core/types.Header).Hash zzC18Hash
//verif:replace $M/core/types.DeriveSha zzC18Derive
//verif:replace (*$M/core/types.Header).Size zzC18HSize
//verif:replace (*$M/core/types.Transaction).Size zzC18TSize

func zzC18cRange(from, n int) []*types.Header {
	var hs []*types.Header
	parent := common.Hash{}
	for i := 0; i < n; i++ {
		h := &types.Header{Number: big.NewInt(int64(from + i)), ParentHash: parent}
		h.TxHash = zzC18Derive(types.Transactions(zzC18Body(1)))
		parent = zzC18Hash(h)
		hs = append(hs, h)
	}
	return hs
}

// one honest cycle: schedule, reserve everything, deliver the right bodies, drain
func zzC18cCycle(q *queue, p *peerConnection, from, n int, label string) int {
	hs := zzC18cRange(from, n)
	ins := q.Schedule(hs, uint64(from))
	zzverif.Assert(len(ins) == n, "a contiguous, hash-linked batch is scheduled completely ("+label+")")
	released := 0
	for round := 0; round < n && released < n; round++ {
		req, _, rerr := q.ReserveBodies(p, n)
		zzverif.Assert(rerr == nil, "an honest peer's reservation from a correctly scheduled range never reports an invalid chain ("+label+")")
		if rerr != nil || req == nil {
			break
		}
		var lists [][]*types.Transaction
		for range req.Headers {
			lists = append(lists, zzC18Body(1))
		}
		acc, err := q.DeliverBodies(p.id, lists)
		zzverif.Assert(err == nil && acc == len(lists), "the right bodies are accepted ("+label+")")
		for _, r := range q.Results(false) {
			zzverif.Assert(r.Header == hs[released], "blocks are released in ascending, gap-free order, each once ("+label+")")
			released++
		}
	}
	zzverif.Assert(released == n, "with one honest peer the whole range is released ("+label+")")
	return released
}

func zzH_C18_second_cycle() {
	q := newQueue()
	q.resultCache = make([]*fetchResult, 6)
	p := newPeerConnection("p0", nil, nil)
	const origin = 10
	k := zzverif.Choose("firstCycleBlocks", 3) + 1
	q.Prepare(origin, FullSync)
	zzC18cCycle(q, p, origin, k, "first cycle")
	// the importer kept `kept` of them; the next cycle starts right above
	kept := zzverif.Choose("importerKept", k+1)
	q.Reset()
	q.resultCache = make([]*fetchResult, 6)
	q.Prepare(uint64(origin+kept), FullSync)
	n2 := zzverif.Choose("secondCycleBlocks", 2) + 1
	zzC18cCycle(q, p, origin+kept, n2, "second cycle")
	zzverif.Reach("end")
}
