#!/bin/bash
# tools_scratch.sh : (re)create /tmp/seedrepo, a scratch worktree of /repo's HEAD, for seeded-change experiments.
# Seeded changes are applied there, never to /repo, so registered checks running against /repo are not disturbed.
if [ -d /tmp/seedrepo ]; then git -C /tmp/seedrepo checkout -q -- . && git -C /tmp/seedrepo clean -fdq && git -C /tmp/seedrepo checkout -q --detach $(git -C /repo rev-parse HEAD); else git -C /repo worktree add -q --detach /tmp/seedrepo HEAD; fi
