#!/bin/bash
# tools_scratch.sh : (re)create ${SEEDREPO:-/tmp/seedrepo}, a scratch worktree of /repo's HEAD, for seeded-change experiments.
# Seeded changes are applied there, never to /repo, so registered checks running against /repo are not disturbed.
if [ -d ${SEEDREPO:-/tmp/seedrepo} ]; then git -C ${SEEDREPO:-/tmp/seedrepo} checkout -q -- . && git -C ${SEEDREPO:-/tmp/seedrepo} clean -fdq && git -C ${SEEDREPO:-/tmp/seedrepo} checkout -q --detach $(git -C /repo rev-parse HEAD); else git -C /repo worktree add -q --detach ${SEEDREPO:-/tmp/seedrepo} HEAD; fi
