#!/bin/bash
# run_all.sh quick|thorough [parallel] : run every registered check, print a summary line per property
tier=${1:-quick}; par=${2:-3}
cd /verif
ids=$(python3 -c "import json;print(' '.join(c['property_id'] for c in json.load(open('MANIFEST.json'))['checks']))")
mkdir -p /tmp/runall
echo $ids | tr ' ' '\n' | xargs -P $par -I{} sh -c "./check {} $tier > /tmp/runall/{}.$tier.log 2>&1; echo {} exit=\$? \$(grep -E '^OK |^VIOLATION|^INCONCLUSIVE' /tmp/runall/{}.$tier.log | head -2 | cut -c1-160)"
