#!/bin/bash
# tools_seed.sh <id> <demo pkg> <demo run regex> "<existing test pkgs>" [check ids...]
# Confirms a sub-agent's seeded change (demo fails with / passes without, existing tests pass with),
# then runs the quick check(s) against it and files everything under /verif/seeded/<id>/.
export GOFLAGS=-mod=mod GOPROXY=off GOSUMDB=off GOTOOLCHAIN=local
id=$1; pkg=$2; run=$3; pkgs=$4; shift 4; checks=${@:-$id}
wt=/tmp/wt/$id; out=/tmp/wt_out/$id; dst=/verif/seeded/$id
mkdir -p $dst
cd $wt || exit 1
demo=$(git status --short | grep '^??' | grep '_test.go' | awk '{print $2}' | head -1)
echo "demo file: $demo"
with=$(go test -vet=off -count=1 -run "$run" $pkg 2>&1 | tail -3 | tr '\n' ' ')
git stash -q
without=$(go test -vet=off -count=1 -run "$run" $pkg 2>&1 | tail -3 | tr '\n' ' ')
git stash pop -q
mv $demo /tmp/demo_$id.go.aside
existing=$(go test -vet=off -count=1 $pkgs 2>&1 | tail -4 | tr '\n' ' ')
mv /tmp/demo_$id.go.aside $demo
echo "WITH: $with"; echo "WITHOUT: $without"; echo "EXISTING: $existing"
cp $out/patch.diff $dst/patch.diff; cp $wt/$demo $dst/$(basename $demo)
# run the checks against the change
/verif/tools_scratch.sh
export VERIF_REPO=${SEEDREPO:-/tmp/seedrepo} VERIF_EVIDENCE=${SEEDREPO:-/tmp/seedrepo}_evidence
cd ${SEEDREPO:-/tmp/seedrepo} && git apply $dst/patch.diff || { echo "patch does not apply to /repo HEAD"; exit 1; }
res=""
for c in $checks; do
  o=$(cd /verif && timeout 1500 ./check $c quick 2>/dev/null | grep -E "^VIOLATION|^OK |^INCONCLUSIVE|label=" | head -6 | tr '\n' ' ')
  res="$res [$c] $o"
done
git -C ${SEEDREPO:-/tmp/seedrepo} checkout -- .
echo "CHECKS: $res"
python3 - "$id" "$with" "$without" "$existing" "$res" "$pkg" "$run" <<'PY'
import json,sys
id,with_,without,existing,res,pkg,run=sys.argv[1:8]
m=json.load(open(f'/tmp/wt_out/{id}/meta.json'))
meta={"property":id.rstrip("abcdefgh"),"seed_id":id,"summary":m.get("summary"),"needs":m.get("needs"),"files_touched":m.get("files_touched"),
 "demo":{"package":pkg,"run":run,"with_change":with_.strip(),"without_change":without.strip()},
 "existing_tests_with_change":existing.strip(),"checks_quick_against_change":res.strip(),
 "detected": "VIOLATION" in res}
json.dump(meta,open(f'/verif/seeded/{id}/meta.json','w'),indent=1)
print("detected:",meta["detected"])
PY
