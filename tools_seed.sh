#!/bin/bash
# tools_seed.sh <id> <demo pkg> <demo run regex> "<existing test pkgs>" [check ids...]
# Confirms a sub-agent's seeded change from its deliverables alone (/tmp/wt_out/<id>/patch.diff + demo test):
# demo passes without / fails with the change, existing tests pass with it; then runs the quick check(s)
# against it and files everything under /verif/seeded/<id>/.  Works on a scratch worktree of /repo's HEAD
# (never on /repo, never with git stash: the stash is shared between worktrees).
export GOFLAGS=-mod=mod GOPROXY=off GOSUMDB=off GOTOOLCHAIN=local
id=$1; pkg=$2; run=$3; pkgs=$4; shift 4; checks=${@:-$id}
out=/tmp/wt_out/$id; dst=/verif/seeded/$id; S=${SEEDREPO:-/tmp/seedrepo}
mkdir -p $dst
demo=$(ls $out/*_test.go | head -1)
[ -f "$demo" ] || { echo "no demo test in $out"; exit 1; }
cp $out/patch.diff $dst/patch.diff; cp $demo $dst/$(basename $demo)
SEEDREPO=$S /verif/tools_scratch.sh
cd $S || exit 1
cp $demo $S/$pkg/$(basename $demo)
without=$(go test -vet=off -count=1 -run "$run" $pkg 2>&1 | tail -3 | tr '\n' ' ')
git apply $dst/patch.diff || { echo "patch does not apply to /repo HEAD"; exit 1; }
with=$(go test -vet=off -count=1 -run "$run" $pkg 2>&1 | tail -3 | tr '\n' ' ')
rm -f $S/$pkg/$(basename $demo)
existing=$(go test -vet=off -count=1 $pkgs 2>&1 | tail -4 | tr '\n' ' ')
rm -rf $S/core/statestate_test
echo "demo file: $demo"; echo "WITH: $with"; echo "WITHOUT: $without"; echo "EXISTING: $existing"
# run the checks against the change
export VERIF_REPO=$S VERIF_EVIDENCE=${S}_evidence
res=""
for c in $checks; do
  o=$(cd /verif && timeout 1500 ./check $c quick 2>/dev/null | grep -E "^VIOLATION|^OK |^INCONCLUSIVE|label=" | head -6 | tr '\n' ' ')
  res="$res [$c] $o"
done
git -C $S checkout -- .
echo "CHECKS: $res"
python3 - "$id" "$with" "$without" "$existing" "$res" "$pkg" "$run" <<'PY'
import json,sys
id,with_,without,existing,res,pkg,run=sys.argv[1:8]
m=json.load(open(f'/tmp/wt_out/{id}/meta.json'))
meta={"property":id.rstrip("abcdefgh"),"seed_id":id,"summary":m.get("summary"),"needs":m.get("needs"),"files_touched":m.get("files_touched"),
 "demo":{"package":pkg,"run":run,"with_change":with_.strip(),"without_change":without.strip()},
 "existing_tests_with_change":existing.strip(),"checks_quick_against_change":res.strip(),
 "detected": "VIOLATION" in res}
json.dump(meta,open(f'/verif/seeded/{id}/meta.json','w'),indent=1)
print("detected:",meta["detected"])
PY
