#!/usr/bin/env python3
"""Regenerates MANIFEST.json from the table below (run after adding a check)."""
import json, os, subprocess

V = os.path.dirname(os.path.abspath(__file__))

CLAIMED = {
 "C01": ("The real verifyConsensusFieldMain -> VrfVerifyPriority -> verifyVotes (BLS branch) on an arbitrary decoded header over a symbolic two-validator look-back set with signature / VRF / seat / quorum oracles: acceptance implies the mathematical weight of distinct eligible signers with protocol-valid sortition reaches the protocol's quorum, and the proposer credential used the protocol's threshold; the branch without BLS (signer = recovered secp256k1 key); the real float64 OverThreshold against the rational quorum fractions.",
         "Trusted: gosym, z3; crypto idealised; two validators, up to two votes (three in zzH_C01_votes3), EnableBls; certificate branch outside. Two open known findings (header-chosen thresholds, voter eligibility).",
         "solver-based symbolic execution of go/ssa (bv) with uninterpreted crypto oracles"),
 "C02": ("Bounded symbolic history (vote attempts with symbolic kind/round/index, context changes, crash+restart on the same database) over the real VoteDB code; a ghost list of signed votes decides 'at most one per kind, round, index'; the real Voter.vote over it with every database write a possible kill point: at most one vote of a kind leaves the node per round and index.",
         "Trusted: gosym, z3; signatures and RLP of VoteItem idealised (native replay uses the real ones); rounds do not go back across restarts; history length 4/5.",
         "solver-based symbolic execution of go/ssa (bv), bounded history with symbolic arguments"),
 "C03": ("Tally and escalation kernels: bounded symbolic vote histories over the real VoteSta against 'first votes of non-equivocating senders'; one step of the real judgeVoteCount from an arbitrary voter state (precommit only on a prevote quorum, certificate vote / commit only with every required quorum); the real float64 OverThreshold against the rational fractions 0.685 T / 0.585 T in the FloatingPoint theory (reaching the fraction passes; passing is less than one vote below it); bounded vote histories through the real VotesWrapper/judgeVoteCount/commit, also across a real round-index change: every posted CommitEvent carries vote sets that reach their quorums.",
         "Trusted: gosym, z3. NOT covered: message caching, goroutines, credential checks of incoming votes. One open known finding (commit packs vote sets reduced by a later equivocation).",
         "solver-based symbolic execution of go/ssa (bv + FloatingPoint lemma)"),
 "C04": ("Control skeleton only: search on every monotone predicate; choose's branches with gonum's CDF as an unknown non-decreasing function (least-j quantile, 0<=j<=stake, mirrored branch); MakeM injectivity; VrfVerifySortition/VrfVerifyPriority bind key, message, stake, threshold/total and seat count under an idealised VRF; computePriority is the maximum per-seat hash, every seat with its own hash input up to committee-sized seat counts; the VRF's ProofToHash (group and hashes uninterpreted) takes its challenge over message point, key and VRF point; the node-level verifiers Server.verifyPriority / verifySortition accept only what the Vrf verifier accepted for exactly the message's fields and the message round's look-back data; the real SortitionManager (step-view cache) hands out, over every short history of round changes in any direction, the credential for the current look-back inputs.",
         "Trusted: gosym, z3 (FloatingPoint + UF). NOT covered (the numeric heart): that gonum's float64 incomplete-beta CDF is the binomial CDF, float rounding, stakes beyond the small bound. Two open known findings (zero-seat proposer; a rejected credential of an old round / round index is let through by Server.verifySortition).",
         "solver-based symbolic execution of go/ssa with uninterpreted monotone CDF"),
 "C05": ("Real processDoubleSignV5/doPenalize/takePenalty on the real StateDB with an arbitrary well-typed evidence and BLS idealised behind the repo's interfaces with a signing oracle (honest: at most one hash per vote kind per round/index): honest safety, equivocation penalised once within the fraction and credited to the penalty account, takePenalty cap/conservation/non-negativity/consistency with delegations and pending withdrawals; the validator set an evidence's signer index is resolved in is the one the round's voters are indexed in.",
         "Trusted: gosym, z3; BLS idealisation; one validator in the look-back set, two pairs. Re-inclusion of one evidence in two blocks is penalised at most once; an evidence is acted on wherever it stands in a block's list. Two open known findings (duplicate pair, cross-kind).",
         "solver-based symbolic execution of go/ssa (SMT Int mode) with uninterpreted signing oracle"),
 "C06": ("End-of-block staking kernels only: rewardsToPool, distributeRewards and the validator pass slashingAndRecoveringYouV5 (state and order of emitted logs) give the same result under every Go map / sync.Map iteration order; builder and importing node execute transactions with the same beneficiary and act on several confirmed evidences in the same order (self-composition on a Copy, executor forks over all orders); builder slashing vs importing node's replaySlashing of the written slash data for an arbitrary double-sign evidence; the process-wide code-size cache of the shared state database never changes an answer (every history of requests, arbitrary LRU eviction).",
         "Trusted: gosym, z3, StateDB.Copy (C10). NOT covered: whole-block determinism through EVM, RLP, tries, receipts, the pastTries cache. One open known finding (zero-penalty expulsion not replayed).",
         "solver-based symbolic execution of go/ssa with map-order permutation and self-composition"),
 "C07": ("One inductive step per end-of-block value-moving kernel (blockRewards+rewardsToPool, distributeRewards, settleValidatorRewards, processWithdrawQueue) with a ghost sum over balances, reward accounts, role pools, residue, pending withdrawals and the block's fees; penalties are in C05, fee charging in C17 (whose staking-converter contract harness - reported gas = consumed gas - also runs here); the four value-moving take-effect handlers of staking actions conserve stake + withdraw queue + balances, and their submission side detains exactly the submitted amount; validator creation (handleCreate then teCreate) debits exactly the deposit, which becomes exactly the new validator's own tokens, duplicates refused.",
         "Trusted: gosym, z3 (non-linear Int, standalone fallback); online validators hold >= 1 stake unit; validator update/status/settle handlers and EVM transfers outside. One open known finding (forced settle loses rewards).",
         "solver-based symbolic execution of go/ssa (SMT Int mode, non-linear), inductive conservation step"),
 "C08": ("Inductive step on the real StateDB validator/delegation code from an arbitrary consistent two-validator state (symbolic role/status/token, a delegator with up to two delegations): statistics = recomputation, index = live set, per-validator sums and delegator links after every mutation and after its revert (also after every value-moving staking action taking effect).",
         "Trusted: gosym, z3; fake Database/Trie behind the repo's own interfaces; PubToAddress/RLP of the delegator list idealised; commit+reload outside. One open known finding (RemoveValidator keeps the index entry).",
         "solver-based symbolic execution of go/ssa (SMT Int mode), inductive invariant step"),
 "C09": ("Real Snapshot/RevertToSnapshot/Finalise/journal over a fake trie: every operation sequence of the bound follows a snapshot-stack model with both revision lists exact; mutate-then-revert restores every account and validator observable from an arbitrary small pre-state; a reverted frame leaves no trace in the committed content either (twin runs over a snapshot store, content reopened from the committed roots).",
         "Trusted: gosym, z3; roots after revert (hashing) outside; sequences of 6/7 operations, 2 accounts, 2 validators, 2 withdraw records. One open known finding (staking records not journalled).",
         "solver-based symbolic execution of go/ssa (bv + Int), bounded sequences and one-step inverse"),
 "C10": ("Copy half: a fresh StateDB.Copy is observationally equal to the original and one arbitrary mutation of either side never shows on the other (exact object identity in the executor); ValidatorIndex.List ordering for all sync.Map iteration orders. Reopen half: after arbitrary writes (accounts, storage, code; validators, delegation, withdraw queue) with transaction ends, intermediate roots and commits at arbitrary positions, the state reopened from the committed roots shows the live object's persistent content and that of a twin run that flushed only once (the work may continue on a Copy taken at a transaction boundary); staking records of a copy are equal and independent; the real Trie's copy-on-write under the shallow copies StateDB.Copy takes (either side updated after the copy reads its own content).",
         "Trusted: gosym, z3; snapshot store behind the repo's Trie/Database interfaces (a root identifies the flushed content; 'same content => same root' rests on C13/C14); the codec is modelled as the identity on whole objects (fields dropped by custom EncodeRLP/DecodeRLP outside); EIP-158 view of existence. One open known finding (a copy taken mid-transaction does not finalise a pending self-destruct).",
         "solver-based symbolic execution of go/ssa (SMT Int mode) with map-order permutation"),
 "C12": ("Inductive step over the real VerifyYouVersionState with ghost state from every invariant-satisfying header and every valid 3-version parameter table (all symbolic); builder ProcessYouVersionState subset of verifier; chains of 3/4 headers through the real chain-level VerifyYouVersionState2 with the ghost computed from the history (no invariant assumed); VersionForRoundWithParents reads the parameters of the header 8 rounds back without leaving the batch.",
         "Trusted: gosym, z3; parameter tables restricted to the stated validity predicate; numbers < 2^40. One open known finding (late approval).",
         "solver-based symbolic execution of go/ssa (SMT Int mode), inductive invariant step"),
 "C13": ("Structural half: compact/hex key encodings on symbolic nibble strings, decodeNode on every byte string up to the bound (+ shaped full nodes), in-memory insert/delete/get against an association-list model and a canonical rebuild (history independence before hashing), also after commit+reopen with hash references resolved through the real simplifyNode/expandNode pair (incl. prefix keys / branch values); the hasher embeds exactly the nodes shorter than 32 bytes; proofs from the real Prove verify with the real VerifyProof to the stored value or absence; the real iterator returns exactly the surviving pairs, ascending; a struct copy of a Trie is independent of its original under further updates.",
         "Trusted: gosym, z3; canonical nibble labelling (symmetry of the trie code under per-position relabelling). NOT covered: hashing/root value, byte-level proof encoding, the root value (keccak over reflection RLP), iterator order, the committer and disk format, node DB GC.",
         "solver-based symbolic execution of go/ssa (bv)"),
 "C14": ("Primitive layer: every byte string of the stated lengths through rlp.Split*/CountValues/readKind/readSize and Stream.Bytes/Uint/Raw/List; accept => canonical against an independent Yellow-Paper encoder; encoder heads for every 64-bit size; allocation bounded by input; the reflect-facing leaf decoders/writers (big.Int, uint64, []byte, string, bool) and the rlp:\"nil\" optional-pointer decoder on a minimal reflect model; the custom codec pairs of Validator / ValidatorsStat / ValidatorIndex round-trip every field; the consensus layer's entry points accept exactly one RLP value (codec entry points by contract over the real rlp.Split).",
         "Trusted: gosym incl. its minimal reflect model, z3. NOT covered: struct/list decoders, the type cache, the remaining custom EncodeRLP/DecodeRLP pairs and the other handlers built on them. One open known finding (nil tag accepts the empty list).",
         "solver-based symbolic execution of go/ssa (bv) over fully symbolic byte buffers"),
 "C15": ("Each computational opcode's real execute function (from the real Istanbul jump table) on arbitrary 256-bit operands with sentinel, shared intPool and aliasing checks; oracle = SMT-LIB 256-bit BV theory, or Yellow-Paper integer definitions (DIV/SDIV/MOD/SMOD/ADDMOD/MULMOD/EXP); EXP's dynamic gas = 10 + 50 per exponent byte; MSTORE / MSTORE8 / MLOAD through their jump-table entries on an arbitrary memory against a byte-array model (content everywhere, word-wise zero-filled expansion, quadratic expansion gas).",
         "Trusted: gosym incl. its big.Int model (520-bit two's complement / SMT Int), z3; EXP: full width for exponents <= 7/15, modulo 2^8 for sparse multi-limb exponents (2/3 limbs); memory: 64 bytes + expansion, 6 offsets, 1/2 operations; storage and copy opcodes outside.",
         "solver-based symbolic execution of go/ssa, equivalence against bit-vector / integer specifications"),
 "C16": ("One call frame = the inductive step over call depth: real Call/CallCode/DelegateCall/StaticCall/create against a recording fake of vm.StateDB with the callee replaced by an arbitrary outcome: snapshot before every mutation, revert-to-that-snapshot last on failure, all gas burnt unless REVERT, refusals touch nothing and return the gas; one CALL-family instruction's gas forwarding and the frame-local static flag through the real interpreter; the real interpreter loop in read-only mode over all 256 opcode bytes of the real jump table.",
         "Trusted: gosym, z3; callee summary (mutates only through vm.StateDB, leaves gas <= given). NOT covered: whole multi-contract programs, SELFDESTRUCT burn; the journal itself is C09 (its committed-view twin harness also runs here).",
         "solver-based symbolic execution of go/ssa (bv), one inductive frame with an arbitrary callee summary"),
 "C17": ("Signer V/network-id arithmetic, signature value ranges and hash binding on symbolic V/R/S/ids with recovery and rlpHash idealised; the real ApplyMessageEntry (preCheck, buyGas, IntrinsicGas, UseGas, refundGas, GasPool) on the real StateDB with an arbitrary gas-monotone converter step: refusals change nothing, exact charge, refund <= half; the staking module's TxConverter.ApplyMessage meets the converter contract assumed there (nonce +1 failed or not, reported gas = consumed gas; protocol versions 4 and 5); the per-transaction sender cache is transparent across network ids; the default converter's base cost is 53000 for every creation and 21000 for every call.",
         "Trusted: gosym, z3; secp256k1 and rlpHash injectivity idealised; one of r,s full length. One open known finding (pre-refund gasUsed).",
         "solver-based symbolic execution of go/ssa (bv / SMT Int)"),
 "C18": ("Bounded symbolic histories over the real download queue (Schedule, ReserveBodies, DeliverBodies, CancelBodies, Revoke, ExpireBodies, Results, real prque, peer lacking sets) in FullSync: ghost accounting of every header across task queue / peer requests / done set, strictly ascending gap-free single release with the body matching the transaction root, refusals of unsolicited data, then completion with one honest peer.",
         "Trusted: gosym, z3; Header.Hash / DeriveSha idealised as injective; 6-slot result window (2-slot under 4 headers in the window entry). NOT covered: liveness beyond the completion phase, goroutine layer of downloader.go/fetcher.go, receipts/FastSync, skeleton filling, memory throttling.",
         "solver-based bounded symbolic execution of go/ssa (histories of 3 / 5 operations, 2 / 3 headers, 2 peers)"),
 "C19": ("Scheduler half: the real trie.Sync (NewSync, Missing, Process, schedule, children, commit, Pending) and priority queue over every small source DAG given by a symbolic child table and every response order / repetition / unsolicited delivery within the bound: children complete before parents, Pending()=0 exactly when every reachable node is stored, refusals change nothing, counters never negative, leaves referencing shared raw entries through the leaf callback, the state sync's own leaf callback scheduling storage, code and delegations of an arbitrary account, nothing stored twice.",
         "Trusted: gosym, z3; decodeNode replaced by a table lookup. NOT covered: that delivered bytes hash to the requested key (keccak in goroutines of triesync.go), state-sync leaf callback, content equality after sync.",
         "solver-based symbolic execution of go/ssa (bv) with symbolic DAG shape and responses"),
 "C20": ("Inductive step over txSortedMap and txList (real container/heap, sort) from an arbitrary invariant-satisfying list with symbolic nonces/prices/gas: representation invariant and functional specs of Put/Forward/Filter/Cap/Remove/Ready/Flatten/Add; pool level: bounded histories (arrival, new head, removal) over the real TxPool bookkeeping with the statement's views asserted after every reorg step.",
         "Trusted: gosym, z3; sender carried in the payload, transaction identity an injective stand-in. NOT covered: reorg re-injection, locals, journal, the goroutine loop, timers and every concurrency claim.",
         "solver-based symbolic execution of go/ssa (bv / Int), inductive invariant step"),
}

NA = {
 "C11": "canonical-chain consistency under import orders and crash points lives in InsertChain/reorg/WriteBlockWithState (goroutines, LevelDB batches, whole block processing); not encodable by a path-wise SSA->SMT executor; see DESIGN.md section 5",
}

PENDING = "check not built yet in this session (see DESIGN.md section 3 for the planned obligations); not claimed until its harness runs clean on the unchanged tree"


def main():
    props = [json.loads(l)["id"] for l in open(os.path.join(V, "properties.jsonl"))]
    checks, na = [], []
    for p in props:
        if p in CLAIMED and os.path.exists(os.path.join(V, "harness", p, "spec.json")):
            text, note, tech = CLAIMED[p]
            checks.append({"property_id": p, "quick_cmd": f"./check {p} quick", "thorough_cmd": f"./check {p} thorough",
                           "evidence_file": f"/verif/evidence/{p}.json", "replay_cmd_template": "./check-replay {path}", "engine": "gosym",
                           "level_claimed": {"category": "model_checking", "text": text, "design_ref": f"DESIGN.md section 3 {p}"},
                           "level_note": note, "technique": tech})
        else:
            na.append({"property_id": p, "reason": NA.get(p, PENDING)})
    m = {
        "version": 1,
        "setup_cmd": "cd /verif/engine && GOFLAGS=-mod=mod GOPROXY=off GOSUMDB=off GOTOOLCHAIN=local go build -o /verif/bin/gosym ./cmd/gosym",
        "hooks": {"guard": "none", "enable": "no source hooks: harnesses are injected with go/packages Overlay and `go test -overlay`; /repo is only touched by fix: commits",
                  "baseline_off_cmd": "cd /repo && go test -vet=off -count=1 -timeout 25m ./...", "source_commits": [], "add_only": True},
        "engines": [{"name": "gosym", "path": "/verif/engine", "serves_properties": [c["property_id"] for c in checks],
                     "kind_free_text": "SSA (go/ssa) -> SMT-LIB2 symbolic executor written for this task; z3 5.1 incremental, z3 4.8.12 cross-check in thorough"}],
        "checks": checks,
        "not_applicable": na,
        "notes": "every check re-loads /repo's working tree, rebuilds SSA and the SMT encoding; exit 0/1/2 = held within bounds / VIOLATION / inconclusive",
    }
    json.dump(m, open(os.path.join(V, "MANIFEST.json"), "w"), indent=1)
    print("checks:", [c["property_id"] for c in checks])
    print("not_applicable:", [n["property_id"] for n in na])


if __name__ == "__main__":
    main()
